"""C06 -- translation is total: a loadable class or a library exception (DESIGN 3/C06)."""
from __future__ import annotations

import ast
import string

from ..core import Run, AnalysisError, loc_of
from ..source import get_source, ClassInfo
from ..grammar import get_grammar, ENTRY, UNDEFINED, CC_BASE
from ..emission import get_emission, helper_calls, render
from ..runtime import get_runtime, find_template, template_holes, may_complete_normally
from ..callgraph import get_callgraph, raises_of
from ..regexmodel import MAXREPEAT
from ..paths import parent_map, path_conditions
from ..symeval import Code, Part, Const, NumV
from .common import library_exceptions, skeleton_of, all_skeletons, excel_name

INFO = {
    'explanation': (
        'Totality cannot be proved for Python in general; decided are the specific partial operations of the translation path, '
        'each as a rule over all inputs: R1 every explicit raise reachable from Parser._translate (call graph) is a library '
        'exception or provably dead; R2/R5 no world of the symbolic evaluation of any translator x production (accessor indices, '
        'None results, unpacking, str+number) ends in a foreign exception; R3 workbook-keyed lookups (sheet title, data indices) are '
        'guarded; R4 keyword <-> production <-> control-construction set <-> dispatch dict agree and every emitted self.<helper>(...) '
        'exists in the class template with a compatible arity; R6 the templates are well-formed format strings whose holes are '
        'exactly the documented ones, the format receiver is the template constant alone, member names are built from integers; '
        'R7 lexer progress, no left recursion, re-parsing of common prefixes (known finding), recursion depth (known finding); '
        'R8 both loading routes instantiate ExcelInPython without arguments; R9 every emission skeleton parses as Python. '
        'Not decided: implicit exceptions in general, wall-clock bounds.'),
    'rule': 'one obligation per raise site, per (translator, production, world-class), per keyword, per emitted helper call, per terminal',
    'trusted': ['the call graph resolver (typed by annotations, class-hierarchy fallback by method name)'],
}

FOREIGN_DEAD = {
    # (function qualname, exception) -> (why it is dead, rule that proves it)
    ('ControlConstructionTokenTranslator.translate', 'TypeError'):
        'unknown control construction: dead iff every member of ControlConstructionCompositeBaseToken._TOKEN_SETS has a dispatch '
        'entry (C06.R4)',
    ('SumIfControlConstructionTokenTranslator.translate', 'ValueError'):
        'invalid cells range: dead iff the three productions of SimilarCellToken are exactly the three tested accessors '
        '(no world of the symbolic evaluation reaches it: C06.R2)',
}


def r1(run: Run, src, cg, em, dead_ok):
    lib = library_exceptions(src)
    entry = src.func('Parser._translate')
    reach = cg.reachable([entry])
    n = 0
    for key, (f, parent) in sorted(reach.items()):
        for exc, node in raises_of(f.node):
            n += 1
            construct = f'{f.qualname}/raise {exc}'
            loc = loc_of(f.module.path, node)
            if exc in lib:
                run.ok('C06.R1', construct, 'library exception', loc=loc)
            elif exc == '<reraise>':
                run.ok('C06.R1', construct, 're-raise inside a handler', nontrivial=False, loc=loc)
            elif (f.qualname, exc) in FOREIGN_DEAD and dead_ok.get((f.qualname, exc)):
                run.ok('C06.R1', construct, 'foreign but dead: ' + FOREIGN_DEAD[(f.qualname, exc)], loc=loc)
            else:
                path = ' -> '.join(cg.path_to(reach, key)[-5:])
                why = ''
                if (f.qualname, exc) in FOREIGN_DEAD:
                    why = ' (normally dead, but the rule that proves it dead failed)'
                run.bad('C06.R1', construct, 'foreign-raise',
                        f'{exc} is raised on the translation path ({path}); it is not part of the E2PyclException hierarchy{why}',
                        loc=loc)
    return n


def r2(run: Run, src, g, em):
    """no symbolic world of a reachable translator ends in a foreign exception"""
    lib = library_exceptions(src)
    reached_dead = {}
    seen_ok = set()
    for (tr, tk), ems in sorted(em.pairs.items()):
        for e in ems:
            o = e.outcome
            if o.kind != 'raise':
                if e.construct not in seen_ok:
                    seen_ok.add(e.construct)
                    run.ok('C06.R2', e.construct, 'every world returns or raises a library exception', nontrivial=True)
                continue
            if o.exc in lib:
                continue
            un = em.unreachable(e)
            if un:
                run.note(f'C06.R2 {e.construct}: {o.exc} in a world that cannot occur ({un})')
                continue
            if o.explicit:
                reached_dead[(o.where, o.exc)] = e
            loc = loc_of(src.cls(tr).module.path, o.node) if o.node is not None else ''
            sub = f'{o.exc}@{o.where}'
            run.bad('C06.R2', e.construct, sub,
                    f'{tr} on {tk} production[{e.production}] ends in {o.exc}: {o.msg} (in {o.where}; world: {e.world[:200]})',
                    loc=loc)
    return reached_dead


def r3(run: Run, src):
    """workbook-keyed lookups are guarded"""
    lib = library_exceptions(src)
    # (a) title -> index: an unknown title ends in a library exception.  Decided by evaluation of handle_cell (shared with C02.R3);
    #     the structural reading below is the fallback
    from . import c02 as _c02
    sub_ = Run('tmp', run.tier, run.seed, quiet=True)
    by_eval = True
    try:
        _c02.r3_eval(sub_, src)
    except AnalysisError:
        by_eval = False
    if by_eval:
        for o_ in sub_.obligations:
            if o_['verdict'] == 'holds':
                run.ok('C06.R3', o_['construct'], o_['fact'], loc=o_['loc'])
        for f_ in sub_.findings:
            run.bad('C06.R3', f_['construct'], f_['sub'], f_['message'], loc=f_['loc'])
    else:
        _title_lookup_guarded(run, src, lib)
    _rest_of_r3(run, src, lib)


def _title_lookup_guarded(run: Run, src, lib):
    from .common import inlined_function as _inl_hc
    fi = _inl_hc(src, 'handle_cell')
    fn = fi.node
    parents = parent_map(fn)
    titles_param = fi.params[1] if len(fi.params) > 1 else None
    subs = [n for n in ast.walk(fn) if isinstance(n, ast.Subscript) and isinstance(n.ctx, ast.Load) and
            isinstance(n.value, ast.Name) and n.value.id == titles_param]
    gets = [n for n in ast.walk(fn) if isinstance(n, ast.Call) and isinstance(n.func, ast.Attribute) and
            n.func.attr == 'get' and isinstance(n.func.value, ast.Name) and n.func.value.id == titles_param]
    if not subs and not gets:
        raise AnalysisError('C06.R3', 'no title lookup found in handle_cell')
    for s in subs:
        key = ast.unparse(s.slice)
        conds = path_conditions(fn, s, parents)
        guarded = False
        for test, pol in conds:
            for c in ast.walk(test):
                if isinstance(c, ast.Compare) and len(c.ops) == 1 and isinstance(c.comparators[0], ast.Name) and \
                        c.comparators[0].id == titles_param and ast.unparse(c.left) == key:
                    if (isinstance(c.ops[0], ast.In) and pol) or (isinstance(c.ops[0], ast.NotIn) and not pol):
                        guarded = True
        # or: inside try/except KeyError -> library raise
        p = parents.get(s)
        while p is not None and not guarded:
            if isinstance(p, ast.Try):
                for h in p.handlers:
                    names = [getattr(x, 'id', '') for x in ast.walk(h.type)] if h.type is not None else ['KeyError']
                    if ('KeyError' in names or 'LookupError' in names or 'Exception' in names) and \
                            any(e in lib for e, _ in raises_of(ast.Module(body=h.body, type_ignores=[]))):
                        guarded = True
            p = parents.get(p)
        run.check(guarded, 'C06.R3', f'handle_cell/{titles_param}[{key}]', 'unguarded-title-lookup',
                  'a sheet title taken from a formula indexes the title map without a membership test: an unknown title raises '
                  'KeyError', fact='dominated by a membership test that raises a library exception', loc=loc_of(fi.module.path, s))
    # the negative side of the membership test must raise a library exception
    for st in ast.walk(fn):
        if isinstance(st, ast.If):
            for c in ast.walk(st.test):
                if isinstance(c, ast.Compare) and len(c.ops) == 1 and isinstance(c.ops[0], (ast.NotIn,)) and \
                        isinstance(c.comparators[0], ast.Name) and c.comparators[0].id == titles_param:
                    rs = raises_of(ast.Module(body=st.body, type_ignores=[]))
                    run.check(bool(rs) and all(e in lib for e, _ in rs) and not may_complete_normally(st.body), 'C06.R3',
                              'handle_cell/unknown-title-branch', 'unknown-title-not-rejected',
                              'the branch for a title that is not in the map does not raise a library exception',
                              fact=f'raises {[e for e, _ in rs]}', loc=loc_of(fi.module.path, st))
    from .common import strict_get_lookup
    for gcall in gets:
        if strict_get_lookup(src, fi, gcall) is not None:
            run.ok('C06.R3', f'handle_cell/{titles_param}.get(.., sentinel)', 'unknown title -> sentinel -> library exception',
                   loc=loc_of(fi.module.path, gcall))
            continue
        run.bad('C06.R3', f'handle_cell/{titles_param}.get', 'default-sheet',
                'the title is looked up with dict.get: an unknown title resolves to a default instead of being rejected',
                loc=loc_of(fi.module.path, gcall))


def _fill_cell_eval(run: Run, src):
    """(b) by abstract evaluation (engine F) of Excel._fill_cell on a small ragged workbook: inside the stored data the stored
    value, outside it (any coordinate negative or too large) a blank -- never an IndexError"""
    from ..finite import Evaluator, AV, const_av, Unknown, AbsRaise
    ex = src.cls('Excel')
    fc = ex.methods.get('_fill_cell')
    if fc is None:
        raise AnalysisError('C06.R3', 'Excel._fill_cell not found')
    members = {n: m.node for n, m in ex.methods.items()}

    def lst(x):
        return AV('list', items=tuple(lst(y) for y in x)) if isinstance(x, list) else const_av(x)
    data = lst([[[10, 20], [30]], [[40]]])
    cases = [((0, 0, 0), 10), ((0, 1, 0), 20), ((0, 0, 1), 30), ((1, 0, 0), 40), ((0, 1, 1), None), ((2, 0, 0), None), ((0, 0, 5), None),
             ((0, 7, 0), None), ((-1, 0, 0), None), ((0, -1, 0), None), ((0, 0, -1), None), ((1, 1, 0), None)]
    for (t, c, r), want in cases:
        ev = Evaluator(members, max_depth=8)
        me = ev.new_obj('Excel', {'_data': data})
        cell = ev.new_obj('Cell', {'title': const_av(t), 'column': const_av(c), 'row': const_av(r), 'value': const_av(None),
                                   'uid': const_av(f'_{t}_{c}_{r}'), '_handled_identifiers': const_av(True)})
        construct = f'Excel._fill_cell/sheet {t}, column {c}, row {r}'
        try:
            ev.call_method('_fill_cell', [cell], me)
        except Unknown as u:
            raise AnalysisError('C06.R3', f'{construct}: the abstraction cannot follow _fill_cell ({u})')
        except AbsRaise as e:
            run.bad('C06.R3', construct, f'raises:{e.exc}', f'_fill_cell raises {e.exc} for a cell at sheet {t}, column {c}, row {r} of a '
                    f'workbook with the rows [[10, 20], [30]] and [[40]]: a reference outside the stored data must read as blank',
                    loc=loc_of(fc.module.path, fc.node))
            continue
        got = ev.obj_attrs(cell)['value']
        gv = None if got.kind == 'none' else got.val
        run.check(gv == want, 'C06.R3', construct, 'wrong-cell-read',
                  f'_fill_cell reads {gv!r} for sheet {t}, column {c}, row {r} of the workbook [[10, 20], [30]] / [[40]]; expected {want!r}',
                  fact=f'-> {gv!r}', loc=loc_of(fc.module.path, fc.node))


def _rest_of_r3(run: Run, src, lib):
    try:
        sub_ = Run('tmp', run.tier, run.seed, quiet=True)
        _fill_cell_eval(sub_, src)
        for o_ in sub_.obligations:
            if o_['verdict'] == 'holds':
                run.ok('C06.R3', o_['construct'], o_['fact'], loc=o_['loc'])
        for f_ in sub_.findings:
            run.bad('C06.R3', f_['construct'], f_['sub'], f_['message'], loc=f_['loc'])
        return
    except AnalysisError as e_:
        run.note(f'C06.R3 evaluation of _fill_cell skipped: {e_.reason[:100]}')
    # (b) data[t][r][c] guarded by three bounds tests
    ex = src.cls('Excel')
    fc = ex.methods.get('_fill_cell')
    if fc is None:
        raise AnalysisError('C06.R3', 'Excel._fill_cell not found')
    # every access to a level of the data -- directly or through a local that holds a level -- is dominated by the bounds test
    # 0 <= index < len(level); helpers of the class are analysed in place, guard clauses as nesting
    from .common import normalized_method, flat_conditions
    fc, fcn = normalized_method(src, 'Excel', '_fill_cell')
    from ..inline import desugar
    fcn = desugar(fcn)             # a local that names the bounds test is read as the test
    parents = parent_map(fcn)
    alias = {}
    for st in ast.walk(fcn):
        if isinstance(st, ast.Assign) and len(st.targets) == 1 and isinstance(st.targets[0], ast.Name):
            alias.setdefault(st.targets[0].id, []).append(st.value)

    def expand(e, depth=0):
        """text of the expression with locals that hold a data level replaced by what they hold"""
        if isinstance(e, ast.Name) and depth < 4 and len(alias.get(e.id, [])) == 1 and \
                isinstance(alias[e.id][0], (ast.Subscript, ast.Attribute)):
            return expand(alias[e.id][0], depth + 1)
        if isinstance(e, ast.Subscript):
            return f'{expand(e.value, depth)}[{expand(e.slice, depth)}]'
        if isinstance(e, ast.Call) and isinstance(e.func, ast.Name) and e.func.id == 'len' and len(e.args) == 1:
            return f'len({expand(e.args[0], depth)})'
        return ast.unparse(e)
    accesses = [n for n in ast.walk(fcn) if isinstance(n, ast.Subscript) and isinstance(n.ctx, ast.Load) and
                expand(n.value).startswith('self._data')]
    if len(accesses) < 3:
        raise AnalysisError('C06.R3', f'expected accesses to the three data levels in Excel._fill_cell, found {len(accesses)}')
    seen = set()
    for acc in accesses:
        cont, i = expand(acc.value), expand(acc.slice)
        if (cont, i) in seen:
            continue
        lower = upper = False
        for test, pol in flat_conditions(path_conditions(fcn, acc, parents)):
            if not pol or not isinstance(test, ast.Compare):
                continue
            operands = [test.left] + list(test.comparators)
            for (a, op, b) in zip(operands, test.ops, operands[1:]):
                ta, tb = expand(a), expand(b)
                if ta == '0' and isinstance(op, ast.LtE) and tb == i:
                    lower = True
                if tb == '0' and isinstance(op, ast.GtE) and ta == i:
                    lower = True
                if ta == i and isinstance(op, ast.Lt) and tb == f'len({cont})':
                    upper = True
                if tb == i and isinstance(op, ast.Gt) and ta == f'len({cont})':
                    upper = True
        # an access that only serves a bounds test of a deeper level (len(data[t][r])) is guarded by the tests to its left
        seen.add((cont, i))
        run.check(lower and upper, 'C06.R3', f'Excel._fill_cell/{cont}[{i}]', 'unguarded-index',
                  f'the access {cont}[{i}] is not dominated by the bounds test 0 <= {i} < len({cont})',
                  fact=f'0 <= {i} < len({cont})', loc=loc_of(fc.module.path, acc))


def r12_results_are_text(run: Run, src, g, em):
    """a translator's result is spliced into code text: a result that is not a str (COLUMN() without argument gives an int) is
    harmless only while every consumer formats it (f-string, str()); handed on unchanged to a consumer that joins or concatenates
    strings it raises TypeError during translation"""
    from ..symeval import Code, NumV, Const, Part
    nonstr, raw = {}, {}
    for e in em.emissions():
        o = e.outcome
        if o.kind != 'return' or em.unreachable(e):
            continue
        v = o.value
        if isinstance(v, NumV) or (isinstance(v, Const) and not isinstance(v.value, str) and v.value is not None):
            nonstr.setdefault(e.translator, e)
        if isinstance(v, Code) and len(v.parts) == 1 and isinstance(v.parts[0], Part) and v.parts[0].kind == 'slot' and \
                not v.parts[0].fmt:
            raw.setdefault(e.translator, set()).add(v.parts[0].a)
    ns = dict(nonstr)
    why = {t: f'{t} returns a number in the world {e.world[:60]}' for t, e in nonstr.items()}
    changed = True
    while changed:
        changed = False
        for t, subs in raw.items():
            for s_ in subs:
                if s_ in ns and t not in ns:
                    ns[t] = ns[s_]
                    why[t] = f'{t} hands on the result of {s_} unchanged; ' + why[s_]
                    changed = True
    n = 0
    for e in em.emissions():
        o = e.outcome
        if o.kind not in ('return', 'raise') or em.unreachable(e):
            continue
        for eff in o.effects:
            if eff.kind == 'str-required':
                n += 1
                sl = eff.detail['slot']
                construct = f'{e.translator}/{eff.detail["how"]} of the result of {sl}'
                ci = src.cls(e.translator)
                run.check(sl not in ns, 'C06.R12', construct, 'non-text-result-joined',
                          f'{e.translator} passes the result of {sl} to {eff.detail["how"]}, which needs a str, but {why.get(sl, "")}: '
                          f'translation ends in TypeError (e.g. COLUMN() as an argument of a list function)',
                          fact='result is text', loc=loc_of(ci.module.path, ci.node))
    if n < 3:
        raise AnalysisError('C06.R12', f'only {n} joins of translator results analysed')


def _signature(fn: ast.FunctionDef):
    static = any((isinstance(d, ast.Name) and d.id == 'staticmethod') for d in fn.decorator_list)
    a = fn.args
    pos = [x.arg for x in a.posonlyargs + a.args]
    if not static:
        pos = pos[1:]
    nd = len(a.defaults)
    required = len(pos) - min(nd, len(pos))
    return required, len(pos), a.vararg is not None, pos


def r4(run: Run, src, g, em, rt):
    """dispatch exhaustiveness and helper existence/arity"""
    # keyword <-> function productions <-> control-construction set <-> dispatch dict
    cc = g.composites.get(CC_BASE)
    if cc is None:
        raise AnalysisError('C06.R4', f'{CC_BASE} not found')
    members = [p[0] for p in cc.productions if len(p) == 1]
    tr_ci = src.cls('ControlConstructionTokenTranslator')
    tfi = tr_ci.methods.get('translate')
    dispatch = {}
    for n in ast.walk(tfi.node):
        if isinstance(n, ast.Dict) and n.keys and all(isinstance(k, ast.Attribute) and k.attr == '__name__' for k in n.keys):
            for k, v in zip(n.keys, n.values):
                kc = src.resolve_class(k.value.id, tfi.module, tfi) if isinstance(k.value, ast.Name) else None
                vc = None
                if isinstance(v, ast.Attribute) and isinstance(v.value, ast.Name):
                    vc = src.resolve_class(v.value.id, tfi.module, tfi)
                if kc is None or vc is None or src.find_method(vc, v.attr) is None:
                    run.bad('C06.R4', f'dispatch/{ast.unparse(k)}', 'unresolved-dispatch-entry',
                            f'dispatch entry {ast.unparse(k)}: {ast.unparse(v)} does not resolve to a token class and a translator '
                            f'method', loc=loc_of(tfi.module.path, k))
                    continue
                dispatch[kc.name] = (vc.name, v.attr)
    if not dispatch:
        raise AnalysisError('C06.R4', 'dispatch dict of ControlConstructionTokenTranslator.translate not found')
    ok_all = True
    for kw in g.keywords():
        owners = [c for c in g.composites.values() if any(p and p[0] == kw.name for p in c.productions)]
        construct = f'keyword {kw.regexp}'
        loc = loc_of(kw.ci.module.path, kw.ci.node)
        if len(owners) != 1:
            ok_all = False
            run.bad('C06.R4', construct, 'keyword-without-production' if not owners else 'keyword-in-several-classes',
                    f'keyword terminal {kw.name} starts the productions of {len(owners)} token classes (expected exactly one): '
                    f'the keyword lexes but ' + ('no formula using it can parse' if not owners else 'its parse is ambiguous'),
                    loc=loc)
            continue
        o = owners[0]
        if not all(p and p[0] == kw.name for p in o.productions):
            ok_all = False
            run.bad('C06.R4', construct, 'mixed-keywords', f'{o.name} has productions that start with different keywords', loc=loc)
            continue
        if o.name not in members:
            ok_all = False
            run.bad('C06.R4', construct, 'not-a-control-construction',
                    f'{o.name} is not listed in {CC_BASE}._TOKEN_SETS: the function never becomes an operand', loc=loc)
            continue
        if o.name not in dispatch:
            ok_all = False
            run.bad('C06.R4', construct, 'no-translator',
                    f'{o.name} parses but ControlConstructionTokenTranslator has no dispatch entry for it (TypeError at translation)',
                    loc=loc)
            continue
        run.ok('C06.R4', construct, f'{o.name} -> {dispatch[o.name][0]}', loc=loc)
    for m in members:
        if m not in dispatch:
            ok_all = False
            run.bad('C06.R4', f'control construction {m}', 'no-translator',
                    f'{m} is a control construction without a dispatch entry (TypeError at translation)')
    # emitted helper calls exist in the template with a compatible arity
    tmpl = rt.template
    seen = set()
    for (tr, tk), ems in sorted(em.pairs.items()):
        for e in ems:
            if em.unreachable(e):
                continue
            sk = skeleton_of(em, e)
            if sk is None:
                continue
            for s in all_skeletons(sk):
                if s.tree is None:
                    continue
                for name, call in helper_calls(s.tree):
                    npos = sum(1 for a in call.args if not isinstance(a, ast.Starred))
                    stars = [a for a in call.args if isinstance(a, ast.Starred)]
                    known_star = 0
                    unknown_star = False
                    for st in stars:
                        if isinstance(st.value, (ast.List, ast.Tuple)):
                            known_star += len(st.value.elts)
                        else:
                            unknown_star = True
                    key = (e.translator, e.production, name, npos, known_star, unknown_star, tuple(k.arg for k in call.keywords))
                    if key in seen:
                        continue
                    seen.add(key)
                    construct = f'{e.construct}/self.{name}({npos}{"+*" if stars else ""})'
                    loc = loc_of(src.cls(tr).module.path, src.cls(tr).node)
                    if name not in tmpl.members:
                        run.bad('C06.R4', construct, 'unknown-helper',
                                f'the emitted code calls self.{name}(...), which the class template does not define', loc=loc)
                        continue
                    req, mx, var, params = _signature(tmpl.members[name])
                    total = npos + known_star
                    bad = None
                    if total > mx and not var:
                        bad = f'{total} positional argument(s) for a helper that takes at most {mx}'
                    elif total < req and not unknown_star:
                        bad = f'{total} positional argument(s) for a helper that requires {req}'
                    elif unknown_star and not var and total < mx:
                        bad = None      # a starred sequence of unknown length into fixed parameters: tolerated only if it can fit
                    for kname in [k.arg for k in call.keywords if k.arg]:
                        if kname not in params and tmpl.members[name].args.kwarg is None:
                            bad = f'unknown keyword argument {kname}'
                    if bad:
                        run.bad('C06.R4', construct, 'arity', f'self.{name}: {bad} (signature: {params}{", *args" if var else ""})',
                                loc=loc)
                    else:
                        run.ok('C06.R4', construct, f'{name}{tuple(params)}{"*" if var else ""}', loc=loc)
    return ok_all


def r6(run: Run, src, rt):
    """templates are well formed"""
    ctx = src.cls('Context')
    loc = loc_of(ctx.module.path, ctx.node)
    holes = rt.holes
    run.check(sorted(set(holes)) == ['functions', 'sheets_size', 'titles'] and len(holes) == 3, 'C06.R6', 'class template/holes',
              'holes', f'the class template has the format fields {holes}; expected exactly one each of titles, sheets_size, '
                       f'functions (an unescaped brace in the runtime text shows up here)', fact=f'holes {holes}', loc=loc)
    bad_spec = [(f, s, c) for f, s, c in rt.hole_specs if s or c]
    run.check(not bad_spec, 'C06.R6', 'class template/format-specs', 'format-spec',
              f'template holes carry format specs or conversions: {bad_spec}', fact='plain holes', loc=loc)
    run.check(sorted(rt.function_holes) == ['code', 'name'], 'C06.R6', 'function template/holes', 'holes',
              f'the function template has the format fields {rt.function_holes}; expected name and code',
              fact=f'holes {rt.function_holes}', loc=loc)
    # instantiated function template parses as a method and returns the code
    try:
        f_inst = rt.function_template_text.format(name='_0_0_0', code='__CODE__')
        ftree = ast.parse('class X:\n' + f_inst)
        fdef = ftree.body[0].body[0]
        ok = isinstance(fdef, ast.FunctionDef) and fdef.name == '_0_0_0' and [a.arg for a in fdef.args.args] == ['self'] and \
            len(fdef.body) == 1 and isinstance(fdef.body[0], ast.Return) and isinstance(fdef.body[0].value, ast.Name) and \
            fdef.body[0].value.id == '__CODE__'
    except Exception as ex:
        ok = False
    run.check(ok, 'C06.R6', 'function template/shape', 'shape',
              'the per-cell function template does not instantiate to `def <name>(self): return <code>`',
              fact='def <name>(self): return <code>', loc=loc)
    # the member functions are placed inside the class body: the {functions} hole is at class-body indentation level
    inst = rt.instantiated
    marker = '__HOLE_functions__'
    line = [l for l in inst.splitlines() if marker in l]
    run.check(len(line) == 1 and line[0].strip() == marker and not line[0].startswith(' '), 'C06.R6',
              'class template/functions-hole-position', 'position',
              'the {functions} hole is not on a line of its own at column 0 (the function template carries the class-body '
              'indentation itself)', fact='own line, column 0; function template indents by 4', loc=loc)
    run.check(rt.function_template_text.startswith('    def '), 'C06.R6', 'function template/indentation', 'indentation',
              'the function template does not start with a 4-space indented def', fact='4-space indented def', loc=loc)
    # format receivers: only the template constants; workbook-derived text only ever a format *argument*
    for name, fi in ctx.methods.items():
        for n in ast.walk(fi.node):
            if isinstance(n, ast.Call) and isinstance(n.func, ast.Attribute) and n.func.attr in ('format', 'format_map'):
                recv = n.func.value
                ok = isinstance(recv, ast.Attribute) and isinstance(recv.value, ast.Name) and recv.value.id == 'self' and \
                    recv.attr.strip('_').endswith('template')
                run.check(ok, 'C06.R6', f'Context.{name.lstrip("_")}/format-receiver', 'format-receiver',
                          f'str.format is applied to `{ast.unparse(recv)[:80]}`, not to a template constant alone: braces in '
                          f'workbook-derived text become format fields', fact=f'receiver {ast.unparse(recv)}',
                          loc=loc_of(fi.module.path, n))
                if ok:
                    want = {'class_template': {'functions', 'titles', 'sheets_size'}, 'function_template': {'name', 'code'}}
                    which = 'class_template' if recv.attr.strip('_').endswith('class_template') else 'function_template'
                    kws = {k.arg for k in n.keywords}
                    run.check(kws == want[which] and not n.args, 'C06.R6', f'Context.{name.lstrip("_")}/format-arguments',
                              'format-arguments', f'format is called with {sorted(kws)}; the template needs {sorted(want[which])} '
                                                  f'(KeyError at build time otherwise)', fact=f'{sorted(kws)}',
                              loc=loc_of(fi.module.path, n))
            if isinstance(n, ast.BinOp) and isinstance(n.op, ast.Mod) and isinstance(n.left, (ast.Attribute, ast.Constant, ast.JoinedStr)):
                if isinstance(n.left, ast.Attribute) and n.left.attr.strip('_').endswith('template'):
                    run.bad('C06.R6', f'Context.{name.lstrip("_")}/percent-format', 'percent-format',
                            '%-formatting of a template is not modelled', loc=loc_of(fi.module.path, n))
    # member names: uid is built from str() of the three coordinates, joined with '_', prefixed with '_'
    cell = src.cls('Cell')
    uid = cell.methods.get('uid')
    if uid is None:
        raise AnalysisError('C06.R6', 'Cell.uid not found')
    rets = [n for n in ast.walk(uid.node) if isinstance(n, ast.Return)]
    okname = False
    from .common import uid_by_evaluation
    try:
        names_ = uid_by_evaluation(src)
        okname = all(isinstance(v_, str) and (v_.startswith('raises') or (v_.isidentifier() and v_.startswith('_'))) for v_ in names_.values()) and \
            len({v_ for v_ in names_.values() if not v_.startswith('raises')}) == len([v_ for v_ in names_.values() if not v_.startswith('raises')])
        rets = []
    except AnalysisError:
        pass
    if len(rets) == 1 and isinstance(rets[0].value, ast.JoinedStr):
        vals = rets[0].value.values
        okname = bool(vals) and isinstance(vals[0], ast.Constant) and str(vals[0].value).startswith('_')
        txt = ast.unparse(rets[0].value)
        okname = okname and "'_'.join" in txt and 'str(i)' in txt
    run.check(okname, 'C06.R6', 'Cell.uid/shape', 'member-name',
              'the generated member name is not built as "_" + "_".join(str(coordinate))', fact='_<t>_<c>_<r>',
              loc=loc_of(uid.module.path, uid.node))
    # the guard: uid requires integer coordinates (or handled identifiers)
    rs = raises_of(uid.node)
    lib = library_exceptions(src)
    run.check(bool(rs) and all(e in lib for e, _ in rs), 'C06.R6', 'Cell.uid/guard', 'uid-guard',
              'Cell.uid does not reject non-integer coordinates with a library exception', fact='integer coordinates required',
              loc=loc_of(uid.module.path, uid.node))
    # helper names never collide with member names (_<digit>...)
    import re as _re
    clash = [n for n in rt.template.members if _re.fullmatch(r'_\d+(_\w+)*', n.split('.')[-1])]
    run.check(not clash, 'C06.R6', 'template/helper-names', 'name-clash',
              f'runtime helpers {clash} look like generated member names', fact='no helper is named _<digit>...', loc=loc)


def r7(run: Run, src, g):
    """termination"""
    # (a) lexer progress
    for t in g.terminals.values():
        l = t.rx_own.lang()
        run.check(l.minw >= 1, 'C06.R7', f'{t.name}/min-width', 'empty-match',
                  f'terminal {t.name} can match the empty string: the lexer loop makes no progress', fact=f'min width {l.minw}',
                  loc=loc_of(t.ci.module.path, t.ci.node), )
    # (a') no terminal pattern of the (a*)* shape: on a non-matching text (an unterminated literal, say) the backtracking
    # matcher needs time exponential in the length of the text -- translation practically never returns
    from ..regexmodel import exponential_repeats
    for t in g.terminals.values():
        bad = exponential_repeats(t.rx.pattern)
        run.check(not bad, 'C06.R7', f'{t.name}/backtracking', 'exponential-backtracking',
                  f'the pattern of terminal {t.name} contains an {bad[0] if bad else ""}: a text that almost matches (e.g. a literal '
                  f'whose closing quote is missing) makes the lexer try exponentially many splits', fact='no nested unbounded repeat',
                  loc=loc_of(t.ci.module.path, t.ci.node))
    run.check(g.lexer_order and UNDEFINED not in g.lexer_order, 'C06.R7', 'lexer-order/fallback', 'fallback-order',
              'UndefinedToken is tried before the real terminals', fact='fallback is appended last', nontrivial=False) \
        if False else None
    # the fallback is appended after every other terminal in BaseToken.subclasses
    bt = src.cls('BaseToken')
    sub = bt.methods.get('subclasses')
    if sub is None:
        raise AnalysisError('C06.R7', 'BaseToken.subclasses not found')
    appends = [n for n in ast.walk(sub.node) if isinstance(n, ast.Call) and isinstance(n.func, ast.Attribute) and
               n.func.attr == 'append' and n.args and isinstance(n.args[0], ast.Name) and n.args[0].id == UNDEFINED]
    run.check(len(appends) == 1, 'C06.R7', 'BaseToken.subclasses/fallback-last', 'fallback-order',
              'the fallback terminal is not appended after the real terminals', fact='UndefinedToken appended last',
              loc=loc_of(sub.module.path, sub.node))
    # (b) no left recursion
    lr = g.left_recursive()
    run.check(not lr, 'C06.R7', 'grammar/left-recursion', 'left-recursion',
              f'left-recursive nonterminals {lr}: the recursive-descent matcher recurses without consuming a token',
              fact=f'{len(g.composites)} nonterminals, none left-recursive')
    # (c) re-parsing of a common prefix that contains a recursive nonterminal (no memo in CompositeBaseToken.get)
    memo = _has_memo(src)
    shared = []
    for c in g.composites.values():
        prods = c.productions
        worst = None
        for i in range(len(prods)):
            for j in range(i + 1, len(prods)):
                k = 0
                while k < len(prods[i]) and k < len(prods[j]) and prods[i][k] == prods[j][k]:
                    k += 1
                pref = prods[i][:k]
                rec = [s for s in pref if s in g.composites and (g.derives_recursively(s) or _derives(g, s, c.name))]
                if rec and (worst is None or len(pref) > len(worst[2])):
                    worst = (i, j, pref, rec)
        if worst and g.derives_recursively(c.name):
            shared.append((c, worst))
    mfi = src.cls('CompositeBaseToken').methods.get('get')
    if shared and not memo:
        names = [c.name for c, _ in shared]
        c0, (i, j, pref, rec) = next(((c, w) for c, w in shared if c.name == 'ExpressionToken'), shared[0])
        run.bad('C06.R7', 'CompositeBaseToken.get/re-parse', 'exponential-reparse',
                f'{len(shared)} nonterminals ({", ".join(names[:6])}, ...) have alternatives that share a prefix containing a '
                f'recursive nonterminal (e.g. alternatives {i} and {j} of {c0.name}: {pref}) and the matcher keeps no memo: every '
                f'nesting level multiplies the parsing time', loc=loc_of(mfi.module.path, mfi.node))
    else:
        run.ok('C06.R7', 'CompositeBaseToken.get/re-parse', 'memoised matcher or no shared recursive prefix')
    # (d) recursion depth is input-bound (right-recursive chain, one group of frames per operator)
    facade = src.func('Parser._translate')
    handles = any(isinstance(h.type, ast.Name) and h.type.id == 'RecursionError' or
                  (isinstance(h.type, ast.Tuple) and any(getattr(x, 'id', '') == 'RecursionError' for x in h.type.elts))
                  for n in ast.walk(facade.node) if isinstance(n, ast.Try) for h in n.handlers if h.type is not None)
    chain = [c for c in g.composites.values() if c.recursive and any(p and p[-1] == c.name for p in c.productions)]
    if chain and not handles:
        run.bad('C06.R7', 'ExpressionToken/recursion-depth', 'unbounded-recursion',
                f'{[c.name for c in chain]} are parsed and printed right-recursively (one group of Python frames per operator / list '
                f'element) and nothing converts RecursionError at the facade',
                loc=loc_of(facade.module.path, facade.node))
    else:
        run.ok('C06.R7', 'recursion-depth', 'RecursionError is converted at the facade or no right-recursive chain exists')


def _derives(g, s, target):
    seen, stack = set(), [s]
    while stack:
        x = stack.pop()
        if x == target:
            return True
        if x in seen or x not in g.composites:
            continue
        seen.add(x)
        for p in g.composites[x].productions:
            stack += p
    return False


def _has_memo(src) -> bool:
    fi = src.cls('CompositeBaseToken').methods.get('get')
    for n in ast.walk(fi.node):
        if isinstance(n, ast.Subscript) and isinstance(n.ctx, ast.Store):
            return True
    return any(d in ('lru_cache', 'cache', 'memoize') for d in fi.decorators)


def _r8_eval(run: Run, src):
    """the two routes to an executed instance, decided by abstract evaluation (engine F) of Executor.set_executed_class: the class
    object is called without arguments; the file is loaded through load_module and the class named ExcelInPython of THAT module is
    called without arguments; titles and sizes are taken from the instance made; neither given: a library exception"""
    from ..finite import evaluator_for_class, AV, const_av, Unknown, AbsRaise
    from .common import exception_bases
    ex = src.cls('Executor')
    fi = ex.methods['set_executed_class']
    loc = loc_of(fi.module.path, fi.node)
    lib = library_exceptions(src)
    for route in ('class_object', 'class_file', 'neither', 'both'):
        ev = evaluator_for_class(ex, max_depth=8)
        ev.exception_bases = exception_bases(src)
        made = []

        def klass(origin):
            def make(a, origin=origin):
                if a:
                    raise AbsRaise('TypeError', 'ExcelInPython() takes no arguments')
                inst = ev.new_obj('ExcelInPython', {
                    'get_titles': AV('func', val=('native', lambda a2: const_av('titles of ' + origin))),
                    'get_sheets_size': AV('func', val=('native', lambda a2: const_av('sizes of ' + origin)))})
                made.append(origin)
                return inst
            return AV('func', val=('native', make))
        loaded = []

        def load_module(args, kwargs):
            loaded.append(args[0].val if args else None)
            return ev.new_obj('module', {'ExcelInPython': klass(f'file {args[0].val}')})
        ev.externals = {'load_module': load_module}
        me = ev.new_obj('Executor', {})
        kw = {}
        if route in ('class_object', 'both'):
            kw['class_object'] = klass('object')
        if route in ('class_file', 'both'):
            kw['class_file'] = const_av('gen.py')
        construct = f'Executor.set_executed_class/{route}'
        try:
            ev.call_method('__init__', [], me)
            ev.call_method('set_executed_class', [], me, kw)
            at = ev.obj_attrs(me)
            got = (made, at.get('_titles', AV('none')).val, at.get('_sheets_size', AV('none')).val)
        except Unknown as u:
            raise AnalysisError('C06.R8', f'{construct}: the abstraction cannot follow the executor ({u})')
        except AbsRaise as e:
            got = 'rejects' if e.exc in lib else f'raises {e.exc}'
        if route == 'neither':
            ok = got == 'rejects'
            want = 'a library exception'
        elif route == 'class_file':
            ok = got == (['file gen.py'], 'titles of file gen.py', 'sizes of file gen.py') and loaded == ['gen.py']
            want = 'the class ExcelInPython of the loaded file, called without arguments'
        else:
            ok = isinstance(got, tuple) and len(got[0]) == 1 and got[1] == 'titles of ' + got[0][0] and got[2] == 'sizes of ' + got[0][0] and \
                (route == 'both' or got[0] == ['object'])
            want = 'the given class object, called without arguments'
        run.check(ok, 'C06.R8', construct, 'instantiation',
                  f'with {route.replace("_", " ")} given, set_executed_class loads {loaded} and ends with {got!r}; it must make one instance from {want} and take '
                  f'titles and sizes from that instance', fact=f'-> {str(got)[:80]}', loc=loc)


def r8(run: Run, src):
    ex = src.cls('Executor')
    fi = ex.methods.get('set_executed_class')
    if fi is None:
        raise AnalysisError('C06.R8', 'Executor.set_executed_class not found')
    stores = [n for n in ast.walk(fi.node) if isinstance(n, ast.Assign) and any(
        isinstance(t, ast.Attribute) and t.attr == '_executed_instance' for t in n.targets)]
    evaluated = False
    try:
        _r8_eval(run, src)
        evaluated = True
    except AnalysisError as e:
        run.note(f'C06.R8: the two routes by structure ({e.reason[:120]})')
    if not evaluated and len(stores) < 2:
        raise AnalysisError('C06.R8', 'expected two stores to _executed_instance (class object / class file)')
    for st in ([] if evaluated else stores):
        v = st.value
        ok = isinstance(v, ast.Call) and not v.args and not v.keywords
        what = ast.unparse(v)[:80]
        if ok and isinstance(v.func, ast.Attribute):
            ok = v.func.attr == 'ExcelInPython'
        run.check(ok, 'C06.R8', f'Executor.set_executed_class/{what}', 'instantiation',
                  f'the runtime is instantiated as `{what}`; both routes must call the class named ExcelInPython (or the given '
                  f'class object) without arguments', fact=what, loc=loc_of(fi.module.path, st))
    lm = src.func('load_module')
    # the file route executes the file that is on disk NOW: no module cache (module-level names written or read-before-load)
    # and no memoising decorator, otherwise a translation regenerated at the same path is answered with the previous class
    from ..callgraph import stores_of
    mod_names = {t.id for st in lm.module.tree.body if isinstance(st, (ast.Assign, ast.AnnAssign))
                 for t in (st.targets if isinstance(st, ast.Assign) else [st.target]) if isinstance(t, ast.Name)}
    cache_writes = [st for st in stores_of(lm.node) if st.kind == 'global' or
                    (st.kind in ('subscript', 'mutating-call') and st.base in mod_names)]
    memo = [ast.unparse(d) for d in lm.node.decorator_list if ast.unparse(d.func if isinstance(d, ast.Call) else d).split('.')[-1]
            in ('lru_cache', 'cache', 'memoize', 'cached')]
    uses_sys_modules = 'sys.modules' in ast.unparse(lm.node)
    run.check(not cache_writes and not memo and not uses_sys_modules, 'C06.R8', 'load_module/no-cache', 'loader-cache',
              f'load_module keeps loaded modules ({", ".join([c.target for c in cache_writes] + memo + (["sys.modules"] if uses_sys_modules else []))}): '
              f'loading a translation file again after it was regenerated at the same path returns the class of the previous workbook, '
              f'so the class loaded from the written file and the class object no longer behave the same',
              fact='the file is executed on every load', loc=loc_of(lm.module.path, lm.node))
    txt = ast.unparse(lm.node)
    run.check('exec_module' in txt and 'spec_from_file_location' in txt, 'C06.R8', 'load_module', 'loader',
              'load_module does not execute the file through importlib', fact='importlib spec + exec_module',
              loc=loc_of(lm.module.path, lm.node))


def r9(run: Run, src, em):
    """every skeleton is Python"""
    seen = set()
    for (tr, tk), ems in sorted(em.pairs.items()):
        for e in ems:
            if em.unreachable(e):
                continue
            o = e.outcome
            if o.kind != 'return':
                continue
            v = o.value
            if tk in em.g.terminals and em.closed_text(tr, tk) is not None:
                run.ok('C06.R9', e.construct, f'prints the closed text {em.closed_text(tr, tk)!r}', nontrivial=False)
                continue
            if isinstance(v, (Const,)) and not isinstance(v.value, str):
                if v.value is None:
                    run.bad('C06.R9', e.construct, 'returns-None', f'{tr} returns None instead of code (world: {e.world[:160]})',
                            loc=loc_of(src.cls(tr).module.path, src.cls(tr).node))
                continue
            sk = skeleton_of(em, e)
            if sk is None:
                run.bad('C06.R9', e.construct, 'not-code',
                        f'{tr} returns a {type(v).__name__}, not source text (world: {e.world[:160]})',
                        loc=loc_of(src.cls(tr).module.path, src.cls(tr).node))
                continue
            if tk in em.g.terminals and tr == 'OperatorSubTokenTranslator':
                continue        # an operator alone is not an expression
            for s in all_skeletons(sk):
                key = (e.construct, s.text)
                if key in seen:
                    continue
                seen.add(key)
                raws = [p for p in s.atoms.values() if p.kind == 'raw']
                for p in raws:
                    from .c07 import _describe_group
                    desc, cls = _describe_group(em.g, p.a)
                    if cls != 'CLOSED' or p.a.derived:
                        run.bad('C06.R9', e.construct, f'raw-text-as-code:{desc[:60]}',
                                f'{tr} prints {desc} verbatim as Python source: whatever the formula spells there (leading zeros, '
                                f'non-ASCII digits, quotes) must be a valid Python token for the class to load',
                                loc=loc_of(src.cls(tr).module.path, src.cls(tr).node))
                if s.error and any(p.kind == 'opaque' for p in s.atoms.values()):
                    # text the symbolic evaluation could not follow stands where the error is: inconclusive, not a violation
                    run.error('C06.R9', f'{e.construct}: `{_shape(s.text)[:80]}` contains text the emission model could not follow '
                                        f'({[p.a for p in s.atoms.values() if p.kind == "opaque"][:2]}); whether it is Python is undecided')
                elif s.error:
                    run.bad('C06.R9', e.construct, f'syntax:{_shape(s.text)}',
                            f'{tr} prints `{s.text[:140]}`, which is not a Python expression ({s.error}); world: {e.world[:160]}',
                            loc=loc_of(src.cls(tr).module.path, src.cls(tr).node))
                else:
                    run.ok('C06.R9', f'{e.construct}:{_shape(s.text)[:60]}', 'parses', nontrivial=True)


def _shape(text: str) -> str:
    import re as _re
    return _re.sub(r'__[A-Z][A-Za-z0-9]*__', '_', text)[:80]


def run(run: Run):
    from .common import cached_guard as _cached_guard
    src = get_source()
    g = get_grammar(src)
    em = get_emission(src)
    rt = get_runtime(src)
    cg = get_callgraph(src)
    run.rule('C06.R1', 'explicit raises on the translation path are library exceptions (or provably dead)')
    run.rule('C06.R2', 'no world of any translator x production ends in a foreign exception (covers R5 accessor typing)')
    run.rule('C06.R3', 'workbook-keyed lookups are guarded')
    run.rule('C06.R4', 'keyword/production/dispatch agreement; emitted helpers exist with compatible arity')
    run.rule('C06.R6', 'templates are well-formed format strings used only as format receivers')
    run.rule('C06.R7', 'termination: lexer progress, no left recursion, re-parsing, recursion depth')
    run.rule('C06.R8', 'both loading routes instantiate the generated class the same way')
    run.rule('C06.R9', 'every emission skeleton parses as Python')
    dead_ok = {}
    r4_ok = run.guard('C06.R4', r4, run, src, g, em, rt)
    reached = run.guard('C06.R2', r2, run, src, g, em) or {}
    dead_ok[('ControlConstructionTokenTranslator.translate', 'TypeError')] = bool(r4_ok) and \
        ('ControlConstructionTokenTranslator.translate', 'TypeError') not in reached
    dead_ok[('SumIfControlConstructionTokenTranslator.translate', 'ValueError')] = \
        ('SumIfControlConstructionTokenTranslator.translate', 'ValueError') not in reached
    _cached_guard(run, 'C06.R1', r1, src, cg, em, dead_ok)
    _cached_guard(run, 'C06.R3', r3, src)
    _cached_guard(run, 'C06.R6', r6, src, rt)
    _cached_guard(run, 'C06.R7', r7, src, g)
    _cached_guard(run, 'C06.R8', r8, src)
    _cached_guard(run, 'C06.R9', r9, src, em)
    # "defines the class with the workbook's titles and sizes": the three per-sheet lists are index-aligned (shared with C18.R2)
    from .common import borrow
    from . import c18
    run.rule('C06.R10', 'titles, data and sizes handed to the generated class are index-aligned per worksheet (shared with C18.R2)')
    borrow(run, 'C06.R10', c18.r2_any, src)
    from .common import check_per_instance_state
    run.rule('C06.R11', 'titles / sizes / overrides of the generated class are per instance')
    _cached_guard(run, 'C06.R11', check_per_instance_state, 'C06.R11', get_runtime(get_source()))
    run.rule('C06.R12', 'a translator result that may be a number only reaches consumers that format it')
    _cached_guard(run, 'C06.R12', r12_results_are_text, src, g, em)
    run.floor('C06.R12', 3)
    from .common import borrow as _borrow13
    from . import c09 as _c09
    run.rule('C06.R13', 'after a rejected request the facade answers the next request for the current settings: a library exception '
                        'again, never None, a stale class or a foreign exception (shared with C09.R1)')
    _borrow13(run, 'C06.R13', _c09.r1_any, src)
    run.floor('C06.R13', 30)
    from . import lexer_eval as _lx
    from . import pipeline_eval as _pe6
    run.rule('C06.R15', 'the class generated for a workbook of awkward titles and texts is Python and reports the titles of the workbook '
                        '(shared with C07.R9)')
    _cached_guard(run, 'C06.R15', _pe6.hostile_obligations, 'C06.R15', src, g)
    run.floor('C06.R15', 40)
    run.rule('C06.R16', 'formulas that cannot be translated end in a library exception, end to end by evaluation (references without a row, '
                        'unknown sheets, truncated and over-long argument lists)')
    _cached_guard(run, 'C06.R16', _pe6.reject_obligations, 'C06.R16', src, g)
    run.floor('C06.R16', 10)
    run.rule('C06.R17', 'a workbook with a dependency cycle is rejected with a library exception, whole file and from an entry point, end to '
                        'end by evaluation (shared with C03.R11)')
    _cached_guard(run, 'C06.R17', _pe6.cycle_obligations, 'C06.R17', src, g)
    run.floor('C06.R17', 8)
    run.rule('C06.R14', 'a formula that does not fit the grammar is rejected with the parser exception wherever it ends (shared with C05.R2)')
    _cached_guard(run, 'C06.R14', _lx.parser_obligations, 'C06.R14', src, g, _lx.PARSE_PROBES[20:])
    run.floor('C06.R14', 10)
    run.floor('C06.R11', 6)
    run.floor('C06.R10', 2)
    run.floor('C06.R1', 15)
    run.floor('C06.R2', 60)
    run.floor('C06.R3', 4)
    run.floor('C06.R4', 80)
    run.floor('C06.R6', 8)
    run.floor('C06.R7', 60)
    run.floor('C06.R8', 3)
    run.floor('C06.R9', 60)
    run.unresolved = [f'{s.caller.qualname}: {s.text}' for sites in cg.sites.values() for s in sites if s.how == 'cha'][:40]
    return INFO
