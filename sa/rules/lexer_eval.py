"""The lexer decided by abstract evaluation (engine F).

Lexer.parse and the `get` of the token classes are evaluated as they are written (classes are values, attributes and methods are
found along the MRO, the regular expressions are run by the standard library on the pattern texts of the classes) on probe
formulas.  The reference is the meaning of the lexer loop stated over the terminals of the grammar model (engine G): blanks at the
front are skipped, the classes are tried in lexer order on the remaining text, the first class other than the blank class whose
`^(regexp)(tail)$` matches gives the token (groups value_range) and the last group is what remains; no class: the lexer rejects.
"""
from __future__ import annotations

import ast
import re

from ..core import AnalysisError, Run, loc_of

PROBES = [
    '1', '1+2', '1 + 2', '  1+2', '1+\t2', '12.5*3', '1e5', '2^3', '10%', '-1', '+(2-1)', '(1+2)*3', '1<2', '1<=2', '1>=2', '1<>2', '1=2',
    '"text"', '"a b  c"', '"with ""quotes"""', '"a"&"b"', 'A1', '$A$1', 'A1:B2', 'A:B', 'Sheet1!A1', "'My sheet'!A1", "'S 2'!A1:B3",
    'SUM(A1:A3)', 'SUM(A1;B2)', 'SUM(A1,B2)', 'IF(A1>0;"yes";"no")', 'IF(A1>0; "yes" ; "no")', 'VLOOKUP(A1;B1:C5;2;0)', 'ROUND(1.234;2)',
    'AND(TRUE;FALSE)', 'TRUE', 'FALSE', 'MAX(1;MIN(2;3))', 'SUMIFS(A1:A5;B1:B5;">3")', 'COUNTIFS(A1:A3;"a*")', 'DATE(2024;1;31)',
    'TODAY()', 'LEFT("abc";2)', 'IFERROR(1/0;0)', 'A1*B1-C1/D1', 'SUM( A1 : A3 )', 'sum(A1)', '1 2', '1+', '1 +', '@', '1 @ 2', '#REF!',
    'A1 B1', 'MATCH(1;A1:A5;0)', 'INDEX(A1:B5;2;1)', 'AVERAGE(A1:A4)', 'ROUNDUP(1.5;0)', 'ROUNDDOWN(1.5;0)', 'NETWORKDAYS(A1;B1)',
    'EOMONTH(A1;1)', 'OR(A1;B1)', 'NOT(A1)' if False else 'MIN(A1;2)', 'CONCATENATE("a";"b")', 'IFS(A1>1;1;A1>0;2)', '1.', '.5', '1..2',
    # references whose letters begin like a function name, separators in front of a closing bracket
    'IF1', 'OR2+AND3', 'MAX1:MAX3', 'SUM7', 'DAY3*2', 'ORDERS!A1', 'SUMMARY!B1:B3', 'MIN4', 'DATE1', 'SUM(A1;)', 'IF(A1;1;)', '(1,)',
    'ROUNDUP(1.5;)', 'LEFT("a",)', 'SUM(1;;2)', 'SUM(1,2)', 'MAX(3,12)', 'COUNT(A1:A7,3,4)', 'SUM(1.5,2.5)', 'IF(1,2,3)', 'MIN(1;2,3)',
    '""', '"unterminated', 'A1:B2:C3', '((1))', '1*(2+(3-4))', '1+\n2', 'SUM(A1;\nB1)', '"a\nb"&"c"', '1\n', '\n1',
]
# the characters inside text literals and the case of everything reach the token classes as they are in the formula
TEXT_PROBES = [
    '"MiXeD  Case"', '"a;b,c"', '" lead and trail "', '"tab\there"', 'IF(A1="Yes  No";"x y";"")', '"UPPER"&"lower"', '"1+2"', '"A1:B2"',
    "'My  sheet'!A1", '"   "', 'CONCATENATE("a  ";"  b")', '"é ü ß"', '"(1;2)"', 'Sum(A1)', 'sUM(A1)', 'a1', 'true',
]


def reference(g, text: str, order=None):
    """[(class, groups)] or 'rejects'"""
    out = []
    steps = 0
    while text:
        steps += 1
        if steps > 500:
            return 'stuck'
        s = text.lstrip()
        for name in (order or g.lexer_order):
            t = g.terminals.get(name)
            if t is None:
                continue
            m = re.findall(rf'^({t.regexp})({t.tail})$', s)
            if not m:
                continue
            if name == 'WhitespaceToken':
                continue
            grp = m[0] if isinstance(m[0], tuple) else (m[0],)
            out.append((name, tuple(grp[t.value_range[0]:t.value_range[1]])))
            text = grp[-1]
            break
        else:
            return 'rejects'
    return out


def build(src, g):
    from ..finite import Evaluator, AV
    lx = src.cls('Lexer')
    ev = Evaluator({n: m.node for n, m in lx.methods.items()}, max_depth=10)
    base = src.cls('BaseToken')
    table = {}
    for ci in [base] + list(src.subclasses(base)) + [lx]:
        table[ci.name] = {'mro': [getattr(c, 'name', str(c)) for c in src.mro(ci)], 'attrs': dict(ci.attrs), 'methods': {n: m.node for n, m in ci.methods.items()}}
        for st in ci.module.tree.body:
            if isinstance(st, ast.FunctionDef):
                ev.functions.setdefault(st.name, st)
    for k, e in table.items():
        if src.has_cls(k):
            e['bases'] = [getattr(b, 'name', str(b)) for b in src.bases(src.cls(k))]
    ev.class_table = table
    # the order in which the lexer tries the classes: Lexer.TOKENS evaluated as written (subclasses(), its ranking and sorting);
    # where the abstraction cannot follow it, the order of the grammar model (engine G) is used
    order = list(g.lexer_order) + (['UndefinedToken'] if 'UndefinedToken' in table else [])
    ev.tokens_as_written = None
    try:
        v = ev.ev(ast.parse('Lexer.TOKENS', mode='eval').body, {})
        if v.items is not None and all(ev.is_class_value(x) for x in v.items):
            ev.tokens_as_written = [x.val[1] for x in v.items]
    except Exception:
        pass
    if ev.tokens_as_written is None:
        expr = lx.attrs.get('TOKENS')
        if expr is None or ast.unparse(expr).replace(' ', '') != 'RegexpBaseToken.subclasses()':
            raise AnalysisError('C05.R3', f'Lexer.TOKENS is `{ast.unparse(expr)[:80] if expr is not None else "?"}`: the order in which the lexer tries '
                                          f'the token classes cannot be evaluated')
        table['Lexer']['attrs'] = dict(table['Lexer']['attrs'])
        table['Lexer']['attrs']['TOKENS'] = ast.List(elts=[ast.Name(id=n, ctx=ast.Load()) for n in order], ctx=ast.Load())
    else:
        ev.class_state[('Lexer', 'TOKENS')] = v
    from .common import exception_bases
    ev.exception_bases = exception_bases(src)
    return ev, lx


def lexer_obligations(run: Run, rule: str, src, g, probes=None):
    from ..finite import AV, const_av, Unknown, AbsRaise
    lx = src.cls('Lexer')
    loc = loc_of(lx.module.path, lx.methods['parse'].node)
    own_init = {n for n, t in g.terminals.items() if t.init is not None}
    n = 0
    for text in (probes if probes is not None else PROBES):
        want = reference(g, text)
        if want == 'stuck':
            continue
        ev, _ = build(src, g)
        cell = ev.new_obj('Cell', {'title': const_av(0), 'column': const_av(0), 'row': const_av(0)})
        construct = f'Lexer.parse/{text!r}'
        try:
            res = ev.call_method('parse', [const_av(text), cell], AV('other', val=('class', 'Lexer')))
            res = ev.unbox(res)
            if res.items is None:
                raise Unknown('a token list of unknown contents')
            got = []
            for tok in res.items:
                if tok.kind != 'obj':
                    raise Unknown(f'a token that is not an object: {tok!r}')
                got.append((tok.val[2], _attrs(ev, tok)))
            if isinstance(want, list):
                # what each expected token looks like: the class constructed (by the same evaluator) from the expected groups
                made = []
                for name, groups in want:
                    try:
                        made.append((name, _attrs(ev, ev.construct(name, [AV('tuple', items=tuple(const_av(x) for x in groups)), cell]))))
                    except AbsRaise:
                        made.append((name, ('<construction fails>',)))
                want = made
        except Unknown as u:
            raise AnalysisError(rule, f'{construct}: the abstraction cannot follow the lexer ({u})')
        except AbsRaise as e:
            got = 'rejects' if _is_parser_rejection(ev, e.exc) else f'raises {e.exc}'
        same = got == want
        n += 1
        run.check(same, rule, construct, 'token-stream',
                  f'the lexer turns {text!r} into {_brief(got)}; blanks in front skipped, the classes tried in order on the remaining '
                  f'text, first match other than blanks wins, the last group remains: {_brief(want)}', fact=f'-> {_brief(got)}', loc=loc)
    return n


def _attrs(ev, tok):
    out = []
    for k, v in sorted(ev.obj_attrs(tok).items()):
        if v.kind == 'obj' or v.kind == 'func':
            continue
        out.append((k, _plain(ev, v)))
    return tuple(out)


def _plain(ev, v):
    v = ev.unbox(v)
    if v.kind == 'none':
        return None
    if v.items is not None:
        return tuple(_plain(ev, x) for x in v.items)
    if v.val is not None and not isinstance(v.val, tuple):
        return v.val
    return repr(v)


def _brief(x):
    if isinstance(x, list):
        s = ' '.join(f'{a.replace("Token", "")}{dict(b).get("value", "") if isinstance(b, tuple) and b and isinstance(b[0], tuple) else b}' for a, b in x)
        return s if len(s) < 260 else s[:260] + '...'
    return repr(x)


NUMBER_PROBES = ['0', '7', '12.5', '1e3', '2.5e3', '1.25e-2', '1.0e2', '5e-1', '007', '0.50', '123456789', '3.14159', '6e0', '10.01e1',
                 '100000.25', '1234567.25', '0.000001234', '123456789012345', '0.1', '1e15', '9007199254740993', '2.5e-7']


ARGUMENT_PROBES = [('SUM(1,2)', [1, 2]), ('MAX(3,12)', [3, 12]), ('COUNT(A1:A7,3,4)', [3, 4]), ('SUM(1.5,2.5)', [1.5, 2.5]), ('IF(1;2;3)', [1, 2, 3]),
                   ('MIN(1;2,3)', [1, 2, 3]), ('SUM(10,20,30)', [10, 20, 30]), ('ROUND(2.5,0)', [2.5, 0]), ('SUM(1 , 2)', [1, 2])]


def _numbers_in(ev, toks):
    out = []
    for tok in toks.items:
        val = ev.obj_attrs(tok).get('value') if tok.kind == 'obj' else None
        if val is not None and isinstance(val.val, (str, int, float)) and not isinstance(val.val, bool):
            try:
                out.append(float(val.val))
            except ValueError:
                pass
    return out


def number_literal_obligations(run: Run, rule: str, src, g):
    _argument_obligations(run, rule, src, g)
    _number_literal_obligations(run, rule, src, g)


def _argument_obligations(run: Run, rule: str, src, g):
    """numbers written as separate arguments stay separate numbers: a comma or semicolon between two numbers is a separator"""
    from ..finite import AV, const_av, Unknown, AbsRaise
    lx = src.cls('Lexer')
    loc = loc_of(lx.module.path, lx.methods['parse'].node)
    for text, want in ARGUMENT_PROBES:
        ev, _ = build(src, g)
        cell = ev.new_obj('Cell', {'title': const_av(0), 'column': const_av(0), 'row': const_av(0)})
        construct = f'numbers of/{text}'
        try:
            toks = ev.unbox(ev.call_method('parse', [const_av(text), cell], AV('other', val=('class', 'Lexer'))))
            if toks.items is None:
                raise Unknown('a token list of unknown contents')
            got = _numbers_in(ev, toks)
        except Unknown as u:
            raise AnalysisError(rule, f'{construct}: the abstraction cannot follow the lexer ({u})')
        except AbsRaise as e:
            got = f'raises {e.exc}'
        run.check(got == [float(x) for x in want], rule, construct, 'numbers-merged',
                  f'the numbers the lexer finds in {text} are {got}; written there are {want}', fact=f'-> {got}', loc=loc)


def _number_literal_obligations(run: Run, rule: str, src, g):
    """a number literal reaches its token whole: the text the token carries denotes the number the literal denotes (integer
    part, fraction and exponent)"""
    from ..finite import AV, const_av, Unknown, AbsRaise
    lx = src.cls('Lexer')
    for text in NUMBER_PROBES:
        ev, _ = build(src, g)
        cell = ev.new_obj('Cell', {'title': const_av(0), 'column': const_av(0), 'row': const_av(0)})
        construct = f'number literal/{text}'
        try:
            res = ev.unbox(ev.call_method('parse', [const_av(text), cell], AV('other', val=('class', 'Lexer'))))
            if res.items is None or len(res.items) != 1 or res.items[0].kind != 'obj':
                raise Unknown('the literal is not lexed as one token')
            tok = res.items[0]
            val = ev.obj_attrs(tok).get('value')
            if val is None or not isinstance(val.val, (str, int, float)):
                raise Unknown('the value of the literal token is not a known text')
            got = float(val.val)
        except Unknown as u:
            raise AnalysisError(rule, f'{construct}: the abstraction cannot follow the lexer ({u})')
        except (AbsRaise, ValueError) as e:
            got = f'raises {getattr(e, "exc", type(e).__name__)}'
        loc = loc_of(lx.module.path, lx.methods['parse'].node)
        ci = src.cls(tok.val[2]) if not isinstance(got, str) and src.has_cls(tok.val[2]) else None
        if ci is not None:
            loc = loc_of(ci.module.path, ci.node)
        run.check(got == float(text), rule, construct, 'number-literal',
                  f'the number literal {text} reaches the generated code as {got!r}; it denotes {float(text)!r} (integer part, fraction '
                  f'and exponent all count)', fact=f'-> {got!r}', loc=loc)


# ---------------------------------------------------------------------------------------------------
# the parser: AstBuilder.parse and the `get` of the composite token classes, evaluated on the token lists of the evaluated lexer
PARSE_PROBES = [
    '=1', '=1+2', '=A1', '=A1+B1*2', '=(1+2)*3', '=-A1', '=10%', '="a"&"b"', '=A1>=2', '=SUM(A1:A3)', '=SUM(A1;B2)', '=SUM(A1,B2)',
    '=IF(A1>0;"yes";"no")', '=MAX(1;MIN(2;3))', '=TODAY()', '=ROUND(1.234;2)', '=Sheet1!A1', "='My sheet'!A1:B3", '=A:B', '=TRUE',
    # rejected: the formula ends inside an argument list, arguments the grammar does not define, leftovers
    '=SUM(1;2', '=IF(A1>1;2', '=ROUND(1.5;', '=TODAY(', '=SUM', '=SUM(IF(A1>0;1;2)', '=1+', '=1 2', '=)', '=ROUND()', '=IF()',
    '=LEFT("abc";1;2;3)', '=SUM(1;;2)', '=(1+2', '=1+2)', '=A1 B1',
]


def _composite_table(src, g):
    """class table entries for every token class (terminals and composites) plus AstBuilder"""
    base = src.cls('BaseToken')
    table = {}
    for ci in [base] + list(src.subclasses(base)):
        table[ci.name] = {'mro': [getattr(c, 'name', str(c)) for c in src.mro(ci)], 'attrs': dict(ci.attrs),
                          'bases': [getattr(b, 'name', str(b)) for b in src.bases(ci)],
                          'methods': {n: m.node for n, m in ci.methods.items()}}
    return table


def reference_parse(g, tokens):
    """the meaning of CompositeBaseToken.get over the productions of engine G: ordered choice, a production must be matched in
    full, a function whose own keyword was seen and whose argument list fits no production rejects the formula"""
    import sys
    control = {c.name for c in g.functions()}

    class Reject(Exception):
        pass
    memo_guard = [0]

    def get(name, toks):
        memo_guard[0] += 1
        if memo_guard[0] > 400000:
            raise RecursionError('reference parser budget')
        comp = g.composites[name]
        flag = False
        for prod in comp.productions:
            part, rest = [], list(toks)
            for sym in prod:
                if not rest:
                    break
                if sym == rest[0][0]:
                    flag = name in control
                    part.append(rest[0])
                    rest = rest[1:]
                elif sym in g.composites:
                    new, rest2 = get(sym, rest)
                    if new is None:
                        break
                    rest = rest2
                    part.append(new)
                else:
                    break
            if len(part) == len(prod) and part:
                return (name, part), rest
        if flag:
            raise Reject(name)
        return None, toks
    old = sys.getrecursionlimit()
    sys.setrecursionlimit(max(old, 20000))
    try:
        tok, rest = get('EntryPointToken', tokens)
    except Reject:
        return 'rejects'
    finally:
        sys.setrecursionlimit(old)
    if tok is None or rest:
        return 'rejects'
    return tok


def _shape(t):
    if isinstance(t, tuple) and len(t) == 2 and isinstance(t[1], list):
        return (t[0], [_shape(x) for x in t[1]])
    return t[0] if isinstance(t, tuple) else t


def parser_obligations(run: Run, rule: str, src, g, probes=None):
    import sys
    from ..finite import AV, const_av, Unknown, AbsRaise
    if 'EntryPointToken' not in g.composites:
        raise AnalysisError(rule, 'EntryPointToken is not a composite of the grammar model')
    ab = src.cls('AstBuilder')
    loc = loc_of(ab.module.path, ab.methods['parse'].node)
    old = sys.getrecursionlimit()
    sys.setrecursionlimit(max(old, 60000))
    try:
        for text in (probes if probes is not None else PARSE_PROBES):
            ev, _ = build(src, g)
            ev.max_depth = 400
            table = _composite_table(src, g)
            table['Lexer'] = ev.class_table['Lexer']
            table['AstBuilder'] = {'mro': ['AstBuilder'], 'attrs': dict(ab.attrs), 'methods': {n: m.node for n, m in ab.methods.items()}}
            ev.class_table = table
            from ..finite import memoizable
            from .common import exception_bases
            ev.memo_functions, ev.pure_ids = memoizable(_composite_table(src, g), {'get'}, set(exception_bases(src)), {'subclasses'})
            for m_ in {ab.module.path: ab.module}.values():
                for st in m_.tree.body:
                    if isinstance(st, ast.FunctionDef):
                        ev.functions.setdefault(st.name, st)
            leaves = [k for k in table if not any(k in e.get('bases', []) for e in table.values())]

            def subclasses_of(cname):
                out = [k for k in leaves if cname in table[k]['mro'][1:]]
                if 'UndefinedToken' in table and 'UndefinedToken' not in out:
                    out.append('UndefinedToken')
                return AV('list', items=tuple(AV('other', val=('class', k)) for k in out))
            for cname in table:
                ev.class_state[(cname, 'subclasses')] = AV('func', val=('native', lambda a, c_=cname: subclasses_of(c_)))
            # token sets added after the class statement (X.add_token_set([...]) at module level) are added here the same way
            mods = {}
            for ci_ in src.subclasses(src.cls('BaseToken')):
                mods[ci_.module.name] = ci_.module
            for m_ in mods.values():
                for st in m_.tree.body:
                    if isinstance(st, ast.Expr) and isinstance(st.value, ast.Call) and isinstance(st.value.func, ast.Attribute) and \
                            st.value.func.attr == 'add_token_set':
                        ev.exec_stmt(st, {})
            cell = ev.new_obj('Cell', {'title': const_av(0), 'column': const_av(0), 'row': const_av(0)})
            construct = f'AstBuilder.parse/{text!r}'
            try:
                toks = ev.unbox(ev.call_method('parse', [const_av(text), cell], AV('other', val=('class', 'Lexer'))))
            except (Unknown, AbsRaise):
                continue                      # a formula the lexer itself rejects is not a probe of the parser
            if toks.items is None or not all(t.kind == 'obj' for t in toks.items):
                continue
            ref_tokens = [(t.val[2],) for t in toks.items]
            try:
                want = reference_parse(g, ref_tokens)
            except RecursionError:
                continue
            want = _shape(want) if want != 'rejects' else want
            try:
                tree = ev.call_class_func(table['AstBuilder']['methods']['parse'], AV('other', val=('class', 'AstBuilder')), [toks, cell])

                def shape(v):
                    if v.kind != 'obj':
                        raise Unknown(f'a node of the tree that is not a token: {v!r}')
                    val = ev.obj_attrs(v).get('value')
                    if v.val[2] in g.composites and val is not None and val.items is not None:
                        return (v.val[2], [shape(x) for x in val.items])
                    return v.val[2]
                got = shape(tree)
            except Unknown as u:
                raise AnalysisError(rule, f'{construct}: the abstraction cannot follow the parser ({u})')
            except AbsRaise as e:
                got = 'rejects' if _is_parser_rejection(ev, e.exc) else f'raises {e.exc}'
            run.check(got == want, rule, construct, 'parse-tree',
                      f'the parser turns {text!r} into {_tree(got)}; ordered choice over the productions, each matched in full, a function '
                      f'whose argument list fits no production rejected with the parser exception: {_tree(want)}', fact=f'-> {_tree(got)[:120]}',
                      loc=loc)
    finally:
        sys.setrecursionlimit(old)


def _is_parser_rejection(ev, exc: str) -> bool:
    """the library's parser exception or one derived from it"""
    return exc == 'E2PyclParserException' or 'E2PyclParserException' in getattr(ev, 'exception_bases', {}).get(exc, ())


def _library_exception_names(src):
    from .common import library_exceptions
    return library_exceptions(src)


def _tree(t):
    if isinstance(t, tuple):
        return t[0].replace('Token', '') + '(' + ' '.join(_tree(x) for x in t[1]) + ')'
    return t.replace('Token', '') if isinstance(t, str) else repr(t)
