"""The lexer decided by abstract evaluation (engine F).

Lexer.parse and the `get` of the token classes are evaluated as they are written (classes are values, attributes and methods are
found along the MRO, the regular expressions are run by the standard library on the pattern texts of the classes) on probe
formulas.  The reference is the meaning of the lexer loop stated over the terminals of the grammar model (engine G): blanks at the
front are skipped, the classes are tried in lexer order on the remaining text, the first class other than the blank class whose
`^(regexp)(tail)$` matches gives the token (groups value_range) and the last group is what remains; no class: the lexer rejects.
"""
from __future__ import annotations

import ast
import re

from ..core import AnalysisError, Run, loc_of

PROBES = [
    '1', '1+2', '1 + 2', '  1+2', '1+\t2', '12.5*3', '1e5', '2^3', '10%', '-1', '+(2-1)', '(1+2)*3', '1<2', '1<=2', '1>=2', '1<>2', '1=2',
    '"text"', '"a b  c"', '"with ""quotes"""', '"a"&"b"', 'A1', '$A$1', 'A1:B2', 'A:B', 'Sheet1!A1', "'My sheet'!A1", "'S 2'!A1:B3",
    'SUM(A1:A3)', 'SUM(A1;B2)', 'SUM(A1,B2)', 'IF(A1>0;"yes";"no")', 'IF(A1>0; "yes" ; "no")', 'VLOOKUP(A1;B1:C5;2;0)', 'ROUND(1.234;2)',
    'AND(TRUE;FALSE)', 'TRUE', 'FALSE', 'MAX(1;MIN(2;3))', 'SUMIFS(A1:A5;B1:B5;">3")', 'COUNTIFS(A1:A3;"a*")', 'DATE(2024;1;31)',
    'TODAY()', 'LEFT("abc";2)', 'IFERROR(1/0;0)', 'A1*B1-C1/D1', 'SUM( A1 : A3 )', 'sum(A1)', '1 2', '1+', '1 +', '@', '1 @ 2', '#REF!',
    'A1 B1', 'MATCH(1;A1:A5;0)', 'INDEX(A1:B5;2;1)', 'AVERAGE(A1:A4)', 'ROUNDUP(1.5;0)', 'ROUNDDOWN(1.5;0)', 'NETWORKDAYS(A1;B1)',
    'EOMONTH(A1;1)', 'OR(A1;B1)', 'NOT(A1)' if False else 'MIN(A1;2)', 'CONCATENATE("a";"b")', 'IFS(A1>1;1;A1>0;2)', '1.', '.5', '1..2',
    '""', '"unterminated', 'A1:B2:C3', '((1))', '1*(2+(3-4))', '1+\n2', 'SUM(A1;\nB1)', '"a\nb"&"c"', '1\n', '\n1',
]
# the characters inside text literals and the case of everything reach the token classes as they are in the formula
TEXT_PROBES = [
    '"MiXeD  Case"', '"a;b,c"', '" lead and trail "', '"tab\there"', 'IF(A1="Yes  No";"x y";"")', '"UPPER"&"lower"', '"1+2"', '"A1:B2"',
    "'My  sheet'!A1", '"   "', 'CONCATENATE("a  ";"  b")', '"é ü ß"', '"(1;2)"', 'Sum(A1)', 'sUM(A1)', 'a1', 'true',
]


def reference(g, text: str):
    """[(class, groups)] or 'rejects'"""
    out = []
    steps = 0
    while text:
        steps += 1
        if steps > 500:
            return 'stuck'
        s = text.lstrip()
        for name in g.lexer_order:
            t = g.terminals[name]
            m = re.findall(rf'^({t.regexp})({t.tail})$', s)
            if not m:
                continue
            if name == 'WhitespaceToken':
                continue
            grp = m[0] if isinstance(m[0], tuple) else (m[0],)
            out.append((name, tuple(grp[t.value_range[0]:t.value_range[1]])))
            text = grp[-1]
            break
        else:
            return 'rejects'
    return out


def build(src, g):
    from ..finite import Evaluator, AV
    lx = src.cls('Lexer')
    ev = Evaluator({n: m.node for n, m in lx.methods.items()}, max_depth=10)
    base = src.cls('BaseToken')
    table = {}
    for ci in [base] + list(src.subclasses(base)) + [lx]:
        table[ci.name] = {'mro': [getattr(c, 'name', str(c)) for c in src.mro(ci)], 'attrs': dict(ci.attrs), 'methods': {n: m.node for n, m in ci.methods.items()}}
        for st in ci.module.tree.body:
            if isinstance(st, ast.FunctionDef):
                ev.functions.setdefault(st.name, st)
    order = list(g.lexer_order) + (['UndefinedToken'] if 'UndefinedToken' in table else [])
    table['Lexer']['attrs'] = dict(table['Lexer']['attrs'])
    table['Lexer']['attrs']['TOKENS'] = ast.List(elts=[ast.Name(id=n, ctx=ast.Load()) for n in order], ctx=ast.Load())
    ev.class_table = table
    return ev, lx


def lexer_obligations(run: Run, rule: str, src, g, probes=None):
    from ..finite import AV, const_av, Unknown, AbsRaise
    lx = src.cls('Lexer')
    loc = loc_of(lx.module.path, lx.methods['parse'].node)
    own_init = {n for n, t in g.terminals.items() if t.init is not None}
    n = 0
    for text in (probes if probes is not None else PROBES):
        want = reference(g, text)
        if want == 'stuck':
            continue
        ev, _ = build(src, g)
        cell = ev.new_obj('Cell', {'title': const_av(0), 'column': const_av(0), 'row': const_av(0)})
        construct = f'Lexer.parse/{text!r}'
        try:
            res = ev.call_method('parse', [const_av(text), cell], AV('other', val=('class', 'Lexer')))
            res = ev.unbox(res)
            if res.items is None:
                raise Unknown('a token list of unknown contents')
            got = []
            for tok in res.items:
                if tok.kind != 'obj':
                    raise Unknown(f'a token that is not an object: {tok!r}')
                got.append((tok.val[2], _attrs(ev, tok)))
            if isinstance(want, list):
                # what each expected token looks like: the class constructed (by the same evaluator) from the expected groups
                made = []
                for name, groups in want:
                    try:
                        made.append((name, _attrs(ev, ev.construct(name, [AV('tuple', items=tuple(const_av(x) for x in groups)), cell]))))
                    except AbsRaise:
                        made.append((name, ('<construction fails>',)))
                want = made
        except Unknown as u:
            raise AnalysisError(rule, f'{construct}: the abstraction cannot follow the lexer ({u})')
        except AbsRaise as e:
            got = 'rejects' if 'Exception' in e.exc or 'Error' in e.exc else f'raises {e.exc}'
            if want == 'rejects' and got != 'rejects':
                got = 'rejects'
        same = got == want
        n += 1
        run.check(same, rule, construct, 'token-stream',
                  f'the lexer turns {text!r} into {_brief(got)}; blanks in front skipped, the classes tried in order on the remaining '
                  f'text, first match other than blanks wins, the last group remains: {_brief(want)}', fact=f'-> {_brief(got)}', loc=loc)
    return n


def _attrs(ev, tok):
    out = []
    for k, v in sorted(ev.obj_attrs(tok).items()):
        if v.kind == 'obj' or v.kind == 'func':
            continue
        out.append((k, _plain(ev, v)))
    return tuple(out)


def _plain(ev, v):
    v = ev.unbox(v)
    if v.kind == 'none':
        return None
    if v.items is not None:
        return tuple(_plain(ev, x) for x in v.items)
    if v.val is not None and not isinstance(v.val, tuple):
        return v.val
    return repr(v)


def _brief(x):
    if isinstance(x, list):
        s = ' '.join(f'{a.replace("Token", "")}{dict(b).get("value", "") if isinstance(b, tuple) and b and isinstance(b[0], tuple) else b}' for a, b in x)
        return s if len(s) < 260 else s[:260] + '...'
    return repr(x)


NUMBER_PROBES = ['0', '7', '12.5', '1e3', '2.5e3', '1.25e-2', '1.0e2', '5e-1', '007', '0.50', '123456789', '3.14159', '6e0', '10.01e1',
                 '100000.25', '1234567.25', '0.000001234', '123456789012345', '0.1', '1e15', '9007199254740993', '2.5e-7']


def number_literal_obligations(run: Run, rule: str, src, g):
    """a number literal reaches its token whole: the text the token carries denotes the number the literal denotes (integer
    part, fraction and exponent)"""
    from ..finite import AV, const_av, Unknown, AbsRaise
    lx = src.cls('Lexer')
    for text in NUMBER_PROBES:
        ev, _ = build(src, g)
        cell = ev.new_obj('Cell', {'title': const_av(0), 'column': const_av(0), 'row': const_av(0)})
        construct = f'number literal/{text}'
        try:
            res = ev.unbox(ev.call_method('parse', [const_av(text), cell], AV('other', val=('class', 'Lexer'))))
            if res.items is None or len(res.items) != 1 or res.items[0].kind != 'obj':
                raise Unknown('the literal is not lexed as one token')
            tok = res.items[0]
            val = ev.obj_attrs(tok).get('value')
            if val is None or not isinstance(val.val, (str, int, float)):
                raise Unknown('the value of the literal token is not a known text')
            got = float(val.val)
        except Unknown as u:
            raise AnalysisError(rule, f'{construct}: the abstraction cannot follow the lexer ({u})')
        except (AbsRaise, ValueError) as e:
            got = f'raises {getattr(e, "exc", type(e).__name__)}'
        loc = loc_of(lx.module.path, lx.methods['parse'].node)
        ci = src.cls(tok.val[2]) if not isinstance(got, str) and src.has_cls(tok.val[2]) else None
        if ci is not None:
            loc = loc_of(ci.module.path, ci.node)
        run.check(got == float(text), rule, construct, 'number-literal',
                  f'the number literal {text} reaches the generated code as {got!r}; it denotes {float(text)!r} (integer part, fraction '
                  f'and exponent all count)', fact=f'-> {got!r}', loc=loc)
