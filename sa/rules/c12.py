"""C12 -- conditional aggregates select exactly the positions meeting every criterion (DESIGN 3/C12).

The meaning of a criterion for each cell content is value semantics of generated lambdas and is NOT decided here.  Decided are
the clauses that are visible in the shape of the code: the size check dominates the selection and compares flattened lengths
(R1), one index aligns criterion and target (R2), the criterion vocabulary and its Python counterparts, case folding of the
text arm, whole-cell / case-insensitive wildcard matching (R3), SUMIF's target geometry (R4), argument plumbing (R5), the
discipline of the deselection sentinel (R6) and the structure of the wildcard -> regex conversion (R7).
"""
from __future__ import annotations

import ast

from ..core import Run, AnalysisError, loc_of
from ..source import get_source
from ..grammar import get_grammar
from ..emission import get_emission
from ..runtime import get_runtime, may_complete_normally
from ..paths import parent_map, path_conditions, executed_before, enclosing_stmt
from ..regexmodel import sre_parse, sre_c
from .common import check_plumbing, skeleton_of, borrow

INFO = {
    'explanation': (
        'Decided (structural necessary conditions, for every range content at once): R1 in _sumifs/_countifs/_averageifs (both '
        'copies) a comparison of the FLATTENED lengths of target and criteria range whose unequal side raises or returns an error '
        'is executed before the range is stored for selection; _sum_if bounds-checks the shared index. R2 in every selection loop '
        'the index that subscripts the criteria range is the index that subscripts the target, without offset. R3 the operator '
        'prefixes recognised by LambdaTokenTranslator cover >= <= > < <> = and each prints the Python operator of the same meaning '
        'in all three arms of the emitted lambda (symbolic emission per world of the criterion regex); the text arm folds case on '
        'both sides; the wildcard arm must match the whole cell and ignore case. R4 SUMIF target = base + (end - start) per axis '
        '(shared with C02.R2). R5 argument plumbing equals the hand-confirmed reference. R6 the value written on deselection is a '
        'sentinel that the reader recognises by identity/type (never by truthiness: 0, blank and "" are cells) and no criterion is '
        'applied to a possibly deselected element. R7 the wildcard -> regex conversion: each alternative of the run scanner is a '
        'homogeneous run of one wildcard guarded by the not-after-tilde test, ? runs become exactly len(run) characters, * runs any '
        'run, the escaping tilde is consumed, regex metacharacters of the criterion text are escaped. NOT decided: what each '
        'criterion means for each cell type (text vs number ordering, dates) -- the value-level core of the property.'),
    'rule': 'one obligation per (helper, copy, criteria loop / selection loop / sentinel site) / (criterion world) / scanner alternative',
    'trusted': ['re._parser structure of the two criterion regexes', 'Python comparison operators'],
}

IFS = ('_sumifs', '_countifs', '_averageifs')
FUNCS = ['SUMIF', 'SUMIFS', 'COUNTIFS', 'AVERAGEIFS']
PYOP = {'>': ast.Gt, '<': ast.Lt, '>=': ast.GtE, '<=': ast.LtE, '<>': ast.NotEq, '=': ast.Eq}
OPNAME = {ast.Gt: '>', ast.Lt: '<', ast.GtE: '>=', ast.LtE: '<=', ast.NotEq: '!=', ast.Eq: '=='}
REQUIRED_PREFIXES = ['>=', '<=', '>', '<', '<>', '=']
META = set('.^$+()[]{}|\\')


def _params(fn):
    return [a.arg for a in fn.args.posonlyargs + fn.args.args if a.arg not in ('self', 'cls')]


def _is_len_of(node):
    """len(X) -> X"""
    if isinstance(node, ast.Call) and isinstance(node.func, ast.Name) and node.func.id == 'len' and len(node.args) == 1:
        return node.args[0]
    return None


def _is_flatten_call(node):
    return isinstance(node, ast.Call) and isinstance(node.func, ast.Attribute) and node.func.attr == '_flatten_list' and \
        len(node.args) == 1


def _last_def(fn, name: str, at, parents):
    """the value last assigned to `name` among the statements executed on every path before `at` (None = the parameter /
    loop variable itself reaches `at`; 'unknown' = assigned somewhere conditional)"""
    before = executed_before(fn, at, parents)
    last = None
    for st in before:
        if isinstance(st, ast.Assign):
            for t in st.targets:
                if isinstance(t, ast.Name) and t.id == name:
                    last = st.value
                elif isinstance(t, (ast.Tuple, ast.List)) and isinstance(st.value, (ast.Tuple, ast.List)) and \
                        len(t.elts) == len(st.value.elts):
                    for e, v in zip(t.elts, st.value.elts):
                        if isinstance(e, ast.Name) and e.id == name:
                            last = v
        elif isinstance(st, (ast.If, ast.For, ast.While, ast.Try, ast.With, ast.Match)):
            for n in ast.walk(st):
                if isinstance(n, ast.Assign) and any(isinstance(t, ast.Name) and t.id == name for t in n.targets):
                    last = 'unknown'
    return last


def _flat_at(fn, expr, at, parents, depth=0, entry_flat=None) -> bool | None:
    """is the value of `expr` at `at` the result of _flatten_list?  None = cannot tell.
    entry_flat: {parameter: flattened at function entry?} for a helper analysed at a call site"""
    if _is_flatten_call(expr):
        return True
    if isinstance(expr, ast.Call) and isinstance(expr.func, ast.Attribute) and isinstance(expr.func.value, ast.Name) and \
            expr.func.value.id == 'self' and expr.func.attr in ('_when_cell_is_empty_cast_to_zero',) and len(expr.args) == 1:
        return _flat_at(fn, expr.args[0], at, parents, depth + 1, entry_flat)     # element-wise map keeps the shape
    if isinstance(expr, ast.Name):
        d = _last_def(fn, expr.id, at, parents)
        if d is None:
            if entry_flat and expr.id in entry_flat:
                return entry_flat[expr.id]
            return False                    # the raw parameter / loop element
        if isinstance(d, str):
            return None
        if depth > 3:
            return None
        if isinstance(d, ast.Name) and d.id == expr.id:
            return None
        return _flat_at(fn, d, at, parents, depth + 1, entry_flat) if not _is_flatten_call(d) else True
    return None


def _names(node):
    return {n.id for n in ast.walk(node) if isinstance(n, ast.Name)}


# ---------------------------------------------------------------------------------------------------
# R1 / R2 / R6 on the runtime helpers
# ---------------------------------------------------------------------------------------------------
def helpers(run: Run, rt):
    for cp in rt.copies():
        for h in IFS:
            fn = cp.members.get(h)
            if fn is None:
                run.bad('C12.R1', f'{h}[{cp.label}]', 'missing', f'runtime helper {h} is missing', loc=cp.path)
                continue
        try:
            _ifs_eval(run, cp)
        except AnalysisError as e_:
            run.note(f'C12 *IFS[{cp.label}]: decided by structure ({e_.reason[:120]})')
            for h in IFS:
                if cp.members.get(h) is not None:
                    _ifs_helper(run, cp, cp.members[h])
        fn = cp.members.get('_sum_if')
        if fn is None:
            run.bad('C12.R1', f'_sum_if[{cp.label}]', 'missing', 'runtime helper _sum_if is missing', loc=cp.path)
        else:
            try:
                _sum_if(run, cp, fn)
                structural = True
            except AnalysisError as e_:
                run.note(f'C12 _sum_if[{cp.label}]: structural reading gave up ({e_.reason[:80]}); decided by evaluation')
                structural = False
            try:
                _sum_if_eval(run, cp, fn)
            except AnalysisError:
                if not structural:
                    raise


def _ifs_helper(run: Run, cp, fn):
    fn = canonical_index_loops(fn)
    h = fn.name
    parents = parent_map(fn)
    ps = _params(fn)
    if not ps or fn.args.vararg is None:
        raise AnalysisError('C12.R1', f'{h}: expected (target, ..., *pairs)')
    target, var = ps[0], fn.args.vararg.arg
    callables = set(ps[1:])             # e.g. count_condition
    outer_fn, outer_target = fn, target
    entry_flat = None
    # the loop over the (range, criterion, range, criterion, ...) arguments
    loops = [n for n in ast.walk(fn) if isinstance(n, ast.For) and isinstance(n.iter, ast.Name) and n.iter.id == var and
             isinstance(n.target, ast.Name)]
    if not loops:
        # the pairing may live in a shared helper: self._helper(<target>, <pairs>, ...) -- analyse the helper with the facts of
        # this call site (is the target flattened when it is handed over?)
        calls = [c for c in ast.walk(fn) if isinstance(c, ast.Call) and isinstance(c.func, ast.Attribute) and
                 isinstance(c.func.value, ast.Name) and c.func.value.id == 'self' and
                 any(isinstance(a, ast.Name) and a.id == var for a in c.args) and c.func.attr in cp.members]
        if len(calls) != 1:
            raise AnalysisError('C12.R1', f'{h}: expected exactly one loop over *{var} (or one helper that receives it), found none')
        call = calls[0]
        callee = cp.members[call.func.attr]
        cps = _params(callee)
        amap = {}
        for i_, a in enumerate(call.args):
            if i_ < len(cps):
                amap[cps[i_]] = a
        var2 = [k for k, a in amap.items() if isinstance(a, ast.Name) and a.id == var]
        tgt2 = [k for k, a in amap.items() if target in _names(a)]
        if len(var2) != 1 or len(tgt2) != 1:
            raise AnalysisError('C12.R1', f'{h}: cannot map the arguments of `{ast.unparse(call)[:60]}` onto {callee.name}')
        ft0 = _flat_at(fn, amap[tgt2[0]], call, parents)
        if ft0 is None:
            raise AnalysisError('C12.R1', f'{h}: cannot tell whether `{ast.unparse(amap[tgt2[0]])}` is flattened at the call of {callee.name}')
        entry_flat = {tgt2[0]: ft0}
        fn, target, var = callee, tgt2[0], var2[0]
        parents = parent_map(fn)
        h = f'{h} via {callee.name}'
        loops = [n for n in ast.walk(fn) if isinstance(n, ast.For) and isinstance(n.iter, ast.Name) and n.iter.id == var and
                 isinstance(n.target, ast.Name)]
    if len(loops) != 1:
        raise AnalysisError('C12.R1', f'{h}: expected exactly one loop over *{var}, found {len(loops)}')
    loop = loops[0]
    elem = loop.target.id
    # stores of a range for later selection: <list>.append([... elem ...]) inside the loop
    stores = [c for c in ast.walk(loop) if isinstance(c, ast.Call) and isinstance(c.func, ast.Attribute) and c.func.attr == 'append'
              and c.args and elem in _names(c.args[0])]
    range_stores = []
    for c in stores:
        conds = path_conditions(fn, c, parents)
        range_stores.append(c)
    if len(range_stores) < 2:
        raise AnalysisError('C12.R1', f'{h}: the pairing of ranges and criteria is not the modelled append/append shape')
    # the store on the "new pair" branch is the one whose appended value is a list display / call result (the range); the
    # other one appends the criterion to the last pair
    checks = []
    for cmpn in [n for n in ast.walk(loop) if isinstance(n, ast.Compare) and len(n.ops) == 1]:
        a, b = _is_len_of(cmpn.left), _is_len_of(cmpn.comparators[0])
        if a is None or b is None:
            continue
        na, nb = _names(a), _names(b)
        if (target in na and elem in nb) or (target in nb and elem in na):
            checks.append((cmpn, a if target in na else b, b if target in na else a))
    construct = f'{h}[{cp.label}]/size-check'
    if not checks:
        run.bad('C12.R1', construct, 'no-size-check',
                f'{h} never compares the size of a criteria range with the size of the target range: ranges of different sizes are '
                f'silently mis-aligned (or fail with IndexError)', loc=cp.loc(loop))
        return
    for cmpn, t_expr, e_expr in checks:
        op = cmpn.ops[0]
        st = enclosing_stmt(cmpn, parents)
        # the unequal side must not complete normally
        ok_exit = False
        if isinstance(st, ast.If) and st.test is cmpn:
            if isinstance(op, ast.NotEq):
                ok_exit = not may_complete_normally(st.body)
            elif isinstance(op, ast.Eq):
                ok_exit = bool(st.orelse) and not may_complete_normally(st.orelse)
            elif isinstance(op, (ast.Lt, ast.Gt)):
                ok_exit = False
        run.check(ok_exit, 'C12.R1', construct + '/exit', 'size-mismatch-continues',
                  f'{h}: after `{ast.unparse(cmpn)}` finds ranges of different sizes, execution continues (only != with a raise / '
                  f'error return on the unequal side reports every mismatch)', fact='unequal sizes raise / return an error',
                  loc=cp.loc(cmpn))
        # which branch stores the range?  the append that is a later sibling of the check
        dominated = []
        for c in range_stores:
            before = executed_before(fn, c, parents)
            if st in before:
                dominated.append(c)
        run.check(bool(dominated), 'C12.R1', construct + '/dominates', 'size-check-after-store',
                  f'{h}: the size check `{ast.unparse(cmpn)}` is not executed before the criteria range is stored for selection',
                  fact='size check precedes the store of the range', loc=cp.loc(cmpn))
        # flattened operands
        ft = _flat_at(fn, t_expr, cmpn, parents, entry_flat=entry_flat)
        fe = _flat_at(fn, e_expr, cmpn, parents, entry_flat=entry_flat)
        if ft is None or fe is None:
            raise AnalysisError('C12.R1', f'{h}: cannot determine whether the operands of `{ast.unparse(cmpn)}` are flattened')
        run.check(ft and fe, 'C12.R1', construct + '/flattened', 'size-check-unflattened',
                  f'{h}: `{ast.unparse(cmpn)}` compares {"the unflattened target" if not ft else "the flattened target"} with '
                  f'{"an unflattened criteria range" if not fe else "a flattened criteria range"}: len() of a range of rows is '
                  f'the number of ROWS, so a 2x3 and a 2x2 area pass the check and are then mis-aligned cell by cell',
                  fact='both operands are results of _flatten_list', loc=cp.loc(cmpn))
    # the criterion branch of the pairing loop must be reachable without the size check only for criteria (callables):
    # every append whose value contains a range (a call on elem / list display) must be dominated by a size check
    for c in range_stores:
        v = c.args[0]
        is_range = not (isinstance(v, ast.Name) and v.id == elem)
        if is_range:
            before = executed_before(fn, c, parents)
            has = any(st is enclosing_stmt(ch[0], parents) for st in before for ch in checks)
            run.check(has, 'C12.R1', f'{h}[{cp.label}]/store@{ast.unparse(v)[:40]}', 'store-without-size-check',
                      f'{h}: the criteria range stored by `{ast.unparse(c)[:70]}` has not passed the size check',
                      fact='store dominated by the size check', loc=cp.loc(c))
    _selection_loops(run, cp, outer_fn, outer_target, callables)


class _NameSubst(ast.NodeTransformer):
    def __init__(self, mapping):
        self.mapping = mapping

    def visit_Name(self, node):
        if node.id in self.mapping and isinstance(node.ctx, ast.Load):
            import copy as _copy
            return ast.copy_location(_copy.deepcopy(self.mapping[node.id]), node)
        return node


def canonical_index_loops(fn: ast.FunctionDef) -> ast.FunctionDef:
    """a copy of the function in which position-aligned loops are spelled with one index:
         for p, x in enumerate(R): B        ->  for p in range(len(R)): B[x := R[p]]
         for x, t in zip(R, T): B           ->  for _p in range(len(R)): if _p < len(T): B[x := R[_p], t := T[_p]]
       (zip stops at the shorter sequence, which is what the bounds test says)"""
    import copy as _copy
    fn = _copy.deepcopy(fn)

    class T(ast.NodeTransformer):
        def visit_For(self, node):
            self.generic_visit(node)
            it = node.iter
            if isinstance(it, ast.Call) and isinstance(it.func, ast.Name) and it.func.id == 'enumerate' and len(it.args) == 1 and \
                    not it.keywords and isinstance(node.target, ast.Tuple) and len(node.target.elts) == 2 and \
                    all(isinstance(e, ast.Name) for e in node.target.elts) and isinstance(it.args[0], ast.Name):
                p_, x_ = node.target.elts[0].id, node.target.elts[1].id
                sub = ast.Subscript(value=ast.Name(id=it.args[0].id, ctx=ast.Load()), slice=ast.Name(id=p_, ctx=ast.Load()), ctx=ast.Load())
                body = [_NameSubst({x_: sub}).visit(b) for b in node.body]
                new = ast.For(target=ast.Name(id=p_, ctx=ast.Store()),
                              iter=ast.parse(f'range(len({it.args[0].id}))', mode='eval').body, body=body, orelse=node.orelse)
                return ast.fix_missing_locations(ast.copy_location(new, node))
            if isinstance(it, ast.Call) and isinstance(it.func, ast.Name) and it.func.id == 'zip' and len(it.args) == 2 and \
                    not it.keywords and isinstance(node.target, ast.Tuple) and len(node.target.elts) == 2 and \
                    all(isinstance(e, ast.Name) for e in node.target.elts) and all(isinstance(a, ast.Name) for a in it.args):
                x_, t_ = node.target.elts[0].id, node.target.elts[1].id
                r_, tt_ = it.args[0].id, it.args[1].id
                p_ = '_pos'
                m = {x_: ast.Subscript(value=ast.Name(id=r_, ctx=ast.Load()), slice=ast.Name(id=p_, ctx=ast.Load()), ctx=ast.Load()),
                     t_: ast.Subscript(value=ast.Name(id=tt_, ctx=ast.Load()), slice=ast.Name(id=p_, ctx=ast.Load()), ctx=ast.Load())}
                body = [_NameSubst(m).visit(b) for b in node.body]
                guard = ast.If(test=ast.parse(f'{p_} < len({tt_})', mode='eval').body, body=body, orelse=[])
                new = ast.For(target=ast.Name(id=p_, ctx=ast.Store()), iter=ast.parse(f'range(len({r_}))', mode='eval').body,
                              body=[guard], orelse=node.orelse)
                return ast.fix_missing_locations(ast.copy_location(new, node))
            return node
    fn = T().visit(fn)
    ast.fix_missing_locations(fn)
    return fn


def _index_loops(fn):
    """for IDX in range(len(R)) loops"""
    out = []
    for n in ast.walk(fn):
        if isinstance(n, ast.For) and isinstance(n.target, ast.Name) and isinstance(n.iter, ast.Call) and \
                isinstance(n.iter.func, ast.Name) and n.iter.func.id == 'range' and len(n.iter.args) == 1:
            r = _is_len_of(n.iter.args[0])
            if r is not None:
                out.append((n, n.target.id, r))
    return out


def _selection_loops(run: Run, cp, fn, target: str, callables: set):
    h = fn.name
    parents = parent_map(fn)
    loops = _index_loops(fn)
    if not loops:
        raise AnalysisError('C12.R2', f'{h}: no `for i in range(len(range))` selection loop found')
    sentinels = []
    for loop, idx, rng in loops:
        subs = [s for s in ast.walk(loop) if isinstance(s, ast.Subscript) and idx in _names(s.slice)]
        crit_calls = [c for c in ast.walk(loop) if isinstance(c, ast.Call) and isinstance(c.func, ast.Name) and c.args and
                      isinstance(c.args[0], ast.Subscript) and idx in _names(c.args[0].slice)]
        construct = f'{h}[{cp.label}]/loop over {ast.unparse(rng)[:30]}'
        if not crit_calls:
            raise AnalysisError('C12.R2', f'{h}: no criterion call on an indexed element in the selection loop')
        bad = [s for s in subs if not (isinstance(s.slice, ast.Name) and s.slice.id == idx)]
        run.check(not bad, 'C12.R2', construct + '/index', 'misaligned-index',
                  f'{h}: `{ast.unparse(bad[0]) if bad else ""}` indexes with an offset: the criterion is evaluated on one position '
                  f'and a different position of the target is (de)selected', fact=f'{len(subs)} subscripts all use the bare loop index',
                  loc=cp.loc(bad[0] if bad else loop))
        # the criterion is applied to the range the loop runs over; the store goes to the target
        for c in crit_calls:
            arg_base = c.args[0].value
            same = ast.unparse(arg_base) == ast.unparse(rng)
            run.check(same, 'C12.R2', construct + f'/criterion({ast.unparse(c.args[0])[:30]})', 'criterion-on-other-range',
                      f'{h}: the loop runs over `{ast.unparse(rng)}` but the criterion is applied to `{ast.unparse(c.args[0])}`',
                      fact='criterion applied to the element of the looped range', loc=cp.loc(c))
        stores = [st for st in ast.walk(loop) if isinstance(st, ast.Assign) and any(
            isinstance(t, ast.Subscript) and isinstance(t.value, ast.Name) and t.value.id == target for t in st.targets)]
        # or: the rejected positions are collected in a set / list (<collection>.add(i) / .append(i)) and filtered out later
        for st in ast.walk(loop):
            if isinstance(st, ast.Expr) and isinstance(st.value, ast.Call) and isinstance(st.value.func, ast.Attribute) and \
                    st.value.func.attr in ('add', 'append') and isinstance(st.value.func.value, ast.Name) and \
                    len(st.value.args) == 1 and isinstance(st.value.args[0], ast.Name) and st.value.args[0].id == idx:
                stores.append(st)
        if not stores:
            raise AnalysisError('C12.R2', f'{h}: the selection loop does not mark deselected positions of `{target}`')
        for st in stores:
            # deselection must be conditioned on the criterion failing
            conds = path_conditions(fn, st, parents)
            crit_cond = [(t, pol) for t, pol in conds if any(cc is x for cc in crit_calls for x in ast.walk(t))]
            neg = False
            for t, pol in crit_cond:
                inner_not = isinstance(t, ast.UnaryOp) and isinstance(t.op, ast.Not)
                neg = (pol and inner_not) or (not pol and not inner_not)
            run.check(bool(crit_cond) and neg, 'C12.R2', construct + '/deselect-on-failure', 'deselect-polarity',
                      f'{h}: `{ast.unparse(st)[:60]}` is not executed exactly when the criterion rejects the cell',
                      fact='position is deselected iff the criterion is false', loc=cp.loc(st))
            sentinels.append(st.value)
    _sentinel(run, cp, fn, target, callables, sentinels, loops)


def _sentinel(run: Run, cp, fn, target, callables, sentinels, loops):
    """R6: writer/reader agreement of the deselection sentinel; no criterion on a possibly deselected element"""
    h = fn.name
    parents = parent_map(fn)
    kinds = set()
    for s in sentinels:
        if isinstance(s, ast.Call) and isinstance(s.func, ast.Attribute) and s.func.attr in ('add', 'append') and \
                isinstance(s.func.value, ast.Name):
            kinds.add('positions:' + s.func.value.id)
        elif isinstance(s, ast.Constant) and s.value is None:
            kinds.add('None')
        elif isinstance(s, ast.Call) and isinstance(s.func, ast.Name):
            kinds.add('instance:' + s.func.id)
        else:
            raise AnalysisError('C12.R6', f'{h}: unmodelled deselection value `{ast.unparse(s)}`')
    if len(kinds) != 1:
        raise AnalysisError('C12.R6', f'{h}: several deselection sentinels {sorted(kinds)}')
    kind = next(iter(kinds))
    last_loop_line = max(l.end_lineno for l, _, _ in loops)
    # readers: comprehensions / filter() calls over the target after the selection loops
    readers = []
    for n in ast.walk(fn):
        if getattr(n, 'lineno', 0) <= last_loop_line:
            continue
        if isinstance(n, (ast.ListComp, ast.GeneratorExp)) and len(n.generators) == 1 and \
                isinstance(n.generators[0].iter, ast.Name) and n.generators[0].iter.id == target:
            readers.append(n)
        if isinstance(n, (ast.ListComp, ast.GeneratorExp)) and len(n.generators) == 1 and \
                ast.unparse(n.generators[0].iter) == f'enumerate({target})' and isinstance(n.generators[0].target, ast.Tuple):
            readers.append(n)
        if isinstance(n, ast.Call) and isinstance(n.func, ast.Name) and n.func.id == 'filter' and len(n.args) == 2 and \
                isinstance(n.args[1], ast.Name) and n.args[1].id == target:
            readers.append(n)
    if not readers:
        raise AnalysisError('C12.R6', f'{h}: no reader of the selection found after the selection loops')
    recognised = False
    for r in readers:
        construct = f'{h}/{ast.unparse(r)[:60]}'
        if isinstance(r, ast.Call):          # filter(F, target)
            f0 = r.args[0]
            if isinstance(f0, ast.Constant) and f0.value is None:
                run.bad('C12.R6', f'{h}/filter(None, {target})', 'truthiness-reader',
                        f'{h} keeps the selected cells with filter(None, ...): every falsy cell (0, blank, "", FALSE) is dropped '
                        f'together with the deselected positions', loc=cp.loc(r))
            else:
                raise AnalysisError('C12.R6', f'{h}: unmodelled filter function `{ast.unparse(f0)}`')
            recognised = True
            continue
        gen = r.generators[0]
        var = gen.target.id if isinstance(gen.target, ast.Name) else None
        if kind.startswith('positions:') and isinstance(gen.target, ast.Tuple) and len(gen.target.elts) == 2 and \
                all(isinstance(e, ast.Name) for e in gen.target.elts):
            pos_, var = gen.target.elts[0].id, gen.target.elts[1].id
            coll = kind.split(':', 1)[1]
            tests_ = []
            for t in gen.ifs:
                tests_ += list(t.values) if isinstance(t, ast.BoolOp) and isinstance(t.op, ast.And) else [t]
            okp = any(ast.unparse(t) == f'{pos_} not in {coll}' for t in tests_)
            run.check(okp, 'C12.R6', f'{h}[{cp.label}]/reader', 'sentinel-mismatch',
                      f'{h} collects the rejected positions in `{coll}` but the reader does not skip exactly those positions',
                      fact=f'position not in {coll}', loc=cp.loc(r))
            recognised = True
            continue
        tests = []
        for t in gen.ifs:           # `a and b` in a filter = two tests, evaluated left to right
            tests += list(t.values) if isinstance(t, ast.BoolOp) and isinstance(t.op, ast.And) else [t]
        sentinel_test = None
        for t in tests:
            k = _sentinel_test(t, var)
            if k is not None:
                sentinel_test = k
        if sentinel_test is not None:
            ok = sentinel_test == kind
            run.check(ok, 'C12.R6', f'{h}[{cp.label}]/reader', 'sentinel-mismatch',
                      f'{h} marks deselected positions with {kind} but the reader tests for {sentinel_test}',
                      fact=f'writer {kind} = reader {sentinel_test}', loc=cp.loc(r))
            recognised = True
        elif tests and all(_is_truthiness(t, var) for t in tests):
            run.bad('C12.R6', f'{h}/{ast.unparse(r)[:50]}', 'truthiness-reader',
                    f'{h} keeps the selected cells by truthiness: every falsy cell (0, blank, "", FALSE) is dropped together with '
                    f'the deselected positions', loc=cp.loc(r))
            recognised = True
        # a criterion (callable parameter) applied to an element that may be the sentinel
        for c in ast.walk(r):
            if isinstance(c, ast.Call) and isinstance(c.func, ast.Name) and c.func.id in callables and c.args and \
                    isinstance(c.args[0], ast.Name) and c.args[0].id == var:
                # the sentinel test must come before the criterion call in the filter (short-circuit order)
                earlier = []
                for t in tests:
                    if any(x is c for x in ast.walk(t)):
                        break
                    earlier.append(t)
                guarded = any(_sentinel_test(t, var) == kind for t in earlier)
                if not guarded:
                    run.bad('C12.R6', f'{h}/{c.func.id}(possibly deselected element)', 'criterion-on-sentinel',
                            f'{h} applies the criterion `{c.func.id}` to every element of `{target}` after the selection loops, '
                            f'including the positions an earlier pair replaced by {kind}: an ordering criterion then compares '
                            f'{kind} with a number (TypeError), an equality criterion may accept it', loc=cp.loc(c))
                else:
                    run.ok('C12.R6', f'{h}[{cp.label}]/{c.func.id}(guarded)', 'criterion applied to selected elements only',
                           loc=cp.loc(c))
                recognised = True
    if not recognised:
        raise AnalysisError('C12.R6', f'{h}: none of the readers of `{target}` tests the deselection sentinel in a modelled form')


def _sentinel_test(t, var):
    """x is not None -> 'None'; not isinstance(x, K) -> 'instance:K'"""
    if isinstance(t, ast.Compare) and len(t.ops) == 1 and isinstance(t.left, ast.Name) and t.left.id == var and \
            isinstance(t.ops[0], ast.IsNot) and isinstance(t.comparators[0], ast.Constant) and t.comparators[0].value is None:
        return 'None'
    if isinstance(t, ast.UnaryOp) and isinstance(t.op, ast.Not) and isinstance(t.operand, ast.Call) and \
            isinstance(t.operand.func, ast.Name) and t.operand.func.id == 'isinstance' and len(t.operand.args) == 2 and \
            isinstance(t.operand.args[0], ast.Name) and t.operand.args[0].id == var and isinstance(t.operand.args[1], ast.Name):
        return 'instance:' + t.operand.args[1].id
    return None


def _is_truthiness(t, var):
    return isinstance(t, ast.Name) and t.id == var


def _sum_if_eval(run: Run, cp, fn):
    """SUMIF decided by abstract evaluation (engine F) on small concrete ranges: position i is added exactly when the criterion
    accepts the i-th cell of the range and the target has an i-th cell; blanks / None in the target add 0"""
    from ..finite import evaluator_for, Evaluator, AV, const_av, Unknown, AbsRaise

    def lst(xs):
        return AV('list', items=tuple(lst(x) if isinstance(x, list) else (x if isinstance(x, AV) else const_av(x)) for x in xs))
    gt4 = AV('func', val=('native', lambda a: const_av(isinstance(a[0].val, (int, float)) and not isinstance(a[0].val, bool) and a[0].val > 4)))
    blank = AV('blank', sign='zero')
    cases = [([1, 5, 7], [10, 20, 30], 50, 'aligned ranges'), ([1, 5, 7], [10, 20], 20, 'target shorter than the range'),
             ([5, 1, 7], [10, 20, 30, 40], 40, 'target longer than the range'), ([[1, 5], [7, 9]], [[10, 20], [30, 40]], 90, 'matrices'),
             ([1, 2, 3], [10, 20, 30], 0, 'nothing accepted'), ([5, 6, 7], [10, blank, 30], 40, 'blank in the target'),
             ([5, 6], [None, 20], 20, 'None in the target'), ([7, 1, 8, 2], [1, 2, 4, 8], 5, 'positions 1 and 3')]
    for rng, tgt, want, what in cases:
        construct = f'_sum_if[{cp.label}]/{what}'
        ev = evaluator_for(cp, max_depth=10)
        try:
            res = ev.call_method('_sum_if', [lst(rng), gt4, lst(tgt)])
        except Unknown as u:
            raise AnalysisError('C12.R2', f'{construct}: the abstraction cannot follow the helper ({u})')
        except AbsRaise as r_:
            run.bad('C12.R2', construct, f'raises:{r_.exc}', f'_sum_if raises {r_.exc} ({what})', loc=cp.loc(fn))
            continue
        run.check(res.val == want, 'C12.R2', construct, 'wrong-positions',
                  f'SUMIF over {rng} with the criterion ">4" and the target {[getattr(x, "kind", x) if isinstance(x, AV) else x for x in tgt] if not isinstance(tgt[0], list) else tgt} '
                  f'({what}) gives {res.val!r}; the aligned accepted positions add up to {want}', fact=f'-> {res.val!r}', loc=cp.loc(fn))


def _ifs_eval(run: Run, cp):
    """SUMIFS / COUNTIFS / AVERAGEIFS decided by abstract evaluation (engine F) on small concrete ranges: a position takes part
    exactly when every criterion accepts the cell at that position of its own range; a blank in a criteria range is looked at
    as 0; a target cell that is 0, blank or empty text is still a cell; ranges of unequal size are refused"""
    from ..finite import evaluator_for, AV, const_av, Unknown, AbsRaise

    def lst(xs):
        return AV('list', items=tuple(lst(x) if isinstance(x, list) else (x if isinstance(x, AV) else const_av(x)) for x in xs))

    def num(a):
        return isinstance(a.val, (int, float)) and not isinstance(a.val, tuple)
    gt4 = AV('func', val=('native', lambda a: const_av(num(a[0]) and a[0].val > 4)))
    is_a = AV('func', val=('native', lambda a: const_av(isinstance(a[0].val, str) and a[0].val.lower() == 'a')))
    eq0 = AV('func', val=('native', lambda a: const_av(num(a[0]) and a[0].val == 0)))
    anything = AV('func', val=('native', lambda a: const_av(True)))
    blank = AV('blank', sign='zero')
    # (helper, target, [(range, criterion)...], expected, what, rule)
    cases = [
        ('_sumifs', [1, 2, 3, 4], [([5, 1, 7, 9], gt4)], 8, 'one criterion', 'C12.R2'),
        ('_sumifs', [1, 2, 3, 4], [([5, 1, 7, 9], gt4), (['a', 'b', 'A', 'x'], is_a)], 4, 'two criteria, both must accept', 'C12.R2'),
        ('_sumifs', [1, 2, 3, 4], [(['a', 'b', 'A', 'x'], is_a), ([5, 1, 7, 9], gt4)], 4, 'two criteria in the other order', 'C12.R2'),
        ('_sumifs', [1, 2, 3, 4], [(['x', 'a', 'a', 'a'], is_a), ([5, 9, 1, 1], gt4)], 2, 'a position rejected first stays rejected', 'C12.R2'),
        ('_sumifs', [[1, 2], [3, 4]], [([[5, 1], [7, 9]], gt4)], 8, 'matrices', 'C12.R2'),
        ('_sumifs', [1, 2, 3], [([1, 2, 3], gt4)], 0, 'nothing accepted', 'C12.R2'),
        ('_sumifs', [10, 20], [([blank, 5], eq0)], 10, 'a blank criteria cell is looked at as 0', 'C12.R2'),
        ('_sumifs', [10, 20, 30], [(['', blank, 0], eq0)], 50, 'an empty text in a criteria range is not 0', 'C12.R2'),
        ('_countifs', [1, 2, 3], [(['', 0, blank], eq0)], 2, 'an empty text in a criteria range is not 0', 'C12.R2'),
        ('_sumifs', [0, 20, 30], [([5, 5, 1], gt4)], 20, 'a zero in the target', 'C12.R6'),
        ('_sumifs', [True, 2, 3], [([5, 5, 1], gt4)], 3, 'TRUE in the target adds 1', 'C12.R6'),
        ('_sumifs', [1, 2, 3, 4], [([5, 1, 7], gt4)], 'refused', 'criteria range shorter than the target', 'C12.R1'),
        ('_sumifs', [1, 2, 3], [([5, 1, 7, 9], gt4)], 'refused', 'criteria range longer than the target', 'C12.R1'),
        ('_sumifs', [[1, 2], [3, 4]], [([[5, 1, 7]], gt4)], 'refused', 'matrices of unequal size', 'C12.R1'),
        ('_sumifs', [[1, 2], [3, 4]], [([5, 1, 7, 9], gt4)], 8, 'a 2x2 target and a 1x4 criteria range have the same size', 'C12.R1'),
        ('_sumifs', [1, 2, 3, 4], [([5, 1, 7, 9], gt4), (['a', 'b', 'A'], is_a)], 'refused', 'second criteria range too short', 'C12.R1'),
        ('_averageifs', [0, 10, 20], [([5, 5, 1], gt4)], 5, 'a zero in the target is a cell', 'C12.R6'),
        ('_averageifs', [2, 4, 9], [([5, 1, 7], gt4)], 5.5, 'one criterion', 'C12.R2'),
        ('_averageifs', [2, 4, 9, 1], [([5, 1, 7, 9], gt4), (['a', 'a', 'x', 'A'], is_a)], 1.5, 'two criteria', 'C12.R2'),
        ('_averageifs', [2, 4, 9], [([5, 1], gt4)], 'refused', 'criteria range shorter than the target', 'C12.R1'),
        ('_countifs', [0, '', blank, 3], [([5, 5, 5, 1], gt4)], 3, 'zero, empty text and blank are cells', 'C12.R6'),
        ('_countifs', [1, 2, 3, 4], [([5, 1, 7, 9], gt4), (['a', 'b', 'A', 'x'], is_a)], 2, 'two criteria', 'C12.R2'),
        ('_countifs', [1, 2, 3, 4], [([blank, 0, 7, blank], eq0)], 3, 'a blank criteria cell is looked at as 0', 'C12.R2'),
        ('_countifs', [1, 2, 3], [([5, 1], gt4)], 'refused', 'criteria range shorter than the target', 'C12.R1'),
    ]
    for h, tgt, crits, want, what, rule in cases:
        fn = cp.members.get(h)
        if fn is None:
            continue
        construct = f'{h}[{cp.label}]/{what}'
        ev = evaluator_for(cp, max_depth=10)
        args = [lst(tgt)] + ([anything] if h == '_countifs' else [])
        for r_, c_ in crits:
            args += [lst(r_), c_]
        try:
            res = ev.call_method(h, args)
            got = res.val if res.val is not None and not isinstance(res.val, tuple) else repr(res)
            if isinstance(got, str) and got.startswith('#'):
                got = 'refused'
        except Unknown as u:
            raise AnalysisError(rule, f'{construct}: the abstraction cannot follow the helper ({u})')
        except AbsRaise as r_:
            got = 'refused' if want == 'refused' else f'raises {r_.exc}'
        shown = [(r_, {id(gt4): '">4"', id(is_a): '"a"', id(eq0): '"0"'}[id(c_)]) for r_, c_ in crits]
        run.check(got == want and type(got) is type(want) or (got == want and isinstance(got, (int, float)) and not isinstance(got, bool)),
                  rule, construct, 'wrong-selection',
                  f'{h[1:].upper()} over the target {_show(tgt)} with the criteria {_show(shown)} ({what}) gives {got!r}; expected {want!r}',
                  fact=f'-> {got!r}', loc=cp.loc(fn))


def _show(x):
    from ..finite import AV
    if isinstance(x, AV):
        return 'blank' if x.kind == 'blank' else repr(x)
    if isinstance(x, (list, tuple)):
        return '[' + ', '.join(_show(y) for y in x) + ']'
    return repr(x)


def r10_date_operand(run: Run, rt):
    """the date reading of a criterion operand (engine F on _parse_date_obj): a date-time is taken as it is -- with its time of
    day --, a number or a missing value is not a date"""
    from ..finite import evaluator_for, AV, const_av, Unknown, AbsRaise
    stamp = AV('datetime', origin='a date-time with a time of day')
    cases = [('a date-time with a time of day', stamp, stamp), ('a number', const_av(5), AV('none')), ('a float', const_av(2.5), AV('none')),
             ('None', AV('none'), AV('none')), ('TRUE', const_av(True), AV('none'))]
    for cp in rt.copies():
        fn = cp.members.get('_parse_date_obj')
        if fn is None:
            raise AnalysisError('C12.R10', f'_parse_date_obj[{cp.label}] not found')
        for what, arg, want in cases:
            ev = evaluator_for(cp, max_depth=6)
            construct = f'_parse_date_obj[{cp.label}]/{what}'
            try:
                res = ev.call_method('_parse_date_obj', [arg])
                got = res
            except Unknown as u:
                raise AnalysisError('C12.R10', f'{construct}: the abstraction cannot follow the helper ({u})')
            except AbsRaise as r_:
                got = f'raises {r_.exc}'
            run.check(got == want, 'C12.R10', construct, 'date-operand',
                      f'the date reading of {what} is {got!r}; a date-time operand must be compared as it is (with its time of day) and '
                      f'a value that is neither a date-time nor a text is not a date: {want!r}', fact=f'-> {got!r}', loc=cp.loc(fn))


def _sum_if(run: Run, cp, fn):
    fn = canonical_index_loops(fn)
    parents = parent_map(fn)
    ps = _params(fn)
    if len(ps) < 3:
        raise AnalysisError('C12.R1', '_sum_if: expected (range, criteria, sum_range)')
    rng, crit, target = ps[0], ps[1], ps[2]
    loops = _index_loops(fn)
    if len(loops) != 1:
        raise AnalysisError('C12.R2', f'_sum_if: expected one index loop, found {len(loops)}')
    loop, idx, over = loops[0]
    construct = f'_sum_if[{cp.label}]'
    run.check(isinstance(over, ast.Name) and over.id == rng, 'C12.R2', construct + '/loop-range', 'loop-over-other-range',
              f'_sum_if iterates over `{ast.unparse(over)}`, not over the criteria range', fact='loop over the criteria range',
              loc=cp.loc(loop))
    subs = [s for s in ast.walk(loop) if isinstance(s, ast.Subscript) and idx in _names(s.slice)]
    bad = [s for s in subs if not (isinstance(s.slice, ast.Name) and s.slice.id == idx)]
    run.check(not bad and len(subs) >= 2, 'C12.R2', construct + '/index', 'misaligned-index',
              f'_sum_if: `{ast.unparse(bad[0]) if bad else "?"}` indexes with an offset: criterion and summed cell are different '
              f'positions', fact=f'{len(subs)} subscripts use the bare loop index', loc=cp.loc(bad[0] if bad else loop))
    crit_calls = [c for c in ast.walk(loop) if isinstance(c, ast.Call) and isinstance(c.func, ast.Name) and c.func.id == crit]
    ok = len(crit_calls) == 1 and crit_calls[0].args and isinstance(crit_calls[0].args[0], ast.Subscript) and \
        ast.unparse(crit_calls[0].args[0].value) == rng
    run.check(ok, 'C12.R2', construct + '/criterion', 'criterion-on-other-range',
              '_sum_if does not apply the criterion to the element of the criteria range', fact=f'{crit}({rng}[i])', loc=cp.loc(loop))
    # every read of the target is control-dependent on the criterion being true and on the bounds test
    reads = [s for s in subs if isinstance(s.value, ast.Name) and s.value.id == target]
    if not reads:
        raise AnalysisError('C12.R2', '_sum_if: the target range is never read in the loop')
    for rd in reads:
        conds = path_conditions(fn, rd, parents)
        flat = []
        for t, pol in conds:
            if isinstance(t, ast.BoolOp) and isinstance(t.op, ast.And) and pol:
                flat += [(v, True) for v in t.values]
            else:
                flat.append((t, pol))
        has_crit = any(pol and any(x is crit_calls[0] for x in ast.walk(t)) and not (isinstance(t, ast.UnaryOp)) for t, pol in flat) \
            if crit_calls else False
        run.check(has_crit, 'C12.R2', construct + f'/selected-only({ast.unparse(rd)})', 'unconditional-sum',
                  f'_sum_if adds `{ast.unparse(rd)}` without the criterion having accepted position {idx}',
                  fact='summed only when the criterion accepts', loc=cp.loc(rd))
        bounded = False
        for t, pol in flat:
            if pol and isinstance(t, ast.Compare) and len(t.ops) == 1 and isinstance(t.ops[0], ast.Lt) and \
                    isinstance(t.left, ast.Name) and t.left.id == idx:
                ln = _is_len_of(t.comparators[0])
                bounded = bounded or (isinstance(ln, ast.Name) and ln.id == target)
        run.check(bounded, 'C12.R1', construct + '/bounds', 'unbounded-target-index',
                  f'_sum_if reads `{ast.unparse(rd)}` without `{idx} < len({target})` holding: a shorter target raises IndexError',
                  fact=f'{idx} < len({target}) on the path', loc=cp.loc(rd))
    # both lists are flattened before the loop
    for name in (rng, target):
        f = _flat_at(fn, ast.Name(id=name), loop, parents)
        run.check(bool(f), 'C12.R1', construct + f'/flattened({name})', 'unflattened-selection',
                  f'_sum_if indexes `{name}` cell by cell without flattening it first', fact='flattened before the loop',
                  loc=cp.loc(loop))


# ---------------------------------------------------------------------------------------------------
# R3 criterion vocabulary (symbolic emission of LambdaTokenTranslator)
# ---------------------------------------------------------------------------------------------------
def r3(run: Run, src, em):
    key = ('LambdaTokenTranslator', 'LambdaToken')
    if key not in em.pairs:
        raise AnalysisError('C12.R3', 'LambdaTokenTranslator is not applied to LambdaToken')
    tr = src.cls('LambdaTokenTranslator')
    loc = loc_of(tr.module.path, tr.node)
    seen_ops = set()
    shapes = {}
    n = 0
    for e in em.pairs[key]:
        o = e.outcome
        if o.kind != 'return':
            continue
        sk = skeleton_of(em, e)
        if sk is None:
            continue
        subs = list(sk.subs.values())
        body = subs[0] if subs else sk
        if body.tree is None:
            raise AnalysisError('C12.R3', f'criterion lambda does not parse: {body.text[:80]}')
        lam = body.tree.body
        if not isinstance(lam, ast.Lambda):
            raise AnalysisError('C12.R3', f'LambdaTokenTranslator does not emit a lambda: {body.text[:80]}')
        op = None
        matched = None
        for k, v in o.world.items():
            if k[0] == 'grp-val' and isinstance(k[1], str) and k[1].startswith('regex:') and k[3] == 1:
                op = v
            if k[0] == 'match':
                matched = v
        if op:
            seen_ops.add(op)
        n += 1
        shape = (op or '', _shape(lam))
        shapes.setdefault(shape, e)
    if n < 20:
        raise AnalysisError('C12.R3', f'only {n} criterion worlds analysed')
    # vocabulary
    for p in REQUIRED_PREFIXES:
        if p == '=':
            # `=` may also be handled by stripping it: accepted when some world has op '=' (mapped to ==)
            pass
        run.check(p in seen_ops, 'C12.R3', f'LambdaTokenTranslator/prefix {p}', f'missing-prefix:{p}',
                  f'the criterion prefix `{p}` is not recognised: "{p}5" is compared as the text \'{p}5\' instead of as a comparison '
                  f'with 5', fact='recognised', loc=loc)
    # a criterion whose wildcards are ALL escaped ("a~*") lexes as an ordinary text literal; the equality arm then compares with
    # the text including its tilde, unless the tilde escape is undone somewhere on that path
    lt = src.cls('LiteralToken') if src.has_cls('LiteralToken') else None
    fns = [m.node for m in tr.methods.values()] + ([m.node for m in lt.methods.values()] if lt else [])
    handles_tilde = any(isinstance(c, ast.Constant) and isinstance(c.value, str) and '~' in c.value for f_ in fns for c in ast.walk(f_))
    if not handles_tilde:
        run.bad('C12.R3', 'LambdaTokenTranslator/escaped-only criterion', 'tilde-kept-in-literal-criterion',
                'a criterion that contains only escaped wildcards ("a~*", "what~?") is an ordinary text literal for the lexer and is compared '
                'for equality with its tilde: it selects "a~*", not "a*"', loc=loc)
    else:
        run.ok('C12.R3', 'LambdaTokenTranslator/escaped-only criterion', 'the tilde escape is handled on the literal path', loc=loc)
    # an operator prefix may be followed by a number or by text ("<>x", "=abc")
    from ..regexmodel import Regex, safety_class
    pats = {k[1] for e in em.pairs[key] for k in e.outcome.world if k[0] == 'match'}
    if len(pats) != 1:
        raise AnalysisError('C12.R3', f'expected one criterion regex, found {len(pats)}')
    rx = Regex(next(iter(pats)))
    if rx.ngroups < 2:
        raise AnalysisError('C12.R3', 'criterion regex without a value group')
    vclass = safety_class(rx.group_lang(2))
    if vclass in ('NUMERIC', 'UNICODE-NUMERIC', 'CLOSED'):
        run.bad('C12.R3', 'LambdaTokenTranslator/prefix followed by text', 'prefix-text-unsupported',
                f'after an operator prefix the criterion regex {rx.pattern!r} admits a number only: "<>x" or ">=m" falls through to '
                f'plain equality with the text \'<>x\'', loc=loc)
    else:
        run.ok('C12.R3', 'LambdaTokenTranslator/prefix followed by text', f'value group admits {vclass}', loc=loc)
    # a numeric criterion value is ONE conversion of the whole number text: int()/float() of a part of it (the integer digits
    # only, say) drops whatever else the number was written with (a fraction, an exponent)
    from .common import iter_parts, _groups_in_num
    from ..symeval import Code as _Code, GroupStr as _GroupStr
    from ..regexmodel import sre_c as _c
    owner = f'regex:{rx.flags & ~32}:' + rx.pattern
    vgroup = 2

    def contains_group(items, gid):
        for op_, av_ in items:
            if op_ is _c.SUBPATTERN:
                if av_[0] == gid or contains_group(av_[3], gid):
                    return True
            elif op_ in (_c.MAX_REPEAT, _c.MIN_REPEAT):
                if contains_group(av_[2], gid):
                    return True
            elif op_ is _c.BRANCH:
                if any(contains_group(b, gid) for b in av_[1]):
                    return True
        return False

    def groups_in(items):
        out = []
        for op_, av_ in items:
            if op_ is _c.SUBPATTERN:
                if av_[0] is not None:
                    out.append(av_[0])
                out += groups_in(av_[3])
            elif op_ in (_c.MAX_REPEAT, _c.MIN_REPEAT):
                out += groups_in(av_[2])
            elif op_ is _c.BRANCH:
                for b in av_[1]:
                    out += groups_in(b)
        return out
    checked_conv = set()
    for e in em.pairs[key]:
        o = e.outcome
        if o.kind != 'return' or not isinstance(o.value, _Code):
            continue
        for prt in iter_parts(o.value):
            if prt.kind != 'num':
                continue
            for gs in _groups_in_num(prt.a):
                if not isinstance(gs, _GroupStr) or not gs.owner.startswith('regex:') or gs.owner.split(':', 2)[2] != rx.pattern:
                    continue
                present = {k[3] for k, v in o.world.items() if k[0] == 'grp' and isinstance(k[1], str) and k[1].startswith('regex:') and v}
                absent = {k[3] for k, v in o.world.items() if k[0] == 'grp' and isinstance(k[1], str) and k[1].startswith('regex:') and not v}
                sig = (gs.gid, tuple(sorted(present)), tuple(sorted(absent)))
                if sig in checked_conv:
                    continue
                checked_conv.add(sig)
                construct = f'LambdaTokenTranslator/number from group {gs.gid} (present {sorted(present)}, absent {sorted(absent)})'
                if gs.gid == vgroup:
                    run.ok('C12.R3', construct, 'the whole number text is converted', loc=loc)
                    continue
                lost = []
                for item in rx.group_nodes[vgroup]:
                    items = [item]
                    if contains_group(items, gs.gid):
                        continue
                    gids = groups_in(items)
                    if gids:
                        top = [g_ for g_ in gids if rx.group_ctx[g_]['chain'] == [vgroup]] or gids
                        if not all(g_ in absent for g_ in top):
                            lost.append(f'group(s) {top}')
                    else:
                        # an uncaptured part: its presence cannot be tested by the translator at all
                        lost.append('an uncaptured part of the number (e.g. the exponent)')
                run.check(not lost, 'C12.R3', construct, f'number-part-dropped:group{gs.gid}',
                          f'the criterion number is converted from group {gs.gid} of {rx.pattern!r} only, while {", ".join(lost)} of the '
                          f'number may be present: ">1e3" is then compared as "> 1"', fact='nothing else of the number can be present',
                          loc=loc)
    for (op, shp), e in sorted(shapes.items(), key=lambda kv: (kv[0][0], str(kv[0][1]))):
        sk = skeleton_of(em, e)
        body = (list(sk.subs.values()) or [sk])[0]
        lam = body.tree.body
        want = PYOP.get(op or '=')
        kind = shp[0]
        construct = f'LambdaTokenTranslator/{"prefix " + op if op else "plain value"}/{kind}'
        if kind == 'wildcard':
            _wildcard_arm(run, lam, construct, loc)
            continue
        cmps = [c for c in ast.walk(lam.body) if isinstance(c, ast.Compare)]
        if not cmps:
            raise AnalysisError('C12.R3', f'criterion lambda without comparison: {body.text[:80]}')
        wrong = [c for c in cmps if len(c.ops) != 1 or type(c.ops[0]) is not want]
        run.check(not wrong, 'C12.R3', construct + '/operator', f'operator:{op or "="}',
                  f'criterion prefix `{op or "(none)"}` prints `{OPNAME.get(type(wrong[0].ops[0]), "?") if wrong else ""}` in '
                  f'`{_plain(ast.unparse(wrong[0]))[:60] if wrong else ""}`; the Python operator of the same meaning is '
                  f'`{OPNAME[want]}`', fact=f'{len(cmps)} comparison(s) all use {OPNAME[want]}', loc=loc)
        # the cell is always the left operand
        swapped = [c for c in cmps if 'x' not in _names(c.left) or 'x' in _names(c.comparators[0])]
        run.check(not swapped, 'C12.R3', construct + '/operand-order', 'operands-swapped',
                  f'`{_plain(ast.unparse(swapped[0]))[:60] if swapped else ""}` does not compare the cell (left) with the criterion value '
                  f'(right): ordering criteria are reversed', fact='cell op value', loc=loc)
        # text arm: both sides case-folded
        text_arms = [c for c in cmps if any(isinstance(s, ast.Call) and isinstance(s.func, ast.Name) and s.func.id == 'str'
                                            for s in ast.walk(c))]
        for c in text_arms:
            sides = [c.left, c.comparators[0]]
            folded = [isinstance(s, ast.Call) and isinstance(s.func, ast.Attribute) and s.func.attr in ('lower', 'casefold', 'upper')
                      for s in sides]
            run.check(all(folded), 'C12.R3', construct + '/text-arm-case', 'text-arm-case',
                      f'the text arm `{_plain(ast.unparse(c))[:70]}` does not fold case on both sides: texts must compare '
                      f'case-insensitively', fact='both sides case-folded', loc=loc)
        if not text_arms:
            raise AnalysisError('C12.R3', f'no text arm in the criterion lambda {body.text[:80]}')


def _shape(lam: ast.Lambda):
    calls = [ast.unparse(c.func) for c in ast.walk(lam.body) if isinstance(c, ast.Call)]
    if any(c.startswith('re.') for c in calls):
        return ('wildcard', tuple(sorted(set(calls))))
    return ('compare', tuple(sorted(set(calls))))


def _plain(text):
    import re as _re
    return _re.sub(r'__[A-Z][A-Za-z0-9]*__', '_', text)


def _wildcard_arm(run: Run, lam: ast.Lambda, construct, loc):
    calls = [c for c in ast.walk(lam.body) if isinstance(c, ast.Call) and isinstance(c.func, ast.Attribute) and
             isinstance(c.func.value, ast.Name) and c.func.value.id == 're']
    if len(calls) != 1:
        raise AnalysisError('C12.R3', 'wildcard arm is not a single re.<function> call')
    c = calls[0]
    whole = c.func.attr == 'fullmatch'
    flags = [ast.unparse(a) for a in c.args[2:]] + [ast.unparse(k.value) for k in c.keywords if k.arg == 'flags']
    icase = any('re.I' in f or 'IGNORECASE' in f for f in flags)
    if not whole:
        run.bad('C12.R3', 'LambdaTokenTranslator/wildcard arm', 'wildcard-not-anchored',
                f'the wildcard criterion is tested with re.{c.func.attr}(pattern, cell) and the pattern has no end anchor: "a?" also '
                f'selects "abc" (a wildcard pattern must match the whole cell)', loc=loc)
    else:
        run.ok('C12.R3', construct + '/whole-cell', 're.fullmatch', loc=loc)
    if not icase:
        run.bad('C12.R3', 'LambdaTokenTranslator/wildcard arm', 'wildcard-case-sensitive',
                f'the wildcard criterion is tested without re.IGNORECASE: "a*" does not select "Apple"', loc=loc)
    else:
        run.ok('C12.R3', construct + '/ignore-case', 're.I', loc=loc)
    # the cell is the searched string, the pattern comes first
    ok = len(c.args) >= 2 and 'x' in _names(c.args[1]) and 'x' not in _names(c.args[0])
    run.check(ok, 'C12.R3', construct + '/operand-order', 'wildcard-operands-swapped',
              'the wildcard test does not use the criterion as pattern and the cell as subject', fact='re.*(pattern, str(cell))', loc=loc)


# ---------------------------------------------------------------------------------------------------
# R7 wildcard -> regex conversion
# ---------------------------------------------------------------------------------------------------
def _const_of(fn, expr):
    """string constant an expression denotes (a literal, or a local bound once to a literal)"""
    if isinstance(expr, ast.Constant) and isinstance(expr.value, str):
        return expr.value
    if isinstance(expr, ast.Name):
        vals = [st.value for st in ast.walk(fn) if isinstance(st, ast.Assign) and any(isinstance(t, ast.Name) and t.id == expr.id
                                                                                      for t in st.targets)]
        if len(vals) == 1 and isinstance(vals[0], ast.Constant) and isinstance(vals[0].value, str):
            return vals[0].value
    return None


def _alts(parsed):
    """top-level alternatives of a parsed pattern, each as a list of items; a common prefix before a single BRANCH is
    distributed over the alternatives"""
    items = list(parsed)
    for i, (op, av) in enumerate(items):
        if op is sre_c.BRANCH:
            pre, post = items[:i], items[i + 1:]
            return [pre + list(a) + post for a in av[1]]
        if op is sre_c.SUBPATTERN and len(items) - i == 1:
            inner = _alts(av[3])
            return [items[:i] + a for a in inner]
    return [items]


def _run_class(alt):
    """(lookbehind-not-tilde?, set of chars of the repeated class, min repeat) of one scanner alternative"""
    guarded = False
    chars, mn = None, None
    for op, av in alt:
        if op is sre_c.ASSERT_NOT and av[0] == -1:
            inner = list(av[1])
            cs = set()
            for o2, a2 in inner:
                if o2 is sre_c.LITERAL:
                    cs.add(chr(a2))
                elif o2 is sre_c.IN:
                    cs |= {chr(a) for o3, a in a2 if o3 is sre_c.LITERAL}
            guarded = guarded or cs == {'~'}
        elif op in (sre_c.MAX_REPEAT, sre_c.MIN_REPEAT):
            mn = av[0]
            inner = list(av[2])
            cs = set()
            for o2, a2 in inner:
                if o2 is sre_c.LITERAL:
                    cs.add(chr(a2))
                elif o2 is sre_c.IN:
                    for o3, a3 in a2:
                        if o3 is sre_c.LITERAL:
                            cs.add(chr(a3))
                        else:
                            raise AnalysisError('C12.R7', 'unmodelled class item in the wildcard scanner')
                else:
                    raise AnalysisError('C12.R7', 'unmodelled repeat body in the wildcard scanner')
            chars = cs
        elif op is sre_c.LITERAL:
            chars, mn = {chr(av)}, 1
        elif op is sre_c.IN:
            chars, mn = {chr(a) for o3, a in av if o3 is sre_c.LITERAL}, 1
        else:
            raise AnalysisError('C12.R7', f'unmodelled item {op} in the wildcard scanner')
    return guarded, chars, mn


def _concat_parts(expr):
    """a + b + ... -> list of ('s', text) | ('len',) | ('?', source)"""
    if isinstance(expr, ast.BinOp) and isinstance(expr.op, ast.Add):
        return _concat_parts(expr.left) + _concat_parts(expr.right)
    if isinstance(expr, ast.Constant) and isinstance(expr.value, str):
        return [('s', expr.value)]
    if isinstance(expr, ast.Call) and isinstance(expr.func, ast.Name) and expr.func.id == 'str' and len(expr.args) == 1:
        a = expr.args[0]
        txt = ast.unparse(a).replace(' ', '')
        # length of the run: span()[1]-span()[0] / end()-start() / len(group())
        import re as _re
        if _re.fullmatch(r'(\w+)\.span\((0)?\)\[1\]-\1\.span\((0)?\)\[0\]', txt) or _re.fullmatch(r'(\w+)\.end\((0)?\)-\1\.start\((0)?\)', txt) \
                or _re.fullmatch(r'len\((\w+)\.group\((0)?\)\)', txt):
            return [('len',)]
        return [('?', txt)]
    if isinstance(expr, ast.JoinedStr):
        out = []
        for v in expr.values:
            if isinstance(v, ast.Constant):
                out.append(('s', v.value))
            else:
                out += _concat_parts(ast.Call(func=ast.Name(id='str'), args=[v.value], keywords=[]))
        return out
    return [('?', ast.unparse(expr))]


def _merge(parts):
    out = []
    for p in parts:
        if p[0] == 's' and out and out[-1][0] == 's':
            out[-1] = ('s', out[-1][1] + p[1])
        else:
            out.append(p)
    return out


def _first_chars(alt):
    """(set of possible first characters or ('not', set) for a negated class, kind) of a scanner alternative"""
    op, av = alt[0]
    if op in (sre_c.MAX_REPEAT, sre_c.MIN_REPEAT):
        op, av = list(av[2])[0]
    if op is sre_c.LITERAL:
        return {chr(av)}, False
    if op is sre_c.NOT_LITERAL:
        return {chr(av)}, True
    if op is sre_c.IN:
        neg = any(o is sre_c.NEGATE for o, _ in av)
        cs = {chr(a) for o, a in av if o is sre_c.LITERAL}
        if any(o not in (sre_c.LITERAL, sre_c.NEGATE) for o, _ in av):
            raise AnalysisError('C12.R7', 'unmodelled class item in the wildcard scanner')
        return cs, neg
    raise AnalysisError('C12.R7', f'unmodelled first item {op} of a scanner alternative')


def _r7_sub_function(run: Run, cp, fn, pat, call):
    """_regexp = re.sub(<scanner>, <function>, pattern): every piece of the criterion text is converted by the function"""
    scanner = _const_of(fn, call.args[0])
    if scanner is None:
        raise AnalysisError('C12.R7', '_regexp: the scanner of re.sub is not a constant pattern')
    fname = call.args[1].id if isinstance(call.args[1], ast.Name) else None
    conv = next((n for n in ast.walk(fn) if isinstance(n, ast.FunctionDef) and n.name == fname), None)
    if conv is None:
        raise AnalysisError('C12.R7', '_regexp: the replacement of re.sub is not a local function')
    try:
        parsed = sre_parse.parse(scanner)
    except Exception as e:
        run.bad('C12.R7', f'_regexp[{cp.label}]/scanner', 'scanner-invalid', f'the scanner {scanner!r} does not compile: {e}', loc=cp.loc(fn))
        return
    alts = _alts(parsed)
    marg = conv.args.args[0].arg
    # the local name of the matched text: run = item.group()
    text_names = {marg + '.group()', marg + '.group(0)', marg + '[0]'}
    for st in conv.body:
        if isinstance(st, ast.Assign) and len(st.targets) == 1 and isinstance(st.targets[0], ast.Name) and \
                ast.unparse(st.value) in text_names:
            text_names.add(st.targets[0].id)

    def classify_piece(alt):
        cs, neg = _first_chars(alt)
        two = len(alt) == 2 and alt[0][0] is sre_c.LITERAL and chr(alt[0][1]) == '~'
        if two:
            return 'escape-pair', '~'
        if not neg and cs == {'~'}:
            return 'lone-tilde', '~'
        if not neg and cs == {'?'}:
            return '?-run', '?'
        if not neg and cs == {'*'}:
            return '*-run', '*'
        if neg and {'?', '*', '~'} <= cs:
            return 'literal-run', 'x'
        if not neg and cs & {'?', '*'} and len(cs) > 1:
            return 'mixed-run', sorted(cs)[0]
        raise AnalysisError('C12.R7', f'unmodelled scanner alternative starting with {"not " if neg else ""}{sorted(cs)}')

    def result_for(first):
        """the expression the function returns for a piece whose first character is `first`"""
        for st in conv.body:
            if isinstance(st, ast.If):
                t = st.test
                ok = None
                if isinstance(t, ast.Compare) and len(t.ops) == 1 and isinstance(t.ops[0], (ast.Eq, ast.In)) and \
                        isinstance(t.comparators[0], ast.Constant) and isinstance(t.comparators[0].value, str):
                    l = ast.unparse(t.left)
                    base = l[:-3] if l.endswith('[0]') else None
                    if base in text_names:
                        ok = first in t.comparators[0].value if isinstance(t.ops[0], ast.In) else first == t.comparators[0].value
                elif isinstance(t, ast.Call) and isinstance(t.func, ast.Attribute) and t.func.attr == 'startswith' and \
                        ast.unparse(t.func.value) in text_names and t.args and isinstance(t.args[0], ast.Constant):
                    ok = first == t.args[0].value
                if ok is None:
                    raise AnalysisError('C12.R7', f'_regexp: unmodelled test `{ast.unparse(t)}` in the conversion function')
                if ok:
                    rets = [x for x in st.body if isinstance(x, ast.Return)]
                    if len(rets) != 1 or len(st.body) != 1:
                        raise AnalysisError('C12.R7', '_regexp: unmodelled branch body in the conversion function')
                    return rets[0].value
            elif isinstance(st, ast.Return):
                return st.value
            elif isinstance(st, (ast.Assign, ast.Expr)):
                continue
            else:
                raise AnalysisError('C12.R7', f'_regexp: unmodelled statement {type(st).__name__} in the conversion function')
        return None
    kinds = {}
    for i, alt in enumerate(alts):
        kind, first = classify_piece(alt)
        kinds[kind] = alt
        construct = f'_regexp[{cp.label}]/{kind}'
        if kind == 'mixed-run':
            run.bad('C12.R7', f'_regexp/scanner alternative {i}', 'mixed-run',
                    f'alternative {i} of the scanner {scanner!r} matches runs that mix ? and *: the conversion decides per run, so "a?*" no '
                    f'longer means "a, one character, any run"', loc=cp.loc(fn))
            continue
        res = result_for(first)
        txt = ast.unparse(res).replace(' ', '') if res is not None else 'None'
        names = '|'.join(sorted(text_names, key=len))
        import re as _re
        tn = '(?:' + '|'.join(_re.escape(t_) for t_ in text_names) + ')'
        if kind == '?-run':
            ok = bool(_re.fullmatch(r"'\.'\*len\(" + tn + r"\)", txt)) or bool(_re.fullmatch(r"len\(" + tn + r"\)\*'\.'", txt)) or \
                _merge(_concat_parts(res)) in ([('s', '.{'), ('len',), ('s', '}')],)
            if not ok and _re.fullmatch(r"'\.\{'\+str\(len\(" + tn + r"\)\)\+'\}'", txt):
                ok = True
            run.check(ok, 'C12.R7', construct, 'question-conversion',
                      f'a run of n `?` is replaced by `{ast.unparse(res)[:60]}`, which is not "exactly n characters"', fact='n times .',
                      loc=cp.loc(res if res is not None else conv))
        elif kind == '*-run':
            ok = isinstance(res, ast.Constant) and res.value in ('.*', '(.*)', '(?:.*)', '[\\s\\S]*')
            run.check(ok, 'C12.R7', construct, 'star-conversion',
                      f'a run of `*` is replaced by `{ast.unparse(res)[:60]}`, which is not "any run of characters, possibly empty" (.*)',
                      fact='.*', loc=cp.loc(res if res is not None else conv))
        elif kind == 'escape-pair':
            ok = bool(_re.fullmatch(r"re\.escape\(" + tn + r"\[(?:-1|1|1:)\]\)", txt))
            run.check(ok, 'C12.R7', construct, 'tilde-kept',
                      f'an escaped wildcard (~? ~* ~~) is replaced by `{ast.unparse(res)[:60]}`; it must become the escaped character after '
                      f'the tilde, the tilde itself consumed', fact='re.escape(character after the tilde)', loc=cp.loc(res if res is not None else conv))
        elif kind in ('literal-run', 'lone-tilde'):
            ok = bool(_re.fullmatch(r"re\.escape\(" + tn + r"(?:\[-1\]|\[0\])?\)", txt))
            run.check(ok, 'C12.R7', construct, 'metachars-unescaped',
                      f'ordinary criterion text is replaced by `{ast.unparse(res)[:60]}`, not by its re.escape: "a.c*" also selects "abcd", '
                      f'"a(*" raises re.error', fact='re.escape(text)', loc=cp.loc(res if res is not None else conv))
    need = {'escape-pair', '?-run', '*-run', 'literal-run'}
    missing = need - set(kinds)
    run.check(not missing, 'C12.R7', f'_regexp[{cp.label}]/scanner/covers', 'piece-not-scanned',
              f'the scanner {scanner!r} has no alternative for {sorted(missing)}: such text reaches the regex unconverted',
              fact='escape pairs, ? runs, * runs and literal text are all scanned', loc=cp.loc(fn))
    # order: the escape pair must be tried before the lone tilde and before the wildcard runs
    order = [classify_piece(a)[0] for a in alts]
    if 'escape-pair' in order:
        ok = order.index('escape-pair') < min([order.index(k) for k in ('lone-tilde', '?-run', '*-run') if k in order] or [99])
        run.check(ok, 'C12.R7', f'_regexp[{cp.label}]/scanner/order', 'escape-after-wildcard',
                  'the escape pair ~? / ~* is not the first alternative: the tilde or the wildcard is consumed by another alternative first',
                  fact='escape pair first', loc=cp.loc(fn))
    # literal runs exclude exactly the three special characters, so no special character is swallowed as text
    if 'literal-run' in kinds:
        cs, neg = _first_chars(kinds['literal-run'])
        run.check(cs == {'?', '*', '~'}, 'C12.R7', f'_regexp[{cp.label}]/scanner/literal-class', 'literal-class',
                  f'literal text is scanned as runs of characters other than {sorted(cs)}; it must exclude exactly ? * ~',
                  fact='[^?*~]+', loc=cp.loc(fn))
    # the result of re.sub is what is returned, and the subject is the parameter
    ok = isinstance(call.args[2], ast.Name) and call.args[2].id == pat
    run.check(ok, 'C12.R7', f'_regexp[{cp.label}]/subject', 'subject', 're.sub is not applied to the criterion text', fact='re.sub(.., .., pattern)',
              loc=cp.loc(call))


def r7(run: Run, rt):
    for cp in rt.copies():
        fn = cp.members.get('_regexp')
        if fn is None:
            run.bad('C12.R7', f'_regexp[{cp.label}]', 'missing', 'the wildcard -> regex helper is missing', loc=cp.path)
            continue
        params0 = [a.arg for a in fn.args.args if a.arg not in ('self', 'cls')]
        subs_fn = [c for c in ast.walk(fn) if isinstance(c, ast.Call) and ast.unparse(c.func) == 're.sub' and len(c.args) >= 3 and
                   isinstance(c.args[1], ast.Name)]
        rets_ = [r for r in ast.walk(fn) if isinstance(r, ast.Return) and r.value is not None and
                 not any(r in ast.walk(f2) for f2 in ast.walk(fn) if isinstance(f2, ast.FunctionDef) and f2 is not fn)]
        if len(subs_fn) == 1 and params0 and len(rets_) == 1 and rets_[0].value is subs_fn[0]:
            _r7_sub_function(run, cp, fn, params0[0], subs_fn[0])
            continue
        params = [a.arg for a in fn.args.args if a.arg not in ('self', 'cls')]
        if not params:
            raise AnalysisError('C12.R7', '_regexp has no parameter')
        pat = params[0]
        scans = [c for c in ast.walk(fn) if isinstance(c, ast.Call) and ast.unparse(c.func) in ('re.finditer', 're.findall') and
                 len(c.args) >= 2 and isinstance(c.args[1], ast.Name) and c.args[1].id == pat]
        if len(scans) != 1:
            raise AnalysisError('C12.R7', f'_regexp: expected one scan of the pattern for wildcard runs, found {len(scans)}')
        scanner = _const_of(fn, scans[0].args[0])
        if scanner is None:
            raise AnalysisError('C12.R7', '_regexp: the wildcard scanner is not a constant pattern')
        try:
            parsed = sre_parse.parse(scanner)
        except Exception as e:
            run.bad('C12.R7', f'_regexp[{cp.label}]/scanner', 'scanner-invalid', f'the wildcard scanner {scanner!r} does not compile: {e}',
                    loc=cp.loc(fn))
            continue
        alts = _alts(parsed)
        covered = set()
        for i, alt in enumerate(alts):
            guarded, chars, mn = _run_class(alt)
            if chars is None:
                raise AnalysisError('C12.R7', f'alternative {i} of the wildcard scanner has no run')
            wild = chars & {'?', '*'}
            construct = f'_regexp[{cp.label}]/scanner alternative {i} ({"".join(sorted(chars))})'
            run.check(len(wild) == 1 and chars == wild, 'C12.R7', construct + '/homogeneous', 'mixed-run',
                      f'alternative {i} of the wildcard scanner {scanner!r} matches runs over {sorted(chars)}: a run that mixes ? and * '
                      f'is converted as ONE kind (the conversion decides per run), so "a?*" no longer means "a, one character, any run"',
                      fact='run of one wildcard kind', loc=cp.loc(fn))
            covered |= wild
            w = ''.join(sorted(wild)) or '?'
            if not guarded:
                run.bad('C12.R7', f'_regexp/scanner alternative for {w}', 'tilde-guard-missing',
                        f'the alternative of the wildcard scanner {scanner!r} that matches runs of `{w}` is not guarded by the '
                        f'not-after-tilde test (alternation binds looser than the look-behind): "~{w}" is converted like an '
                        f'unescaped wildcard', loc=cp.loc(fn))
            else:
                run.ok('C12.R7', construct + '/tilde-guard', 'guarded by (?<!~)', loc=cp.loc(fn))
        run.check(covered == {'?', '*'}, 'C12.R7', f'_regexp[{cp.label}]/scanner/covers', 'wildcard-not-scanned',
                  f'the wildcard scanner {scanner!r} does not find runs of {sorted({"?", "*"} - covered)}',
                  fact='both wildcards scanned', loc=cp.loc(fn))
        # conversions: pattern.replace(item.group(), <expr>, 1) under a guard that names the wildcard
        convs = {}
        parents = parent_map(fn)
        for c in ast.walk(fn):
            if isinstance(c, ast.Call) and isinstance(c.func, ast.Attribute) and c.func.attr == 'replace' and len(c.args) >= 2 and \
                    isinstance(c.func.value, ast.Name) and c.func.value.id == pat and 'group' in ast.unparse(c.args[0]):
                # which wildcard?  from the enclosing case guard / if test
                node = c
                which = None
                while node is not None and which is None:
                    node = parents.get(node)
                    test = None
                    if isinstance(node, ast.match_case):
                        test = node.guard
                    elif isinstance(node, ast.If):
                        test = node.test
                    if test is not None:
                        for cm in ast.walk(test):
                            if isinstance(cm, ast.Compare) and isinstance(cm.ops[0], ast.In) and isinstance(cm.left, ast.Constant) and \
                                    cm.left.value in ('?', '*'):
                                which = cm.left.value
                if which is None:
                    raise AnalysisError('C12.R7', f'_regexp: cannot tell which wildcard `{ast.unparse(c)[:60]}` converts')
                convs[which] = c
        if set(convs) != {'?', '*'}:
            raise AnalysisError('C12.R7', f'_regexp: conversions found for {sorted(convs)} only')
        q = _merge(_concat_parts(convs['?'].args[1]))
        if any(p[0] == '?' for p in q):
            raise AnalysisError('C12.R7', f'_regexp: unmodelled replacement for ? runs `{ast.unparse(convs["?"].args[1])[:60]}`')
        okq = q in ([('s', '.{'), ('len',), ('s', '}')], [('s', '(.{'), ('len',), ('s', '})')], [('s', '(?:.{'), ('len',), ('s', '})')])
        run.check(okq, 'C12.R7', f'_regexp[{cp.label}]/? run', 'question-conversion',
                  f'a run of n `?` is replaced by `{ast.unparse(convs["?"].args[1])[:60]}`, which is not "exactly n characters" (.{{n}})',
                  fact='.{n}', loc=cp.loc(convs['?']))
        s = _merge(_concat_parts(convs['*'].args[1]))
        if any(p[0] != 's' for p in s) or len(s) != 1:
            raise AnalysisError('C12.R7', f'_regexp: unmodelled replacement for * runs `{ast.unparse(convs["*"].args[1])[:60]}`')
        run.check(s[0][1] in ('.*', '(.*)', '(?:.*)', '.*?', '[\\s\\S]*'), 'C12.R7', f'_regexp[{cp.label}]/* run', 'star-conversion',
                  f'a run of `*` is replaced by {s[0][1]!r}, which is not "any run of characters, possibly empty" (.*)', fact='.*',
                  loc=cp.loc(convs['*']))
        # replacing by TEXT SEARCH in the pattern that is being rewritten: once a `*` has become `.*`, the next `*` run is searched
        # from the left again and the first hit is the star inside that `.*` ("*an*" -> "..*an*")
        if any(p[0] == 's' and '*' in p[1] for p in s):
            run.bad('C12.R7', '_regexp/* run', 'replacement-rematches',
                    f'`{ast.unparse(convs["*"])[:70]}` finds the run by searching its text in the pattern that earlier replacements have '
                    f'already rewritten; the replacement {s[0][1]!r} itself contains `*`, so a second `*` run hits the first replacement: '
                    f'"*an*" becomes "..*an*"', loc=cp.loc(convs['*']))
        # each conversion replaces one occurrence (the count argument) -- otherwise equal runs elsewhere are rewritten with this length
        for wch, c in convs.items():
            cnt = c.args[2] if len(c.args) > 2 else None
            run.check(isinstance(cnt, ast.Constant) and cnt.value == 1, 'C12.R7', f'_regexp[{cp.label}]/{wch} run/one-at-a-time',
                      'replace-all', f'`{ast.unparse(c)[:70]}` replaces every occurrence of the run text, not the scanned occurrence',
                      fact='count = 1', loc=cp.loc(c))
        # the escaping tilde must be consumed by some substitution; metacharacters must be escaped
        consumed_tilde = False
        escaped = set()
        uses_escape = any(isinstance(c, ast.Call) and ast.unparse(c.func) == 're.escape' for c in ast.walk(fn))
        for c in ast.walk(fn):
            if isinstance(c, ast.Call) and ast.unparse(c.func) == 're.sub' and len(c.args) >= 3:
                p0 = _const_of(fn, c.args[0])
                r0 = _const_of(fn, c.args[1])
                if p0 is None or r0 is None:
                    raise AnalysisError('C12.R7', f'_regexp: non-constant re.sub `{ast.unparse(c)[:60]}`')
                try:
                    pp = sre_parse.parse(p0)
                except Exception as e:
                    raise AnalysisError('C12.R7', f'_regexp: {p0!r} does not parse: {e}')
                consumed = set()
                for op, av in pp:
                    if op is sre_c.LITERAL:
                        consumed.add(chr(av))
                    elif op is sre_c.IN:
                        consumed |= {chr(a) for o3, a in av if o3 is sre_c.LITERAL}
                if '~' in consumed and '~' not in r0:
                    consumed_tilde = True
                if r0.replace('\\\\', '\\').startswith('\\') and 'g<0>' in r0:
                    escaped |= consumed
            if isinstance(c, ast.Call) and isinstance(c.func, ast.Attribute) and c.func.attr == 'replace' and len(c.args) >= 2 and \
                    isinstance(c.args[0], ast.Constant) and isinstance(c.args[1], ast.Constant) and \
                    isinstance(c.args[0].value, str) and isinstance(c.args[1].value, str):
                if '~' in c.args[0].value and '~' not in c.args[1].value:
                    consumed_tilde = True
        if not consumed_tilde:
            run.bad('C12.R7', '_regexp/tilde', 'tilde-kept',
                    'no substitution of _regexp consumes the escaping tilde: "~?" becomes the regex `~\\?`, which matches the two '
                    'characters "~?" instead of a literal question mark', loc=cp.loc(fn))
        else:
            run.ok('C12.R7', f'_regexp[{cp.label}]/tilde', 'the escaping tilde is removed', loc=cp.loc(fn))
        run.check({'[', ']'} <= escaped or uses_escape, 'C12.R7', f'_regexp[{cp.label}]/brackets', 'brackets-unescaped',
                  'square brackets of the criterion text are no longer escaped: "[a]*" becomes a character class',
                  fact='[ and ] escaped', loc=cp.loc(fn))
        missing = META - escaped - {'\\'} if not uses_escape else set()
        if missing:
            run.bad('C12.R7', '_regexp/metacharacters', 'metachars-unescaped',
                    f'the criterion text reaches the regex with {"".join(sorted(missing))} unescaped: "a.c*" also selects "abcd", '
                    f'"a(*" raises re.error', loc=cp.loc(fn))
        else:
            run.ok('C12.R7', f'_regexp[{cp.label}]/metacharacters', 'all metacharacters escaped', loc=cp.loc(fn))


def r9_pattern_token_language(run: Run, g):
    """which text literals are wildcard patterns: exactly those with a ? or * that is not escaped by ~, wherever it stands.  The
    regexp constant of PatternToken is matched (standard re module) against literals with a known answer."""
    import re
    t = g.terminals.get('PatternToken')
    if t is None:
        raise AnalysisError('C12.R9', 'PatternToken not found')
    try:
        rx = re.compile(t.regexp)
    except re.error as e:
        raise AnalysisError('C12.R9', f'PatternToken.regexp does not compile: {e}')
    yes = ['"a*"', '"?"', '"*"', '"a?c"', '"ready~?*"', '"ready~? ???"', '"5~*?=*"', '"~~*"', '"a~*b*"', '"*~?"', '"x?~*"', '"~?~**"']
    no = ['"abc"', '""', '"a~?"', '"~*"', '"a~*b~?c"', '"1+2"']
    for lit in yes:
        run.check(rx.fullmatch(lit) is not None, 'C12.R9', f'PatternToken/{lit}', 'wildcard-literal-not-a-pattern',
                  f'the literal {lit} contains an unescaped wildcard but is not matched by PatternToken.regexp {t.regexp!r}: it is lexed '
                  f'as a plain literal and compared for equality, so the criterion accepts nothing', fact='is a pattern',
                  loc=loc_of(t.ci.module.path, t.ci.node))
    for lit in no:
        run.check(rx.fullmatch(lit) is None, 'C12.R9', f'PatternToken/{lit}', 'plain-literal-is-a-pattern',
                  f'the literal {lit} has no unescaped wildcard but is matched by PatternToken.regexp {t.regexp!r}', fact='is not a pattern',
                  loc=loc_of(t.ci.module.path, t.ci.node))


def r4(run: Run, src):
    from . import c02
    sub = Run('tmp', run.tier, run.seed, quiet=True)
    c02.r2(sub, src)
    n = 0
    for o in sub.obligations:
        if 'get_similar_second' in o['construct']:
            n += 1
            if o['verdict'] == 'holds':
                run.ok('C12.R4', o['construct'], o['fact'], loc=o['loc'])
    for f in sub.findings:
        if 'get_similar_second' in f['construct']:
            run.bad('C12.R4', f['construct'], f['sub'], f['message'], loc=f['loc'], facts=f['facts'])
    for e in sub.errors:
        run.errors.append(f'C12.R4 <- {e}')
    if n == 0:
        raise AnalysisError('C12.R4', 'Excel.get_similar_second was not analysed')
    from . import c02 as _c02s
    try:
        _c02s.similar_eval(run, 'C12.R4', src)
    except AnalysisError as e_:
        run.note(f'C12.R4: the SUMIF target as a linear expression ({e_.reason[:100]})')
        _similar_second_linear(run, src)


def _similar_second_linear(run: Run, src):
    """the last cell of the SUMIF target is base + (second - first), per axis, as a linear expression over the coordinates of the
    three cells: roles alone do not tell `base.row + rows` from `first.row + rows`"""
    from .common import normalized_method
    from ..roles import cell_field_order
    fi, fn = normalized_method(src, 'Excel', 'get_similar_second')
    ps = [p for p in fi.params if p not in ('self', 'cls')]
    if len(ps) != 3:
        raise AnalysisError('C12.R4', f'get_similar_second: unexpected signature {ps}')
    base, first, second = ps
    assigns = {}
    for n_ in ast.walk(fn):
        if isinstance(n_, ast.Assign) and len(n_.targets) == 1 and isinstance(n_.targets[0], ast.Name):
            assigns.setdefault(n_.targets[0].id, []).append(n_.value)

    def lin(e, depth=0):
        if depth > 8:
            return None
        if isinstance(e, ast.Attribute) and isinstance(e.value, ast.Name) and e.value.id in ps:
            return {(e.value.id, e.attr): 1}
        if isinstance(e, ast.Constant) and isinstance(e.value, int) and not isinstance(e.value, bool):
            return {1: e.value} if e.value else {}
        if isinstance(e, ast.Name) and len(assigns.get(e.id, [])) == 1:
            return lin(assigns[e.id][0], depth + 1)
        if isinstance(e, ast.BinOp) and isinstance(e.op, (ast.Add, ast.Sub)):
            a, b = lin(e.left, depth + 1), lin(e.right, depth + 1)
            if a is None or b is None:
                return None
            out = dict(a)
            for k, v in b.items():
                out[k] = out.get(k, 0) + (v if isinstance(e.op, ast.Add) else -v)
            return {k: v for k, v in out.items() if v}
        if isinstance(e, ast.IfExp):
            none_b = isinstance(e.body, ast.Constant) and e.body.value is None
            none_o = isinstance(e.orelse, ast.Constant) and e.orelse.value is None
            if none_o and not none_b:
                return lin(e.body, depth + 1)
            if none_b and not none_o:
                return lin(e.orelse, depth + 1)
            a, b = lin(e.body, depth + 1), lin(e.orelse, depth + 1)
            return a if a == b else None
        if isinstance(e, ast.Call) and isinstance(e.func, ast.Name) and e.func.id == 'int' and len(e.args) == 1:
            return lin(e.args[0], depth + 1)
        return None
    rets = [r for r in ast.walk(fn) if isinstance(r, ast.Return) and isinstance(r.value, ast.Call) and
            isinstance(r.value.func, ast.Name) and r.value.func.id == 'Cell']
    if not rets:
        raise AnalysisError('C12.R4', 'get_similar_second does not return a Cell(...) construction')
    fields = cell_field_order(src)
    for r in rets:
        args = dict(zip(fields, r.value.args))
        args.update({k.arg: k.value for k in r.value.keywords})
        for fld in ('column', 'row'):
            want = {(base, fld): 1, (second, fld): 1, (first, fld): -1}
            got = lin(args[fld]) if fld in args else None
            if got is None:
                raise AnalysisError('C12.R4', f'get_similar_second: the {fld} of the result is not a linear expression of the coordinates')

            def show(d):
                return ' '.join(('+' if v > 0 else '-') + (f'{k[0]}.{k[1]}' if isinstance(k, tuple) else str(abs(v))) for k, v in sorted(d.items(), key=str))
            run.check(got == want, 'C12.R4', f'Excel.get_similar_second/{fld}', 'target-shape',
                      f'the {fld} of the last target cell is `{show(got)}`; it must be `{show(want)}` (the target starts at its own first '
                      f'cell and has the shape of the criteria range)', fact=show(got), loc=loc_of(fi.module.path, r))


def run(run: Run):
    from .common import cached_guard as _cached_guard
    src = get_source()
    g = get_grammar(src)
    em = get_emission(src)
    rt = get_runtime(src)
    run.rule('C12.R1', 'the size check dominates the selection and compares flattened lengths; SUMIF bounds-checks its index')
    run.rule('C12.R2', 'one index aligns criterion and target; deselection exactly when the criterion rejects')
    run.rule('C12.R3', 'criterion prefixes, their Python operators, case folding of the text arm, whole-cell case-insensitive wildcards')
    run.rule('C12.R4', 'SUMIF target geometry: base + (end - start) per axis (shared with C02.R2)')
    run.rule('C12.R5', 'argument plumbing of SUMIF/SUMIFS/COUNTIFS/AVERAGEIFS equals the confirmed reference')
    run.rule('C12.R6', 'deselection sentinel: recognised by identity/type, never fed to a criterion')
    run.rule('C12.R7', 'wildcard -> regex conversion: homogeneous guarded runs, ? = n characters, * = any run, tilde consumed, metacharacters escaped')
    _cached_guard(run, 'C12.R1', helpers, rt)
    _cached_guard(run, 'C12.R3', r3, src, em)
    _cached_guard(run, 'C12.R4', r4, src)
    _cached_guard(run, 'C12.R5', check_plumbing, 'C12.R5', src, em, rt, FUNCS)
    _cached_guard(run, 'C12.R7', r7, rt)
    # a function result depends on its arguments only: no runtime helper keeps results or other state between calls
    from .common import borrow as _borrow
    from . import c08 as _c08
    from ..callgraph import get_callgraph as _gcg
    from ..source import get_source as _gs
    from ..runtime import get_runtime as _grt
    run.rule('C12.R8', 'runtime helpers are pure functions of their arguments: no write effects, no value cache (shared with C08.R1/R4)')
    _src = _gs()
    _borrow(run, 'C12.R8', _c08.r1, _src, _grt(_src), _gcg(_src))
    _borrow(run, 'C12.R8', _c08.r4, _src, _grt(_src))
    run.rule('C12.R9', 'a text literal is a wildcard pattern exactly when it has an unescaped ? or *')
    _cached_guard(run, 'C12.R9', r9_pattern_token_language, g)
    run.rule('C12.R10', 'the date reading of a criterion operand keeps a date-time as it is; numbers are not dates')
    _cached_guard(run, 'C12.R10', r10_date_operand, rt)
    run.floor('C12.R10', 10)
    run.floor('C12.R9', 18)
    run.floor('C12.R8', 50)
    run.floor('C12.R1', 12)
    run.floor('C12.R2', 20)
    run.floor('C12.R3', 15)
    run.floor('C12.R4', 1)
    run.floor('C12.R5', 4)
    run.floor('C12.R6', 4)
    run.floor('C12.R7', 12)
    from .common import shared_mechanisms as _shared
    _shared(run, 'C12', 11, ['stored-values', 'areas', 'addresses', 'no-value-specialisation'])
    from .common import shared_mechanisms as _shared_f
    _shared_f(run, 'C12', 15, ['formulas'])
    return INFO
