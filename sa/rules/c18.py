"""C18 -- the workbook is read at true coordinates, with true types and sizes (DESIGN 3/C18)."""
from __future__ import annotations

import ast

from ..core import Run, AnalysisError, loc_of
from ..source import get_source
from ..grammar import get_grammar
from ..runtime import get_runtime
from ..paths import parent_map, path_conditions
from ..roles import (RoleChecker, Role, Level, CellR, Sizes, Iter, TupleR, Num, BuiltList, Sheet, OCell, SHEET, ROW, COL,
                     cell_field_order)
from .common import borrow

INFO = {
    'explanation': (
        'R1: role analysis of the reader Excel.parse and of Excel.get_cells: position of a row in the rows iteration = 0-based ROW '
        'index = second level of the data, position of a cell in its row = 0-based COL index = third level; last_column receives a '
        'COL count, last_row a ROW count; get_cells re-enumerates the three levels into Cell(title, column, row). R2: the lists handed '
        'to the Excel constructor that are index-aligned per sheet (data, titles, sheets_size) are each appended exactly once per '
        'iteration of the same loop over the worksheets; per-sheet accumulators are (re)initialised inside that loop, workbook-wide '
        'accumulators before it. R3: constants are printed with repr() (blank as the blank object), the names repr() spells for every '
        'value type the reader can deliver are bound in the template namespace (datetime the module), array formulas are replaced '
        'by their text before storage. R4: a cell is a formula iff it is a str starting with "=". Trusted: openpyxl read-only '
        'iter_rows() after reset_dimensions() starts at A1 and pads missing rows/cells.'),
    'rule': 'one obligation per sink / list / accumulator / value type',
    'trusted': ['openpyxl read-only iter_rows() after reset_dimensions() starts at row 1 / column A and pads missing rows and cells'],
}


_reader_cache = {}


def _parse_fn(src):
    """Excel.parse in reader normal form: helpers of the class inlined (the suspicious-content test stays a call), appended
    comprehensions / conditional expressions desugared into loops / if-else, guard clauses nested"""
    import copy as _copy
    from ..inline import inline_methods, class_resolver, desugar, nest_guards, inline_class_constants
    if id(src) in _reader_cache:
        return _reader_cache[id(src)]
    ex = src.cls('Excel')
    fi = ex.methods.get('parse')
    if fi is None:
        raise AnalysisError('C18', 'Excel.parse not found')
    f2 = _copy.copy(fi)
    node = inline_methods(fi.node, class_resolver(src, ex, fi), depth=2, exclude={'_get_suspicious_constructions', '__init__'})
    f2.node = inline_class_constants(nest_guards(desugar(node)), ex.node, ex.name)
    _reader_cache[id(src)] = f2
    return f2


def _workbook_var(fi) -> str:
    """the local that holds the opened workbook (bound from load_workbook(...) / Workbook(...))"""
    for n in ast.walk(fi.node):
        if isinstance(n, ast.Assign) and len(n.targets) == 1 and isinstance(n.targets[0], ast.Name) and isinstance(n.value, ast.Call) and \
                ast.unparse(n.value.func).split('.')[-1] in ('load_workbook', 'Workbook'):
            return n.targets[0].id
        if isinstance(n, ast.With):
            for it in n.items:
                if isinstance(it.context_expr, ast.Call) and ast.unparse(it.context_expr.func).split('.')[-1] == 'load_workbook' and \
                        isinstance(it.optional_vars, ast.Name):
                    return it.optional_vars.id
    return 'wb'


def _sheet_loop(fi):
    loops = [n for n in fi.node.body if isinstance(n, ast.For)]
    cand = [l for l in loops if 'worksheets' in ast.unparse(l.iter) or 'sheetnames' in ast.unparse(l.iter) or
            ast.unparse(l.iter).endswith(_workbook_var(fi))]
    if len(cand) != 1:
        raise AnalysisError('C18', f'expected one top-level loop over the worksheets in Excel.parse, found {len(cand)}')
    return cand[0]


def r1_any(run: Run, src):
    return reader_rule(run, 'C18.R1', src, ('data', 'sizes'), r1, (src,))


def r2_any(run: Run, src):
    return reader_rule(run, 'C18.R2', src, ('titles', 'sizes'), r2, (src,))


def reader_rule(run: Run, rule: str, src, parts, fallback, fallback_args):
    """the reader obligations of `rule`, decided by evaluation of Excel.parse on a modelled workbook (rules/reader_eval.py); when
    the abstraction cannot follow the reader the structural reading `fallback` decides"""
    from .reader_eval import reader_obligations
    sub = Run('tmp', run.tier, run.seed, quiet=True)
    try:
        reader_obligations(sub, rule, src, parts)
    except AnalysisError as e:
        run.note(f'{rule}: reader evaluation skipped ({e.reason[:100]}); structural reading used')
        return fallback(run, *fallback_args)
    for o in sub.obligations:
        if o['verdict'] == 'holds':
            run.ok(rule, o['construct'], o['fact'], loc=o['loc'])
    for f in sub.findings:
        run.bad(rule, f['construct'], f['sub'], f['message'], loc=f['loc'])
    # get_cells re-enumerates the data: still read structurally (roles)
    if rule == 'C18.R1':
        _get_cells_roles(run, src)


def _get_cells_roles(run: Run, src):
    fields = cell_field_order(src)
    ex = src.cls('Excel')
    gc = ex.methods.get('get_cells')
    rc2 = RoleChecker(gc.node, {}, fields, self_attrs={'self._data': Level(SHEET)}, qual=gc.qualname)
    rc2.env[('call', 'fill_cell')] = lambda r, node, args, kwargs: args[0] if args else None
    rc2.run()
    for c in rc2.clashes:
        run.bad('C18.R1', 'Excel.get_cells', f'{c.kind}', c.msg, loc=loc_of(gc.module.path, c.node))
    if not rc2.clashes:
        if rc2.sinks < 1:
            raise AnalysisError('C18.R1', 'no Cell construction analysed in get_cells')
        run.ok('C18.R1', 'Excel.get_cells/roles', f'{rc2.sinks} sink(s): Cell(sheet index, column index, row index)',
               loc=loc_of(gc.module.path, gc.node))


def r1(run: Run, src):
    fields = cell_field_order(src)
    fi = _parse_fn(src)
    wbv = _workbook_var(fi)
    env = {wbv: None}
    rc = RoleChecker(fi.node, env, fields, qual=fi.qualname)
    # <workbook>.worksheets is the SHEET level of worksheet objects
    rc.self_attrs[f'{wbv}.worksheets'] = Level(SHEET, 'worksheet')
    rc.run()
    for c in rc.clashes:
        run.bad('C18.R1', 'Excel.parse', f'{c.kind}:{ast.unparse(c.node)[:40] if isinstance(c.node, ast.AST) else ""}', c.msg,
                loc=loc_of(fi.module.path, c.node))
    if not rc.clashes:
        run.ok('C18.R1', 'Excel.parse/roles', f'{rc.sinks} role sink(s) consistent', loc=loc_of(fi.module.path, fi.node))
    # size keys must have been seen with derivable roles
    dicts = [n for n in ast.walk(fi.node) if isinstance(n, ast.Dict) and
             {k.value for k in n.keys if isinstance(k, ast.Constant)} >= {'last_column', 'last_row'}]
    if len(dicts) != 1:
        raise AnalysisError('C18.R1', 'the per-sheet size record {last_column, last_row} was not found in Excel.parse')
    # the row list is appended once per cell of the row, the sheet list once per row
    sheet_loop = _sheet_loop(fi)
    row_loops = [n for n in ast.walk(sheet_loop) if isinstance(n, ast.For) and n is not sheet_loop and 'iter_rows' in ast.unparse(n.iter)]
    if len(row_loops) != 1:
        raise AnalysisError('C18.R1', 'the loop over worksheet.iter_rows() was not found')
    row_loop = row_loops[0]
    it = row_loop.iter
    plain = isinstance(it, ast.Call) and not it.args and not it.keywords
    run.check(plain, 'C18.R1', 'Excel.parse/iter_rows', 'restricted-iteration',
              f'rows are read with `{ast.unparse(it)[:60]}`: min/max bounds or values_only change which coordinate the n-th row / cell '
              f'stands for', fact='iter_rows() without bounds', loc=loc_of(fi.module.path, it))
    resets = [n for n in ast.walk(sheet_loop) if isinstance(n, ast.Call) and isinstance(n.func, ast.Attribute) and
              n.func.attr == 'reset_dimensions']
    if len(resets) == 1:
        from .common import flat_conditions
        pr_ = parent_map(fi.node)
        rc_ = [c for c in flat_conditions(path_conditions(fi.node, resets[0], pr_)) if any(c[0] is x for x in ast.walk(sheet_loop))]
        run.check(not rc_, 'C18.R1', 'Excel.parse/reset_dimensions/unconditional', 'conditional-reset',
                  f'reset_dimensions() only runs when `{" and ".join(("" if pol else "not ") + ast.unparse(t)[:60] for t, pol in rc_)}`: '
                  f'a dimension record that is present but understates the used area is then trusted and the rows / columns beyond it '
                  f'are never streamed', fact='reset for every worksheet', loc=loc_of(fi.module.path, resets[0]))
    from ..paths import executed_before, enclosing_stmt
    _pm = parent_map(fi.node)
    before_rows = executed_before(fi.node, row_loop, _pm)
    reset_first = len(resets) == 1 and any(enclosing_stmt(resets[0], _pm) is st_ or any(resets[0] is x for x in ast.walk(st_))
                                           for st_ in before_rows)
    run.check(reset_first, 'C18.R1', 'Excel.parse/reset_dimensions', 'no-reset',
              'reset_dimensions() is not called before the rows are read: a stale dimension record in the file shifts or truncates the '
              'streamed rows', fact='reset before reading', loc=loc_of(fi.module.path, sheet_loop))
    cell_loops = [n for n in ast.walk(row_loop) if isinstance(n, ast.For) and n is not row_loop and
                  any(isinstance(c, ast.Call) and isinstance(c.func, ast.Attribute) and c.func.attr == 'append' for c in ast.walk(n))]
    if len(cell_loops) != 1:
        raise AnalysisError('C18.R1', 'the loop over the cells of a row was not found')
    cell_loop = cell_loops[0]
    # exactly one append to the row list on every path through the cell loop body
    appends = [n for n in ast.walk(cell_loop) if isinstance(n, ast.Call) and isinstance(n.func, ast.Attribute) and n.func.attr == 'append']
    row_lists = {ast.unparse(a.func.value) for a in appends}
    run.check(len(row_lists) == 1, 'C18.R1', 'Excel.parse/row-list', 'several-row-lists', f'cells are appended to {sorted(row_lists)}',
              fact=f'one row list {sorted(row_lists)}', loc=loc_of(fi.module.path, cell_loop))
    if len(row_lists) == 1:
        rl = next(iter(row_lists))
        n_paths = _append_counts(cell_loop.body, rl)
        run.check(n_paths == {1}, 'C18.R1', 'Excel.parse/one-entry-per-cell', 'cell-skipped-or-doubled',
                  f'a path through the cell loop appends {sorted(n_paths)} entries to the row list: the position in the list no longer '
                  f'equals the column index', fact='exactly one entry per cell', loc=loc_of(fi.module.path, cell_loop))
        # the row list is fresh per row and appended once per row to the sheet list
        init_in_row = [s for s in row_loop.body if isinstance(s, ast.Assign) and ast.unparse(s.targets[0]) == rl and
                       isinstance(s.value, ast.List) and not s.value.elts]
        run.check(len(init_in_row) == 1 and row_loop.body.index(init_in_row[0]) < row_loop.body.index(cell_loop), 'C18.R1',
                  'Excel.parse/fresh-row-list', 'row-list-not-fresh', 'the row list is not re-created for every row',
                  fact='fresh list per row', loc=loc_of(fi.module.path, row_loop))
        sheet_appends = [s for s in row_loop.body if isinstance(s, ast.Expr) and isinstance(s.value, ast.Call) and
                         isinstance(s.value.func, ast.Attribute) and s.value.func.attr == 'append' and s.value.args and
                         ast.unparse(s.value.args[0]) == rl]
        run.check(len(sheet_appends) == 1, 'C18.R1', 'Excel.parse/one-entry-per-row', 'row-skipped-or-doubled',
                  'the row list is not appended exactly once per row (unconditionally) to the sheet data: an empty row that is '
                  'skipped shifts every later row', fact='one entry per row', loc=loc_of(fi.module.path, row_loop))
    # the data lists are append-only: an entry that is removed, replaced or filtered after it was read makes cells that the
    # workbook holds (0, FALSE and empty text are values) come out as blanks, or shifts later rows
    data_lists = set(row_lists)
    for s_ in ast.walk(sheet_loop):
        if isinstance(s_, ast.Call) and isinstance(s_.func, ast.Attribute) and s_.func.attr == 'append' and s_.args and \
                ast.unparse(s_.args[0]) in data_lists:
            data_lists.add(ast.unparse(s_.func.value))
    for s_ in ast.walk(fi.node):
        if isinstance(s_, ast.Call) and isinstance(s_.func, ast.Attribute) and s_.func.attr == 'append' and s_.args and \
                ast.unparse(s_.args[0]) in data_lists:
            data_lists.add(ast.unparse(s_.func.value))
    removers = []
    for n_ in ast.walk(fi.node):
        if isinstance(n_, ast.Call) and isinstance(n_.func, ast.Attribute) and ast.unparse(n_.func.value) in data_lists and \
                n_.func.attr in ('pop', 'remove', 'clear', 'insert', 'reverse', 'sort', 'extend'):
            removers.append(n_)
        if isinstance(n_, ast.Delete) and any(ast.unparse(getattr(t, 'value', t)) in data_lists for t in n_.targets):
            removers.append(n_)
        if isinstance(n_, (ast.Assign, ast.AugAssign)):
            tg = n_.targets if isinstance(n_, ast.Assign) else [n_.target]
            for t in tg:
                if isinstance(t, ast.Subscript) and ast.unparse(t.value) in data_lists:
                    removers.append(n_)
                if isinstance(t, ast.Name) and t.id in data_lists and not (isinstance(n_, ast.Assign) and isinstance(n_.value, ast.List)
                                                                            and not n_.value.elts):
                    removers.append(n_)
    for r_ in removers:
        run.bad('C18.R1', f'Excel.parse/{ast.unparse(r_)[:50]}', 'data-list-edited',
                f'`{ast.unparse(r_)[:80]}` removes, replaces or reorders entries of the data that was read: rows or cells the workbook '
                f'holds (a last row containing only 0, FALSE or empty text, for instance) are lost or shifted', loc=loc_of(fi.module.path, r_))
    if not removers:
        run.ok('C18.R1', 'Excel.parse/append-only', f'the data lists {sorted(data_lists)} are only appended to', loc=loc_of(fi.module.path, fi.node))
    # get_cells
    ex = src.cls('Excel')
    gc = ex.methods.get('get_cells')
    rc2 = RoleChecker(gc.node, {}, fields, self_attrs={'self._data': Level(SHEET)}, qual=gc.qualname)
    rc2.env[('call', 'fill_cell')] = lambda r, node, args, kwargs: args[0] if args else None
    rc2.run()
    for c in rc2.clashes:
        run.bad('C18.R1', 'Excel.get_cells', f'{c.kind}', c.msg, loc=loc_of(gc.module.path, c.node))
    if not rc2.clashes:
        if rc2.sinks < 1:
            raise AnalysisError('C18.R1', 'no Cell construction analysed in get_cells')
        run.ok('C18.R1', 'Excel.get_cells/roles', f'{rc2.sinks} sink(s): Cell(sheet index, column index, row index)',
               loc=loc_of(gc.module.path, gc.node))


def _append_counts(stmts, listname) -> set:
    """set of numbers of appends to listname over the paths through stmts (if/else only)"""
    counts = {0}
    for st in stmts:
        if isinstance(st, ast.If):
            a = _append_counts(st.body, listname)
            b = _append_counts(st.orelse, listname)
            here = a | b
        elif isinstance(st, (ast.For, ast.While)):
            inner = _append_counts(st.body, listname)
            here = {0} if inner == {0} else {0, 99}
        else:
            n = sum(1 for c in ast.walk(st) if isinstance(c, ast.Call) and isinstance(c.func, ast.Attribute) and
                    c.func.attr == 'append' and ast.unparse(c.func.value) == listname)
            here = {n}
        counts = {x + y for x in counts for y in here}
    return counts


def r2(run: Run, src):
    fi = _parse_fn(src)
    loop = _sheet_loop(fi)
    loc = loc_of(fi.module.path, loop)
    run.check(ast.unparse(loop.iter).endswith('.worksheets'), 'C18.R2', 'Excel.parse/sheet-loop', 'sheet-collection',
              f'the reader iterates `{ast.unparse(loop.iter)}`; cell data exists for worksheets only', fact='wb.worksheets', loc=loc)
    # the dict handed to the constructor
    ctor = [n for n in ast.walk(fi.node) if isinstance(n, ast.Call) and isinstance(n.func, ast.Name) and n.func.id == 'cls' and
            n.args and isinstance(n.args[0], ast.Dict)]
    if len(ctor) != 1:
        raise AnalysisError('C18.R2', 'the Excel(...) construction from a dict was not found in parse')
    d = ctor[0].args[0]
    entries = {k.value: v for k, v in zip(d.keys, d.values) if isinstance(k, ast.Constant)}
    aligned = ['data', 'titles', 'sheets_size']
    for key in aligned:
        if key not in entries:
            raise AnalysisError('C18.R2', f'the constructor dict has no {key!r} entry')
        v = entries[key]
        construct = f'Excel.parse/{key}'
        if not isinstance(v, ast.Name):
            run.bad('C18.R2', construct, 'not-from-the-sheet-loop',
                    f'{key!r} is `{ast.unparse(v)[:50]}`, not a list filled in the loop over the worksheets: it is index-aligned with '
                    f'the data only by accident (e.g. chartsheets appear in sheetnames but not in worksheets)',
                    loc=loc_of(fi.module.path, v))
            continue
        name = v.id
        inits = [s for s in fi.node.body if isinstance(s, ast.Assign) and ast.unparse(s.targets[0]) == name and
                 isinstance(s.value, ast.List) and not s.value.elts and s.lineno < loop.lineno]
        top = [s for s in loop.body if isinstance(s, ast.Expr) and isinstance(s.value, ast.Call) and
               isinstance(s.value.func, ast.Attribute) and s.value.func.attr == 'append' and ast.unparse(s.value.func.value) == name]
        all_app = [c for c in ast.walk(fi.node) if isinstance(c, ast.Call) and isinstance(c.func, ast.Attribute) and
                   c.func.attr in ('append', 'extend', 'insert') and ast.unparse(c.func.value) == name]
        ok = len(inits) == 1 and len(top) == 1 and len(all_app) == 1
        run.check(ok, 'C18.R2', construct, 'not-once-per-sheet',
                  f'{key!r} (`{name}`) is not an empty list that receives exactly one element per iteration of the worksheet loop '
                  f'({len(inits)} initialisation(s) before the loop, {len(top)} unconditional append(s) in the loop body, '
                  f'{len(all_app)} in total)', fact='one element per worksheet, same loop', loc=loc)
        if key == 'titles' and len(top) == 1:
            a = top[0].value.args[0]
            run.check(ast.unparse(a) == f'{ast.unparse(loop.target)}.title', 'C18.R2', 'Excel.parse/titles-element', 'title-source',
                      f'the title list receives `{ast.unparse(a)[:40]}`', fact='worksheet.title', loc=loc_of(fi.module.path, a))
    # accumulators: per-sheet ones are initialised inside the loop, workbook-wide ones before it
    stored_in_loop = {}
    for n in ast.walk(loop):
        if isinstance(n, ast.Assign) and isinstance(n.targets[0], ast.Name):
            stored_in_loop.setdefault(n.targets[0].id, []).append(n)
        if isinstance(n, ast.NamedExpr):
            stored_in_loop.setdefault(n.target.id, []).append(n)
    final_names = {x.id for v in entries.values() for x in ast.walk(v) if isinstance(x, ast.Name)}
    for name in sorted(final_names):
        if name in (_workbook_var(fi), 'cls'):
            continue
        reinit = [s for s in stored_in_loop.get(name, [])]
        run.check(not reinit, 'C18.R2', f'Excel.parse/workbook-accumulator `{name}`', 'reset-per-sheet',
                  f'`{name}` is handed to the Excel object for the whole workbook but is re-assigned inside the worksheet loop: only '
                  f'the last sheet\'s content survives', fact='initialised before the loop only', loc=loc)
    # per-sheet values: names used in the elements appended once per sheet that are updated in inner loops
    per_sheet_used = set()
    for s in loop.body:
        if isinstance(s, ast.Expr) and isinstance(s.value, ast.Call) and isinstance(s.value.func, ast.Attribute) and \
                s.value.func.attr == 'append' and ast.unparse(s.value.func.value) in {v.id for v in entries.values() if isinstance(v, ast.Name)}:
            per_sheet_used |= {x.id for x in ast.walk(s.value.args[0]) if isinstance(x, ast.Name)}
    inner_updated = set()
    for n in ast.walk(loop):
        if isinstance(n, ast.For) and n is not loop:
            for m in ast.walk(n):
                if isinstance(m, (ast.Assign, ast.AugAssign)):
                    t = m.targets[0] if isinstance(m, ast.Assign) else m.target
                    if isinstance(t, ast.Name):
                        inner_updated.add(t.id)
                if isinstance(m, ast.Call) and isinstance(m.func, ast.Attribute) and m.func.attr == 'append' and \
                        isinstance(m.func.value, ast.Name):
                    inner_updated.add(m.func.value.id)
    for name in sorted(per_sheet_used & inner_updated):
        first_inner = min((n.lineno for n in loop.body if isinstance(n, ast.For)), default=10 ** 9)
        init_here = [s for s in loop.body if isinstance(s, ast.Assign) and isinstance(s.targets[0], ast.Name) and
                     s.targets[0].id == name and s.lineno < first_inner]
        run.check(len(init_here) == 1, 'C18.R2', f'Excel.parse/per-sheet-accumulator `{name}`', 'not-reset-per-sheet',
                  f'`{name}` is accumulated while reading a sheet and recorded per sheet, but it is not re-initialised at the top of '
                  f'the worksheet loop: values leak from one sheet into the next', fact='initialised per sheet', loc=loc)
    # the constructor zips titles with their index
    init = src.cls('Excel').methods.get('__init__')
    txt = ast.unparse(init.node)
    ok = "worksheets['titles']" in txt and ('zip(' in txt or 'enumerate(' in txt)
    run.check(ok, 'C18.R2', 'Excel.__init__/title-map', 'title-map', 'the title map is not built by pairing each title with its position',
              fact='title -> position in the titles list', loc=loc_of(init.module.path, init.node))


def r3(run: Run, src, rt):
    from . import c07
    g = get_grammar(src)
    borrow(run, 'C18.R3', c07.r1_constants, src, g)
    # names spelled by repr() of the value types the reader delivers
    tmpl = rt.template
    need = {'datetime.datetime': 'datetime', 'datetime.date': 'datetime', 'datetime.time': 'datetime', 'datetime.timedelta': 'datetime'}
    for spelled, name in need.items():
        b = tmpl.imports.get(name)
        run.check(b == ('datetime', None), 'C18.R3', f'template namespace/{spelled}', 'repr-name-unbound',
                  f'repr() of a stored {spelled.split(".")[1]} spells `{spelled}(...)`, but in the generated module `{name}` is bound '
                  f'to {b}: a constant of that type does not evaluate', fact=f'{name} is the module', loc=tmpl.path)
    # array formulas are replaced by their text before storage: decided by the evaluated reader (the model workbook holds one)
    from .reader_eval import reader_obligations
    sub_ = Run('tmp', run.tier, run.seed, quiet=True)
    try:
        reader_obligations(sub_, 'C18.R3', src, ('data',))
        for o_ in sub_.obligations:
            if o_['verdict'] == 'holds':
                run.ok('C18.R3', o_['construct'], o_['fact'], loc=o_['loc'])
        for f_ in sub_.findings:
            run.bad('C18.R3', f_['construct'], f_['sub'], f_['message'], loc=f_['loc'])
        return
    except AnalysisError as e_:
        run.note(f'C18.R3: reader evaluation skipped ({e_.reason[:100]})')
    fi = _parse_fn(src)
    loop = _sheet_loop(fi)
    parents = parent_map(fi.node)
    appends = [n for n in ast.walk(loop) if isinstance(n, ast.Call) and isinstance(n.func, ast.Attribute) and n.func.attr == 'append'
               and n.args and any(isinstance(x, ast.Attribute) and x.attr in ('value', 'text') for x in ast.walk(n.args[0]))]
    raw = [a for a in appends if ast.unparse(a.args[0]).endswith('.value')]
    if not raw and not appends:
        # value stored through a local variable
        names = [n for n in ast.walk(loop) if isinstance(n, ast.Call) and isinstance(n.func, ast.Attribute) and n.func.attr == 'append'
                 and n.args and isinstance(n.args[0], ast.Name)]
        cand = []
        for a in names:
            v = a.args[0].id
            defs = [s for s in ast.walk(loop) if isinstance(s, ast.Assign) and isinstance(s.targets[0], ast.Name) and s.targets[0].id == v]
            if any('ArrayFormula' in ast.unparse(s) or '.text' in ast.unparse(s) for s in defs) or \
                    any(isinstance(p, ast.If) and 'ArrayFormula' in ast.unparse(p.test) for s in defs for p in [parents.get(s)]):
                cand.append(a)
        if cand:
            run.ok('C18.R3', 'Excel.parse/array-formula', 'the stored value is taken from a variable that unwraps ArrayFormula',
                   loc=loc_of(fi.module.path, cand[0]))
            return
        raise AnalysisError('C18.R3', 'the statement that stores a cell value was not found')
    from .common import flat_conditions
    for a in raw:
        conds = flat_conditions(path_conditions(fi.node, a, parents))
        ok = any('ArrayFormula' in ast.unparse(t) and 'isinstance' in ast.unparse(t) and pol is False for t, pol in conds)
        run.check(ok, 'C18.R3', f'Excel.parse/`{ast.unparse(a)[:40]}`', 'array-formula-object-stored',
                  'the raw cell value is stored on a path where it may be an ArrayFormula object: its repr() (with a memory '
                  'address) becomes the cell\'s code instead of the formula text', fact='only non-ArrayFormula values stored raw',
                  loc=loc_of(fi.module.path, a))
    unwrap = [a for a in appends if '.text' in ast.unparse(a.args[0])]
    for a in unwrap:
        conds = flat_conditions(path_conditions(fi.node, a, parents))
        ok = any('ArrayFormula' in ast.unparse(t) and pol is True for t, pol in conds)
        run.check(ok, 'C18.R3', f'Excel.parse/`{ast.unparse(a)[:40]}`', 'text-of-non-array',
                  '.text is read from a value that is not known to be an ArrayFormula', fact='guarded by isinstance', loc=loc_of(fi.module.path, a))
    if not unwrap:
        run.bad('C18.R3', 'Excel.parse/array-formula', 'never-unwrapped', 'array formulas are never replaced by their formula text',
                loc=loc_of(fi.module.path, loop))


def r4(run: Run, src):
    from .common import normalized_method, flat_conditions
    fi, fn = normalized_method(src, 'CellTranslator', '_set_cell_to_context')
    parents = parent_map(fn)
    cellp = [p for p in fi.params if p not in ('cls', 'self')][0]
    lex = [n for n in ast.walk(fn) if isinstance(n, ast.Call) and ast.unparse(n.func) in ('Lexer.parse',)]
    if len(lex) != 1:
        raise AnalysisError('C18.R4', 'the formula branch (Lexer.parse) in CellTranslator was not found')
    conds = flat_conditions(path_conditions(fn, lex[0], parents))
    # conditions under which a cell text is lexed as a formula, apart from the "not translated yet" memo test
    own = [(t, pol) for t, pol in conds if 'get_cell' not in ast.unparse(t) and 'has_handled' not in ast.unparse(t)]

    def assignments(name):
        return [n.value for n in ast.walk(fn) if isinstance(n, ast.Assign) and any(isinstance(t, ast.Name) and t.id == name for t in n.targets)] + \
               [n.value for n in ast.walk(fn) if isinstance(n, ast.NamedExpr) and n.target.id == name]

    def is_text(e, depth=0):
        """e denotes the stored cell value itself (cell.value, or a local that only ever names it)"""
        if isinstance(e, ast.Attribute) and e.attr == 'value' and isinstance(e.value, ast.Name) and e.value.id == cellp:
            return True
        if isinstance(e, ast.Name) and depth < 4:
            ds = assignments(e.id)
            return bool(ds) and all(is_text(d, depth + 1) for d in ds)
        return False

    def kind(t, pol):
        """'str' / 'starts' / 'implied' / None for one atomic condition"""
        if isinstance(t, ast.Call) and isinstance(t.func, ast.Name) and t.func.id == 'isinstance' and len(t.args) == 2 and \
                is_text(t.args[0]) and ast.unparse(t.args[1]) == 'str':
            return 'str' if pol else None
        if isinstance(t, ast.Call) and isinstance(t.func, ast.Attribute) and t.func.attr == 'startswith' and is_text(t.func.value) and \
                len(t.args) == 1 and isinstance(t.args[0], ast.Constant) and t.args[0].value == '=':
            return 'starts' if pol else None
        if isinstance(t, ast.Compare) and len(t.ops) == 1 and isinstance(t.ops[0], ast.Eq) and pol:
            l, r = t.left, t.comparators[0]
            if isinstance(l, ast.Call) and isinstance(l.func, ast.Attribute) and l.func.attr in ('find', 'index') and is_text(l.func.value) and \
                    len(l.args) == 1 and isinstance(l.args[0], ast.Constant) and l.args[0].value == '=' and \
                    isinstance(r, ast.Constant) and r.value == 0:
                return 'starts'
            if isinstance(l, ast.Subscript) and is_text(l.value) and isinstance(r, ast.Constant) and r.value == '=':
                sl = l.slice
                if isinstance(sl, ast.Constant) and sl.value == 0:
                    return 'starts'
                if isinstance(sl, ast.Slice) and sl.lower is None and isinstance(sl.upper, ast.Constant) and sl.upper.value == 1 and sl.step is None:
                    return 'starts'
        # further conjuncts are harmless when a str that starts with "=" always satisfies them (not None, non-empty, truthy)
        if is_text(t) and pol:
            return 'implied'
        if isinstance(t, ast.Compare) and len(t.ops) == 1 and is_text(t.left):
            r, op = t.comparators[0], t.ops[0]
            if isinstance(r, ast.Constant) and r.value is None and (isinstance(op, ast.IsNot) and pol or isinstance(op, ast.Is) and not pol):
                return 'implied'
            if isinstance(r, ast.Constant) and r.value == '' and (isinstance(op, ast.NotEq) and pol or isinstance(op, ast.Eq) and not pol):
                return 'implied'
        return None
    kinds = [(kind(t, pol), t, pol) for t, pol in own]
    shown = ' and '.join(('' if pol else 'not ') + ast.unparse(t) for _, t, pol in kinds)
    is_str = any(k == 'str' for k, _, _ in kinds)
    starts = any(k == 'starts' for k, _, _ in kinds)
    extra = [(t, pol) for k, t, pol in kinds if k is None]
    run.check(is_str and starts and not extra, 'C18.R4', 'CellTranslator/formula-test', 'formula-test',
              f'a cell is treated as a formula when `{shown[:100]}`; expected: the stored value is a str and its first character is "="',
              fact=shown[:80], loc=loc_of(fi.module.path, lex[0]))
    # what is lexed is the stored text itself
    arg = lex[0].args[0] if lex[0].args else None
    run.check(arg is not None and is_text(arg), 'C18.R4', 'CellTranslator/lexed-text', 'lexed-text',
              f'the lexer receives `{ast.unparse(arg)[:60] if arg is not None else "?"}`, not the stored text of the cell',
              fact='Lexer.parse(cell.value, ...)', loc=loc_of(fi.module.path, lex[0]))


def run(run: Run):
    from .common import cached_guard as _cached_guard
    src = get_source()
    rt = get_runtime(src)
    run.rule('C18.R1', 'reader roles: enumeration index = coordinate, one entry per cell/row, size keys, get_cells')
    run.rule('C18.R2', 'index-aligned lists share one loop; accumulators are initialised at the right level')
    run.rule('C18.R3', 'constants survive repr(); array formulas stored as text')
    run.rule('C18.R4', 'formula test: str starting with "="')
    _cached_guard(run, 'C18.R1', r1_any, src)
    _cached_guard(run, 'C18.R2', r2_any, src)
    _cached_guard(run, 'C18.R3', r3, src, rt)
    _cached_guard(run, 'C18.R4', r4, src)
    from .common import check_per_instance_state
    from . import c02
    run.rule('C18.R5', 'titles and sizes reported by an instance are its own (no class-level mutable state handed out or changed)')
    _cached_guard(run, 'C18.R5', check_per_instance_state, 'C18.R5', rt)
    run.floor('C18.R5', 6)
    from . import c08
    from ..callgraph import get_callgraph
    run.rule('C18.R7', 'what is read back is the data of the class in force: no value is kept between queries (shared with C08.R1/R4)')
    borrow(run, 'C18.R7', c08.r1, src, rt, get_callgraph(src))
    borrow(run, 'C18.R7', c08.r4, src, rt)
    run.floor('C18.R7', 50)
    run.rule('C18.R6', 'a sheet is addressed by its title through the title table only (shared with C02.R3)')
    borrow(run, 'C18.R6', c02.r3_both, src)
    run.floor('C18.R6', 2)
    run.floor('C18.R1', 5)
    run.floor('C18.R2', 2)
    run.floor('C18.R3', 7)
    run.floor('C18.R4', 2)
    from .common import shared_mechanisms as _shared
    _shared(run, 'C18', 8, ['addresses'])
    from .common import shared_mechanisms as _shared_g
    _shared_g(run, 'C18', 9, ['facade'])
    return INFO
