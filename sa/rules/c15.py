"""C15 -- date functions (DESIGN 3/C15).

The calendar arithmetic itself (month lengths, leap years, relativedelta's clamping) is NOT decided: no static argument in
reach bounds it, it is trusted to datetime / calendar / dateutil.  Decided are the clauses of the statement that are choices of
primitive, table, sign, orientation or affine offset, and the integer formulas of DATEDIF's M / Y / YM units, which touch
their inputs only through .year/.month/.day, integer arithmetic and comparisons and are therefore evaluated exhaustively over
the finite domain months x months x day order x year difference.
"""
from __future__ import annotations

import ast

from ..core import Run, AnalysisError, loc_of
from ..source import get_source
from ..grammar import get_grammar
from ..emission import get_emission
from ..runtime import get_runtime, may_complete_normally
from ..finite import evaluator_for, Evaluator, AV, Unknown, AbsRaise, const_av, truth, _Ret
from ..paths import parent_map, path_conditions
from .common import check_plumbing

INFO = {
    'explanation': (
        'Decided: R1 argument plumbing of DATE/YEAR/MONTH/DAY/EDATE/EOMONTH/DATEDIF/NETWORKDAYS/TODAY equals the hand-confirmed '
        'reference. R2 _year/_month/_day return the attribute of that name of their argument. R3 DATEDIF: a reversed interval is '
        'an error value; unit D is the day count of end - start; units M, Y, YM are evaluated exhaustively over start/end month '
        '1..12 x day order (<,=,>) x year difference 0..2 against "complete months", "complete months // 12", "complete months % 12" '
        '(the bodies use only .year/.month/.day, integer arithmetic and comparisons, so this finite domain is exhaustive; a year '
        'count obtained by dividing a day count is reported as not calendar-exact); unknown units give an error value. R4 '
        'NETWORKDAYS: the counting condition evaluated over weekday 0..6 x holiday yes/no counts exactly Monday-Friday non-holidays; '
        'the counter changes only by +1 under that condition; the day loop admits both endpoints and steps one day; the sign is '
        '+1 on the ordered and -1 on the swapped branch; holidays are compared as dates with dates. R5 TODAY derives from the '
        'local calendar date with the time set to midnight. R6 EOMONTH takes calendar.monthrange(year, month)[1] with year and '
        'month of the SAME shifted date and builds the result from them; EDATE/EOMONTH shift by relativedelta(months=trunc(n)). '
        'R7 DATE: the year window (0..1899 -> +1900, <0 or >9999 -> #NUM!) evaluated over boundary years; January 1st plus '
        'relativedelta(months=month-1); the day offset is day-1 on every path. NOT decided: the calendar arithmetic of '
        'datetime/dateutil, text-to-number conversions of the arguments.'),
    'rule': 'one obligation per plumbing form / helper / (unit, domain point class) / (weekday, holiday) / boundary year / offset path',
    'trusted': ['datetime, calendar.monthrange, dateutil.relativedelta (clamping to the last day of the month)',
                'datetime.date.weekday(): Monday = 0'],
}

FUNCS = ['DATE', 'YEAR', 'MONTH', 'DAY', 'EDATE', 'EOMONTH', 'DATEDIF', 'NETWORKDAYS', 'TODAY']
ERRS = ('#NUM!', '#VALUE!', '#N/A', '#DIV/0!', '#REF!', '#NAME?', '#NULL!')


def _params(fn):
    return [a.arg for a in fn.args.posonlyargs + fn.args.args if a.arg not in ('self', 'cls')]


def _is_err(av: AV) -> bool:
    return av.kind == 'str' and isinstance(av.val, str) and av.val in ERRS


# ---------------------------------------------------------------------------------------------------
def r2(run: Run, rt):
    for cp in rt.copies():
        for h, attr in (('_year', 'year'), ('_month', 'month'), ('_day', 'day')):
            fn = cp.members.get(h)
            if fn is None:
                run.bad('C15.R2', f'{h}[{cp.label}]', 'missing', f'helper {h} is missing', loc=cp.path)
                continue
            ps = _params(fn)
            rets = [n for n in ast.walk(fn) if isinstance(n, ast.Return)]
            ok = bool(ps) and bool(rets) and all(isinstance(r.value, ast.Attribute) and r.value.attr == attr and
                                                 isinstance(r.value.value, ast.Name) and r.value.value.id == ps[0] for r in rets)
            got = ast.unparse(rets[0].value) if rets and rets[0].value is not None else '?'
            run.check(ok, 'C15.R2', f'{h}[{cp.label}]', 'wrong-field',
                      f'{h} returns `{got}`; {attr.upper()} must return the {attr} of its argument (inverse of DATE)',
                      fact=f'returns .{attr} of the argument', loc=cp.loc(fn))


# ---------------------------------------------------------------------------------------------------
def _dt(y, m, d):
    return AV('datetime', val=('ymd', y, m, d))


def _months(s, e):
    m = 12 * (e[0] - s[0]) + (e[1] - s[1])
    if e[2] < s[2]:
        m -= 1
    return m


def r3(run: Run, rt):
    for cp in rt.copies():
        fn = cp.members.get('_datedif')
        if fn is None:
            run.bad('C15.R3', f'_datedif[{cp.label}]', 'missing', 'helper _datedif is missing', loc=cp.path)
            continue
        ps = _params(fn)
        if len(ps) < 3:
            raise AnalysisError('C15.R3', '_datedif: expected (start, end, unit)')
        matches = [n for n in ast.walk(fn) if isinstance(n, ast.Match) and isinstance(n.subject, ast.Name) and n.subject.id == ps[2]]
        units = {}
        if len(matches) == 1:
            for case in matches[0].cases:
                if isinstance(case.pattern, ast.MatchValue) and isinstance(case.pattern.value, ast.Constant):
                    units[case.pattern.value.value] = case
        ev0 = Evaluator(cp.members)
        # reversed interval
        try:
            got = ev0.call_method('_datedif', [_dt(2001, 5, 10), _dt(2001, 4, 10), const_av('D')])
            run.check(_is_err(got), 'C15.R3', f'_datedif[{cp.label}]/reversed', 'reversed-not-error',
                      f'DATEDIF with start after end returns {got!r}, not an error value', fact=f'{got.val}', loc=cp.loc(fn))
        except (Unknown, AbsRaise) as u:
            raise AnalysisError('C15.R3', f'_datedif on a reversed interval: {u}')
        # non-dates
        try:
            got = ev0.call_method('_datedif', [AV('str', text='other'), _dt(2001, 4, 10), const_av('D')])
            run.check(_is_err(got), 'C15.R3', f'_datedif[{cp.label}]/non-date', 'non-date-not-error',
                      f'DATEDIF of a text returns {got!r}, not an error value', fact=f'{got.val}', loc=cp.loc(fn))
        except (Unknown, AbsRaise) as u:
            raise AnalysisError('C15.R3', f'_datedif on a text: {u}')
        # unknown unit
        try:
            got = ev0.call_method('_datedif', [_dt(2001, 4, 10), _dt(2001, 5, 10), const_av('Q')])
            run.check(_is_err(got), 'C15.R3', f'_datedif[{cp.label}]/unknown-unit', 'unknown-unit-not-error',
                      f'DATEDIF with an unknown unit returns {got!r}, not an error value', fact=f'{got.val}', loc=cp.loc(fn))
        except (Unknown, AbsRaise) as u:
            raise AnalysisError('C15.R3', f'_datedif with an unknown unit: {u}')
        # unit D: .days of (end - start)
        case = units.get('D')
        if case is None:
            run.bad('C15.R3', f'_datedif[{cp.label}]/unit D', 'unit-missing', 'DATEDIF has no case for the unit "D"', loc=cp.loc(fn))
        else:
            rets = [n for n in ast.walk(ast.Module(body=case.body, type_ignores=[])) if isinstance(n, ast.Return)]
            ok = len(rets) == 1 and isinstance(rets[0].value, ast.Attribute) and rets[0].value.attr == 'days' and \
                isinstance(rets[0].value.value, ast.BinOp) and isinstance(rets[0].value.value.op, ast.Sub) and \
                ast.unparse(rets[0].value.value.left) == ps[1] and ast.unparse(rets[0].value.value.right) == ps[0]
            run.check(ok, 'C15.R3', f'_datedif[{cp.label}]/unit D', 'unit-D',
                      f'unit "D" returns `{ast.unparse(rets[0].value) if rets else "?"}`, not the day count of end - start',
                      fact='(end - start).days', loc=cp.loc(case.pattern))
        rd_units = set()
        # units M, Y, YM over the finite domain
        for unit, spec in (('M', lambda m: m), ('Y', lambda m: m // 12), ('YM', lambda m: m % 12)):
            case = units.get(unit)
            if case is None:
                run.bad('C15.R3', f'_datedif[{cp.label}]/unit {unit}', 'unit-missing', f'DATEDIF has no case for the unit "{unit}"',
                        loc=cp.loc(fn))
                continue
            # a year/month count obtained by dividing a day count cannot be calendar-exact (years and months differ in length)
            approx = [n for n in ast.walk(ast.Module(body=case.body, type_ignores=[])) if isinstance(n, ast.BinOp) and
                      isinstance(n.op, (ast.FloorDiv, ast.Div, ast.Mod)) and
                      any(isinstance(x, ast.Attribute) and x.attr in ('days', 'total_seconds') for x in ast.walk(n.left))]
            rd_diff = [n for n in ast.walk(ast.Module(body=case.body, type_ignores=[])) if isinstance(n, ast.Call) and
                       ast.unparse(n.func).endswith('relativedelta') and (len(n.args) >= 2 or {k.arg for k in n.keywords} & {'dt1', 'dt2'})]
            if rd_diff:
                run.bad('C15.R3', f'_datedif/unit {unit}', 'from-relativedelta-difference',
                        f'unit "{unit}" is computed from `{ast.unparse(rd_diff[0])[:70]}`: the difference of two dates as a relativedelta '
                        f'is normalised against month ends (31 January .. 28 February counts as one whole month, 29 Feb 2020 .. 28 Feb '
                        f'2021 as a whole year), which is not "complete months": the end day-of-month has to reach the start '
                        f'day-of-month', loc=cp.loc(rd_diff[0]))
                rd_units.add(unit)
                continue
            if approx:
                run.bad('C15.R3', f'_datedif/unit {unit}', 'from-day-count',
                        f'unit "{unit}" is computed as `{ast.unparse(approx[0])[:90]}`: a count of {"years" if unit == "Y" else "months"} '
                        f'obtained by dividing a number of days is not calendar-exact (years differ in length)', loc=cp.loc(approx[0]))
                continue
            n_ok, first_bad = 0, None
            derived = False
            points = [((2001, sm, sd), (2001 + dy, em, ed)) for sm in range(1, 13) for em in range(1, 13)
                      for sd, ed in ((10, 20), (15, 15), (20, 10)) for dy in (0, 1, 2)]
            for s, e in points:
                if s > e:
                    continue
                ev = Evaluator(cp.members)
                try:
                    got = ev.call_method('_datedif', [_dt(*s), _dt(*e), const_av(unit)])
                except Unknown as u:
                    if rd_units:
                        derived = True        # derives from a unit that is already reported (relativedelta difference)
                        break
                    raise AnalysisError('C15.R3', f'unit {unit}: the body is outside the modelled integer/field subset: {u}')
                except AbsRaise as r:
                    got = AV('other', val=('raise', r.exc))
                want = spec(_months(s, e))
                if got.kind == 'int' and got.val == want:
                    n_ok += 1
                elif first_bad is None:
                    first_bad = (s, e, got, want)
            if derived:
                continue
            construct = f'_datedif[{cp.label}]/unit {unit}'
            if first_bad is None:
                run.ok('C15.R3', construct, f'{n_ok} (start month, end month, day order, year difference) classes agree', loc=cp.loc(case.pattern))
            else:
                s, e, got, want = first_bad
                run.bad('C15.R3', f'_datedif/unit {unit}', 'formula',
                        f'unit "{unit}" of {s[0]}-{s[1]:02d}-{s[2]:02d} .. {e[0]}-{e[1]:02d}-{e[2]:02d} evaluates to '
                        f'{got.val if got.val is not None else got!r}; the complete '
                        f'{"months" if unit == "M" else "years" if unit == "Y" else "months beyond whole years"} are {want}',
                        loc=cp.loc(case.pattern), facts={'agreeing_classes': n_ok})


# ---------------------------------------------------------------------------------------------------
def r4_eval(run: Run, rt):
    """NETWORKDAYS decided by abstract evaluation (engine F): days are carried as day numbers whose weekday is known (day 0 is a
    Monday); the count of Monday-Friday dates of the inclusive interval minus the listed holidays, negated when reversed"""
    from ..finite import evaluator_for, Evaluator, AV, const_av, Unknown, AbsRaise

    def dt(n):
        return AV('datetime', val=('day', n))
    text, none = AV('str', text='other', val='x'), const_av(None)
    # (start, end, holidays, expected, what)
    hol = AV('list', items=(AV('list', items=(dt(2), dt(5), text)), none, AV('list', items=(dt(9), dt(30)))))
    cases = [(0, 13, None, 10, 'two full weeks'), (0, 0, None, 1, 'a single Monday'), (5, 6, None, 0, 'a weekend only'),
             (4, 7, None, 2, 'Friday to Monday'), (13, 0, None, -10, 'reversed interval'),
             (0, 13, hol, 8, 'holidays on a Wednesday, a Saturday, a second-week Wednesday and outside the interval'),
             (13, 0, hol, -8, 'reversed interval with the same holidays'), (0, 13, AV('list', items=()), 10, 'empty holiday list'),
             (2, 2, AV('list', items=(AV('list', items=(dt(2),)),)), 0, 'the only day is a holiday')]
    for cp in rt.copies():
        fn = cp.members.get('_network_days')
        if fn is None:
            continue
        for a_, b_, h_, want, what in cases:
            ev = evaluator_for(cp, max_depth=8)
            args = [dt(a_), dt(b_)] + ([h_] if h_ is not None else [])
            construct = f'_network_days[{cp.label}]/{what}'
            try:
                res = ev.call_method('_network_days', args)
            except Unknown as u:
                raise AnalysisError('C15.R4', f'{construct}: the abstraction cannot follow the helper ({u})')
            except AbsRaise as r_:
                run.bad('C15.R4', construct, f'raises:{r_.exc}', f'_network_days raises {r_.exc} ({what})', loc=cp.loc(fn))
                continue
            run.check(res.val == want, 'C15.R4', construct, 'workday-count',
                      f'NETWORKDAYS from day {a_} to day {b_} (day 0 is a Monday; {what}) gives {res.val!r}; the Monday-Friday dates '
                      f'of the inclusive interval minus the listed holidays that fall on them are {want}', fact=f'-> {res.val!r}',
                      loc=cp.loc(fn))


def r4(run: Run, rt):
    for cp in rt.copies():
        fn = cp.members.get('_network_days')
        if fn is None:
            run.bad('C15.R4', f'_network_days[{cp.label}]', 'missing', 'helper _network_days is missing', loc=cp.path)
            continue
        parents = parent_map(fn)
        ps = _params(fn)
        # whatever the shape of the counting: a number of holidays that is SUBTRACTED from the count must only contain holidays
        # that are Monday-Friday dates (a holiday on a weekend was never counted, so it must not be taken off)
        if len(ps) >= 3:
            tainted = {ps[2]}
            changed = True
            while changed:
                changed = False
                for n in ast.walk(fn):
                    tg, val = None, None
                    if isinstance(n, ast.Assign):
                        tg, val = n.targets, n.value
                    elif isinstance(n, ast.AugAssign):
                        tg, val = [n.target], n.value
                    elif isinstance(n, ast.For):
                        tg, val = [n.target], n.iter
                    elif isinstance(n, ast.comprehension):
                        tg, val = [n.target], n.iter
                    if tg is None:
                        continue
                    if {x.id for x in ast.walk(val) if isinstance(x, ast.Name)} & tainted:
                        for t in tg:
                            for x in ast.walk(t):
                                if isinstance(x, ast.Name) and x.id not in tainted:
                                    tainted.add(x.id)
                                    changed = True
                    if isinstance(n, ast.Expr):
                        pass
                for n in ast.walk(fn):      # collection.update(tainted) / .add / .append / +=
                    if isinstance(n, ast.Call) and isinstance(n.func, ast.Attribute) and n.func.attr in ('update', 'add', 'append', 'extend') \
                            and isinstance(n.func.value, ast.Name) and n.func.value.id not in tainted and \
                            {x.id for a in n.args for x in ast.walk(a) if isinstance(x, ast.Name)} & tainted:
                        tainted.add(n.func.value.id)
                        changed = True
            subs = []
            for n in ast.walk(fn):
                if isinstance(n, ast.AugAssign) and isinstance(n.op, ast.Sub):
                    subs.append((n, n.value))
                elif isinstance(n, ast.BinOp) and isinstance(n.op, ast.Sub):
                    subs.append((n, n.right))
            for node, val in subs:
                names = {x.id for x in ast.walk(val) if isinstance(x, ast.Name)}
                if not (names & (tainted - {ps[2]}) or ps[2] in names):
                    continue
                if not any(isinstance(c, ast.Call) and isinstance(c.func, ast.Name) and c.func.id in ('len', 'sum') for c in ast.walk(val)):
                    continue
                wd = any(isinstance(c, ast.Call) and isinstance(c.func, ast.Attribute) and c.func.attr in ('weekday', 'isoweekday')
                         for c in ast.walk(val))
                if not wd:
                    run.bad('C15.R4', f'_network_days/{ast.unparse(node)[:50]}', 'holiday-subtracted-without-weekday-test',
                            f'`{ast.unparse(node)[:100]}` takes a number of listed holidays off the count without testing that each of them '
                            f'is a Monday-Friday date: a holiday that falls on a Saturday or Sunday was never counted and is subtracted all '
                            f'the same', loc=cp.loc(node))
        loops = [n for n in ast.walk(fn) if isinstance(n, ast.While)]
        if len(loops) != 1:
            raise AnalysisError('C15.R4', f'_network_days: expected one day loop, found {len(loops)}')
        loop = loops[0]
        # loop guard: cur <= end
        t = loop.test
        if not (isinstance(t, ast.Compare) and len(t.ops) == 1 and isinstance(t.left, ast.Name) and isinstance(t.comparators[0], ast.Name)):
            raise AnalysisError('C15.R4', f'_network_days: unmodelled loop guard `{ast.unparse(t)}`')
        cur, end = t.left.id, t.comparators[0].id
        construct = f'_network_days[{cp.label}]'
        run.check(isinstance(t.ops[0], ast.LtE), 'C15.R4', construct + '/inclusive', 'end-excluded',
                  f'the day loop runs while `{ast.unparse(t)}`: the last day of the interval is not counted (NETWORKDAYS is inclusive)',
                  fact='while cur <= end', loc=cp.loc(t))
        # step: cur = cur + timedelta(days=1)
        steps = [st for st in loop.body if isinstance(st, (ast.Assign, ast.AugAssign)) and
                 cur in {getattr(x, 'id', None) for x in ([st.target] if isinstance(st, ast.AugAssign) else st.targets)}]
        ok_step = False
        if len(steps) == 1:
            v = steps[0].value if isinstance(steps[0], ast.AugAssign) else steps[0].value
            txt = ast.unparse(v).replace(' ', '')
            ok_step = txt in (f'{cur}+datetime.timedelta(days=1)', 'datetime.timedelta(days=1)', f'datetime.timedelta(days=1)+{cur}',
                              f'{cur}+datetime.timedelta(1)', 'datetime.timedelta(1)')
            if isinstance(steps[0], ast.AugAssign) and not isinstance(steps[0].op, ast.Add):
                ok_step = False
        run.check(ok_step, 'C15.R4', construct + '/step', 'step',
                  f'the day loop advances by `{ast.unparse(steps[0]) if steps else "?"}`, not by exactly one day on every iteration',
                  fact='one day per iteration, unconditionally', loc=cp.loc(loop))
        # the counter
        incs = [st for st in ast.walk(fn) if isinstance(st, ast.AugAssign) and isinstance(st.target, ast.Name) and st.target.id != cur]
        counters = {st.target.id for st in incs if isinstance(st.op, (ast.Add, ast.Sub)) and st.target.id not in (cur,)}
        rets = [r for r in ast.walk(fn) if isinstance(r, ast.Return) and r.value is not None and not isinstance(r.value, ast.Constant)]
        if len(rets) != 1:
            raise AnalysisError('C15.R4', '_network_days: expected one computed return')
        ret = rets[0].value
        rnames = {n.id for n in ast.walk(ret) if isinstance(n, ast.Name)}
        counter = [c for c in counters if c in rnames]
        if len(counter) != 1:
            raise AnalysisError('C15.R4', f'_network_days: cannot identify the counter among {sorted(counters)}')
        counter = counter[0]
        # every change of the counter is `+= 1` inside the loop under the counting condition, or the initialisation to 0
        writes = [st for st in ast.walk(fn) if (isinstance(st, ast.AugAssign) and isinstance(st.target, ast.Name) and st.target.id == counter)
                  or (isinstance(st, ast.Assign) and any(isinstance(x, ast.Name) and x.id == counter for x in st.targets))]
        cond_nodes = []
        for w in writes:
            if isinstance(w, ast.Assign):
                ok = isinstance(w.value, ast.Constant) and w.value.value == 0 and not any(w is x for x in ast.walk(loop))
                run.check(ok, 'C15.R4', construct + f'/counter-init', 'counter-write',
                          f'`{ast.unparse(w)[:70]}` changes the day counter outside the per-day test', fact='initialised to 0', loc=cp.loc(w))
                continue
            inside = any(w is x for x in ast.walk(loop))
            unit = isinstance(w.op, ast.Add) and isinstance(w.value, ast.Constant) and w.value.value == 1
            if not (inside and unit):
                run.bad('C15.R4', f'_network_days/{ast.unparse(w)[:50]}', 'counter-adjusted',
                        f'`{ast.unparse(w)[:90]}` changes the number of working days outside the per-day test "Monday-Friday and not a '
                        f'holiday": an adjustment made without looking at the weekday of each day cannot be right for every holiday list',
                        loc=cp.loc(w))
                continue
            in_loop = {id(x) for x in ast.walk(loop)}
            conds = [c for c in path_conditions(fn, w, parents) if c[0] is not loop.test and id(c[0]) in in_loop]
            if len(conds) != 1 or not conds[0][1]:
                raise AnalysisError('C15.R4', '_network_days: unmodelled counting condition')
            cond_nodes.append((w, conds[0][0]))
        if len(cond_nodes) != 1:
            raise AnalysisError('C15.R4', f'_network_days: expected one counting site, found {len(cond_nodes)}')
        w, cond = cond_nodes[0]
        hol_names = {n.id for n in ast.walk(cond) if isinstance(n, ast.Name)} - {cur, 'self', 'datetime'}
        for wd in range(7):
            for hol in (False, True):
                day = AV('date', val=('weekday', wd))
                env = {cur: day}
                for hn in hol_names:
                    env[hn] = AV('list', items=((day,) if hol else ()))
                ev = Evaluator(cp.members)
                try:
                    got = truth(ev.ev(cond, env))
                except Unknown as u:
                    raise AnalysisError('C15.R4', f'counting condition `{ast.unparse(cond)[:60]}`: {u}')
                want = wd < 5 and not hol
                names = ['Monday', 'Tuesday', 'Wednesday', 'Thursday', 'Friday', 'Saturday', 'Sunday']
                run.check(got == want, 'C15.R4', construct + f'/{names[wd]}{"/holiday" if hol else ""}', f'counts:{names[wd]}{"-holiday" if hol else ""}',
                          f'a {names[wd]}{" that is a listed holiday" if hol else ""} is {"counted" if got else "not counted"} as a working day',
                          fact='counted' if got else 'not counted', loc=cp.loc(cond))
        # holidays are dates (like the loop day), taken from the datetime entries of the area
        if hol_names:
            as_date = any(isinstance(b, ast.Call) and isinstance(b.func, ast.Attribute) and b.func.attr == 'date' and
                          isinstance(b.func.value, ast.Name) and b.func.value.id not in (ps[0], ps[1])
                          for b in ast.walk(fn))
            cur_is_date = any(isinstance(b, ast.Call) and isinstance(b.func, ast.Attribute) and b.func.attr == 'date' and
                              isinstance(b.func.value, ast.Name) and b.func.value.id in (ps[0], ps[1]) for b in ast.walk(fn))
            run.check(as_date == cur_is_date, 'C15.R4', construct + '/holiday-type', 'holiday-type-mismatch',
                      'the loop day and the collected holidays are not both dates (or both date-times): a holiday never equals the day '
                      'it is compared with', fact='date compared with date', loc=cp.loc(fn))
        # bounds and sign: the statements before the loop are evaluated for start < end, start = end and start > end with the two
        # dates as ranks; the loop has to run from the earlier to the later date and the result is +count / -count
        if not (isinstance(ret, ast.BinOp) and isinstance(ret.op, ast.Mult)):
            raise AnalysisError('C15.R4', f'_network_days: unmodelled result `{ast.unparse(ret)}`')
        other = [x for x in (ret.left, ret.right) if not (isinstance(x, ast.Name) and x.id == counter)]
        if len(other) != 1 or not isinstance(other[0], ast.Name):
            raise AnalysisError('C15.R4', f'_network_days: unmodelled sign factor in `{ast.unparse(ret)}`')
        mult = other[0].id
        prelude = []
        for st in fn.body:
            if st is loop:
                break
            prelude.append(st)
        for case, (rs, re_) in (('start < end', (1, 2)), ('start = end', (1, 1)), ('start > end', (2, 1))):
            env = {ps[0]: rs, ps[1]: re_}
            try:
                _eval_prelude(prelude, env)
            except _Skip as sk:
                raise AnalysisError('C15.R4', f'_network_days: the statements before the day loop are outside the modelled subset: {sk}')
            lo, hi, sg = env.get(cur), env.get(end), env.get(mult)
            want = (min(rs, re_), max(rs, re_), 1 if rs <= re_ else -1)
            run.check((lo, hi) == want[:2], 'C15.R4', construct + f'/bounds[{case}]', 'loop-bounds',
                      f'for {case} the day loop runs from the {"start" if lo == rs else "end"} date to the '
                      f'{"end" if hi == re_ else "start"} date; it has to run from the earlier to the later date',
                      fact='earlier .. later', loc=cp.loc(loop))
            run.check(sg == want[2], 'C15.R4', construct + f'/sign[{case}]', 'sign',
                      f'for {case} the count is multiplied by {sg!r}; the result is +count for an ordered interval and -count for a '
                      f'reversed one', fact=f'{want[2]:+d}', loc=cp.loc(rets[0]))


class _Skip(Exception):
    pass


def _eval_prelude(stmts, env):
    """evaluates the bookkeeping before the day loop with the two dates as integer ranks (d.date() keeps the rank); statements
    that do not touch a tracked name are skipped"""
    def ev(e):
        if isinstance(e, ast.Constant):
            return e.value
        if isinstance(e, ast.Name):
            if e.id in env:
                return env[e.id]
            raise _Skip(f'name {e.id}')
        if isinstance(e, ast.UnaryOp) and isinstance(e.op, ast.USub):
            return -ev(e.operand)
        if isinstance(e, ast.UnaryOp) and isinstance(e.op, ast.Not):
            return not ev(e.operand)
        if isinstance(e, (ast.Tuple, ast.List)):
            return tuple(ev(x) for x in e.elts)
        if isinstance(e, ast.Call) and isinstance(e.func, ast.Attribute) and e.func.attr == 'date' and not e.args:
            return ev(e.func.value)
        if isinstance(e, ast.Call) and isinstance(e.func, ast.Name) and e.func.id in ('sorted', 'min', 'max') and e.args:
            vals = ev(e.args[0]) if len(e.args) == 1 else tuple(ev(a) for a in e.args)
            if e.func.id == 'sorted':
                return tuple(sorted(vals))
            return min(vals) if e.func.id == 'min' else max(vals)
        if isinstance(e, ast.IfExp):
            return ev(e.body) if ev(e.test) else ev(e.orelse)
        if isinstance(e, ast.BoolOp):
            vals = [ev(v) for v in e.values]
            return all(vals) if isinstance(e.op, ast.And) else any(vals)
        if isinstance(e, ast.Compare) and len(e.ops) == 1:
            a, b = ev(e.left), ev(e.comparators[0])
            import operator as _o
            table = {ast.Lt: _o.lt, ast.LtE: _o.le, ast.Gt: _o.gt, ast.GtE: _o.ge, ast.Eq: _o.eq, ast.NotEq: _o.ne}
            if type(e.ops[0]) in table:
                return table[type(e.ops[0])](a, b)
        raise _Skip(ast.unparse(e)[:50])

    def tracked(node):
        return bool({n.id for n in ast.walk(node) if isinstance(n, ast.Name)} & set(env))

    def assign(t, v):
        if isinstance(t, ast.Name):
            env[t.id] = v
        elif isinstance(t, (ast.Tuple, ast.List)) and isinstance(v, tuple) and len(v) == len(t.elts):
            for a, b in zip(t.elts, v):
                assign(a, b)
        else:
            raise _Skip(ast.unparse(t)[:40])
    for st in stmts:
        if isinstance(st, ast.Assign):
            try:
                v = ev(st.value)
            except _Skip:
                if tracked(st.value) and any(isinstance(x, ast.Call) and isinstance(x.func, ast.Attribute) and x.func.attr == 'date'
                                             for x in ast.walk(st.value)) and not any(isinstance(x, (ast.ListComp, ast.GeneratorExp)) for x in ast.walk(st.value)):
                    raise
                continue                       # bookkeeping that does not concern the bounds (holiday collection, counters)
            for t in st.targets:
                assign(t, v)
        elif isinstance(st, ast.If):
            try:
                c = ev(st.test)
            except _Skip:
                continue
            _eval_prelude(st.body if c else st.orelse, env)
        else:
            continue


def _ordered_test(test, start, end):
    """True when `test` holds for start <= end, False when it holds for start > end, None when unknown"""
    if not (isinstance(test, ast.Compare) and len(test.ops) == 1):
        return None
    l, r = ast.unparse(test.left), ast.unparse(test.comparators[0])
    op = test.ops[0]
    if l.startswith(start) and r.startswith(end):
        return True if isinstance(op, (ast.LtE, ast.Lt)) else False if isinstance(op, (ast.Gt, ast.GtE)) else None
    if l.startswith(end) and r.startswith(start):
        return True if isinstance(op, (ast.GtE, ast.Gt)) else False if isinstance(op, (ast.Lt, ast.LtE)) else None
    return None


# ---------------------------------------------------------------------------------------------------
def r5(run: Run, rt):
    for cp in rt.copies():
        fn = cp.members.get('_today')
        if fn is None:
            run.bad('C15.R5', f'_today[{cp.label}]', 'missing', 'helper _today is missing', loc=cp.path)
            continue
        rets = [r for r in ast.walk(fn) if isinstance(r, ast.Return)]
        if len(rets) != 1 or rets[0].value is None:
            raise AnalysisError('C15.R5', '_today: expected a single return')
        txt = ast.unparse(rets[0].value).replace(' ', '')
        calls = [ast.unparse(c.func) for c in ast.walk(rets[0].value) if isinstance(c, ast.Call)]
        local = any(c in ('datetime.date.today', 'datetime.datetime.today') for c in calls) or \
            any(c == 'datetime.datetime.now' and not n.args and not n.keywords for n in ast.walk(rets[0].value)
                if isinstance(n, ast.Call) for c in [ast.unparse(n.func)])
        foreign = [c for c in calls if 'utc' in c.lower() or 'fromtimestamp' in c] + \
                  [ast.unparse(n) for n in ast.walk(rets[0].value) if isinstance(n, ast.Call) and ast.unparse(n.func).endswith('.now') and (n.args or n.keywords)]
        run.check(local and not foreign, 'C15.R5', f'_today[{cp.label}]/local-date', 'not-local-date',
                  f'TODAY is computed as `{txt[:90]}`, which is not the local calendar date', fact='datetime.date.today()', loc=cp.loc(fn))
        midnight = 'datetime.time(0,0)' in txt or 'datetime.time()' in txt or 'datetime.time.min' in txt or \
            ('replace(' in txt and all(f'{k}=0' in txt for k in ('hour', 'minute', 'second', 'microsecond')))
        if not midnight and 'datetime.date.today()' == txt:
            raise AnalysisError('C15.R5', '_today returns a date, not a date-time: re-confirm the comparison ladder')
        run.check(midnight, 'C15.R5', f'_today[{cp.label}]/midnight', 'not-midnight',
                  f'TODAY is computed as `{txt[:90]}`: the time of day is not set to midnight', fact='time 00:00', loc=cp.loc(fn))


# ---------------------------------------------------------------------------------------------------
def r6_eval(run: Run, rt):
    """EDATE / EOMONTH decided by abstract evaluation (engine F) on concrete dates: the start date moved by the truncated number
    of whole months, the day clipped to the length of the target month (EDATE) or set to it (EOMONTH)"""
    import datetime as _dt
    import calendar as _cal
    import math
    from ..finite import evaluator_for, AbsRaise
    starts = [(2024, 1, 31), (2023, 1, 31), (2024, 3, 31), (2024, 5, 15), (2024, 12, 31), (2024, 2, 29), (2023, 11, 30), (2024, 1, 1)]
    shifts = [0, 1, -1, 2, 11, 12, -12, 13, 1.9, -1.9, 0.5, -0.5, 24, -25]

    def moved(s, n):
        k = s[0] * 12 + (s[1] - 1) + math.trunc(n)
        y, m = divmod(k, 12)
        return y, m + 1
    for cp in rt.copies():
        for h in ('_eomonth', '_edate'):
            fn = cp.members.get(h)
            if fn is None:
                run.bad('C15.R6', f'{h}[{cp.label}]', 'missing', f'helper {h} is missing', loc=cp.path)
                continue
            for s_ in starts:
                for n in shifts:
                    y, m = moved(s_, n)
                    last = _cal.monthrange(y, m)[1]
                    want = (y, m, last if h == '_eomonth' else min(s_[2], last))
                    ev = evaluator_for(cp, max_depth=6)
                    construct = f'{h}[{cp.label}]/{s_[0]}-{s_[1]:02d}-{s_[2]:02d}{n:+}'
                    try:
                        res = ev.call_method(h, [_dt_av(*s_), const_av(n)])
                        got = res.val[1:] if res.kind in ('date', 'datetime') and isinstance(res.val, tuple) and res.val[:1] == ('ymd',) else \
                            res.val if res.val is not None and not isinstance(res.val, tuple) else repr(res)
                    except Unknown as u:
                        raise AnalysisError('C15.R6', f'{construct}: the abstraction cannot follow the helper ({u})')
                    except AbsRaise as e:
                        got = f'raises {e.exc}'
                    run.check(got == want, 'C15.R6', construct, 'shifted-date',
                              f'{h[1:].upper()}({s_[0]}-{s_[1]:02d}-{s_[2]:02d}, {n}) gives {got!r}; the start date moved by trunc({n}) whole months '
                              + ('with the day set to the last day of that month' if h == '_eomonth' else 'with the day clipped to the '
                                 'length of that month') + f': {want!r}', fact=f'-> {got!r}', loc=cp.loc(fn))


def _dt_av(y, m, d):
    return AV('datetime', val=('ymd', y, m, d))


def r6(run: Run, rt):
    try:
        r6_eval(run, rt)
    except AnalysisError as e:
        run.notes.append(f'C15.R6: EDATE/EOMONTH by structure ({e})')
        _r6_structural(run, rt)


def _r6_structural(run: Run, rt):
    for cp in rt.copies():
        for h in ('_eomonth', '_edate'):
            fn = cp.members.get(h)
            if fn is None:
                run.bad('C15.R6', f'{h}[{cp.label}]', 'missing', f'helper {h} is missing', loc=cp.path)
                continue
            ps = _params(fn)
            start, months = ps[0], ps[1]
            # shift: start + relativedelta(months=trunc(months))
            shifts = [n for n in ast.walk(fn) if isinstance(n, ast.BinOp) and isinstance(n.op, ast.Add) and
                      any(isinstance(x, ast.Call) and ast.unparse(x.func).endswith('relativedelta') for x in (n.left, n.right))]
            if len(shifts) != 1:
                raise AnalysisError('C15.R6', f'{h}: expected one relativedelta shift, found {len(shifts)}')
            sh = shifts[0]
            rd = sh.right if isinstance(sh.right, ast.Call) else sh.left
            base = sh.left if rd is sh.right else sh.right
            kws = {k.arg: k.value for k in rd.keywords}
            ok = isinstance(base, ast.Name) and base.id == start and set(kws) == {'months'} and not rd.args
            amount = ast.unparse(kws['months']).replace(' ', '') if 'months' in kws else '?'
            ok_amount = amount in (f'trunc({months})', f'math.trunc({months})', f'int({months})')
            run.check(ok and ok_amount, 'C15.R6', f'{h}[{cp.label}]/shift', 'shift',
                      f'{h} shifts by `{ast.unparse(sh)[:80]}`; it must move the start date by the truncated number of whole months '
                      f'(relativedelta(months=trunc(n)))', fact=f'start + relativedelta(months=trunc({months}))', loc=cp.loc(sh))
            shifted = None
            for st in ast.walk(fn):
                if isinstance(st, ast.Assign) and st.value is sh and len(st.targets) == 1 and isinstance(st.targets[0], ast.Name):
                    shifted = st.targets[0].id
            rets = [r for r in ast.walk(fn) if isinstance(r, ast.Return) and r.value is not None and not isinstance(r.value, ast.Constant)]
            if len(rets) != 1:
                raise AnalysisError('C15.R6', f'{h}: expected one computed return')
            ret = rets[0].value
            if h == '_edate':
                ok = ret is sh or (shifted and isinstance(ret, ast.Name) and ret.id == shifted)
                run.check(bool(ok), 'C15.R6', f'_edate[{cp.label}]/result', 'edate-result',
                          f'EDATE returns `{ast.unparse(ret)[:80]}`, not the shifted date', fact='the shifted date', loc=cp.loc(rets[0]))
                continue
            if shifted is None:
                raise AnalysisError('C15.R6', '_eomonth: the shifted date is not bound to a name')
            mr = [c for c in ast.walk(fn) if isinstance(c, ast.Call) and ast.unparse(c.func) in ('calendar.monthrange', 'monthrange')]
            if len(mr) != 1:
                raise AnalysisError('C15.R6', f'_eomonth: expected one calendar.monthrange call, found {len(mr)}')
            args = [ast.unparse(a) for a in mr[0].args]
            run.check(args == [f'{shifted}.year', f'{shifted}.month'], 'C15.R6', f'_eomonth[{cp.label}]/monthrange-args', 'monthrange-args',
                      f'the length of the target month is looked up with calendar.monthrange({", ".join(args)}); year and month must both '
                      f'be those of the shifted date `{shifted}` (February depends on the year)', fact=f'monthrange({shifted}.year, {shifted}.month)',
                      loc=cp.loc(mr[0]))
            par = parent_map(fn)
            sub = par.get(mr[0])
            idx_ok = isinstance(sub, ast.Subscript) and isinstance(sub.slice, ast.Constant) and sub.slice.value == 1
            run.check(idx_ok, 'C15.R6', f'_eomonth[{cp.label}]/monthrange-index', 'monthrange-index',
                      f'`{ast.unparse(sub)[:60] if sub is not None else "?"}`: the number of days of the month is element [1] of monthrange '
                      f'(element [0] is the weekday of the first day)', fact='[1] = days in month', loc=cp.loc(mr[0]))
            last = None
            for st in ast.walk(fn):
                if isinstance(st, ast.Assign) and st.value is sub and isinstance(st.targets[0], ast.Name):
                    last = st.targets[0].id
            ok = isinstance(ret, ast.Call) and ast.unparse(ret.func) == 'datetime.datetime' and \
                [ast.unparse(a) for a in ret.args] == [f'{shifted}.year', f'{shifted}.month', last or ast.unparse(sub)]
            run.check(ok, 'C15.R6', f'_eomonth[{cp.label}]/result', 'eomonth-result',
                      f'EOMONTH returns `{ast.unparse(ret)[:90]}`; expected year and month of the shifted date with the month length as day',
                      fact='datetime(shifted.year, shifted.month, days in month)', loc=cp.loc(rets[0]))


# ---------------------------------------------------------------------------------------------------
def _affine(expr, var):
    """(coefficient of var, constant) of an integer expression in `var`, or None"""
    if isinstance(expr, ast.Name) and expr.id == var:
        return (1, 0)
    if isinstance(expr, ast.Constant) and isinstance(expr.value, int) and not isinstance(expr.value, bool):
        return (0, expr.value)
    if isinstance(expr, ast.UnaryOp) and isinstance(expr.op, ast.USub):
        a = _affine(expr.operand, var)
        return None if a is None else (-a[0], -a[1])
    if isinstance(expr, ast.BinOp) and isinstance(expr.op, (ast.Add, ast.Sub)):
        a, b = _affine(expr.left, var), _affine(expr.right, var)
        if a is None or b is None:
            return None
        s = 1 if isinstance(expr.op, ast.Add) else -1
        return (a[0] + s * b[0], a[1] + s * b[1])
    return None


def _paths_of(expr):
    """[(conditions, leaf expression)] of nested conditional expressions"""
    if isinstance(expr, ast.IfExp):
        return [([(expr.test, True)] + c, l) for c, l in _paths_of(expr.body)] + \
               [([(expr.test, False)] + c, l) for c, l in _paths_of(expr.orelse)]
    return [([], expr)]


def r7_eval(run: Run, rt):
    """DATE decided by abstract evaluation (engine F) on concrete year / month / day numbers: the year window, January 1st of
    the year, month - 1 months and day - 1 days later, for zero, negative and overflowing months and days, texts converted"""
    import datetime as _dt
    import calendar as _cal
    from ..finite import evaluator_for, AbsRaise

    def excel(y, m, d):
        try:
            y, m, d = int(y), int(m), int(d)
        except ValueError:
            return '#NUM!'
        if 0 <= y <= 1899:
            y += 1900
        elif y < 0 or y > 9999:
            return '#NUM!'
        k = y * 12 + (m - 1)
        yy, mm = divmod(k, 12)
        res = _dt.date(yy, mm + 1, 1) + _dt.timedelta(days=d - 1)
        return (res.year, res.month, res.day)
    cases = [(2024, 1, 1), (2024, 2, 29), (2023, 2, 29), (2024, 2, 30), (2024, 12, 31), (2024, 13, 1), (2024, 14, 31), (2024, 0, 1), (2024, -1, 15),
             (2024, 1, 0), (2024, 3, -1), (2024, 1, 32), (2024, 1, 366), (2024, 25, 0), (24, 1, 1), (0, 1, 1), (1899, 12, 31), (1900, 1, 1),
             (9999, 12, 31), (-1, 1, 1), (10000, 1, 1), ('2024', '2', '3'), ('x', 1, 1), (2024, 'y', 1), (2024, 1, 'z'), (2024, 6, 15),
             (2021, 7, 31), (2022, 11, 30)]
    for cp in rt.copies():
        fn = cp.members.get('_date')
        if fn is None:
            run.bad('C15.R7', f'_date[{cp.label}]', 'missing', 'helper _date is missing', loc=cp.path)
            continue
        for y, m, d in cases:
            want = excel(y, m, d)
            ev = evaluator_for(cp, max_depth=6)
            construct = f'_date[{cp.label}]/DATE({y!r}, {m!r}, {d!r})'
            try:
                res = ev.call_method('_date', [const_av(y), const_av(m), const_av(d)])
                got = res.val[1:] if isinstance(res.val, tuple) and res.val[:1] == ('ymd',) else res.val if res.val is not None else repr(res)
                if isinstance(got, tuple) and res.kind not in ('date', 'datetime'):
                    got = repr(res)
            except Unknown as u:
                raise AnalysisError('C15.R7', f'{construct}: the abstraction cannot follow the helper ({u})')
            except AbsRaise as e:
                got = f'raises {e.exc}'
            run.check(got == want, 'C15.R7', construct, f'date:{y!r},{m!r},{d!r}',
                      f'DATE({y!r}, {m!r}, {d!r}) gives {got!r}; Excel: {want!r} (years 0..1899 are offsets from 1900, outside 0..9999 is '
                      f'#NUM!; month m is m - 1 months after January 1st and day d is d - 1 days after the first of that month, zero '
                      f'and negative values included)', fact=f'-> {got!r}', loc=cp.loc(fn))


def r7(run: Run, rt):
    try:
        r7_eval(run, rt)
    except AnalysisError as e:
        run.notes.append(f'C15.R7: DATE by structure ({e})')
        _r7_structural(run, rt)


def _r7_structural(run: Run, rt):
    for cp in rt.copies():
        fn = cp.members.get('_date')
        if fn is None:
            run.bad('C15.R7', f'_date[{cp.label}]', 'missing', 'helper _date is missing', loc=cp.path)
            continue
        ps = _params(fn)
        if len(ps) != 3:
            raise AnalysisError('C15.R7', '_date: expected (year, month, day)')
        year, month, day = ps
        construct = f'_date[{cp.label}]'
        # (a) year window: evaluate the statements that rebind `year` (after the text conversions) on boundary years
        window = [st for st in fn.body if isinstance(st, (ast.Match, ast.If)) and
                  year in {n.id for n in ast.walk(st.subject if isinstance(st, ast.Match) else st.test) if isinstance(n, ast.Name)} and
                  not any(isinstance(c, ast.Call) and isinstance(c.func, ast.Name) and c.func.id == 'isinstance' for c in ast.walk(
                      st.subject if isinstance(st, ast.Match) else st.test))]
        if not window:
            raise AnalysisError('C15.R7', '_date: the year window was not found')
        for y, want in ((-1, '#NUM!'), (0, 1900), (1, 1901), (1899, 3799), (1900, 1900), (2024, 2024), (9999, 9999), (10000, '#NUM!')):
            ev = Evaluator(cp.members)
            env = {year: const_av(y), 'self': AV('other', origin='self')}
            try:
                try:
                    for st in window:
                        ev.exec_stmt(st, env)
                    got = env[year].val
                except _Ret as r:
                    got = r.v.val
            except Unknown as u:
                raise AnalysisError('C15.R7', f'year window on {y}: {u}')
            run.check(got == want, 'C15.R7', construct + f'/year {y}', f'year-window:{y}',
                      f'DATE with year {y} continues with {got!r}; Excel: {want!r} (0..1899 are offsets from 1900, outside 0..9999 is #NUM!)',
                      fact=f'{y} -> {got!r}', loc=cp.loc(window[0]))
        # (b) base date January 1st and month offset month - 1
        bases = [c for c in ast.walk(fn) if isinstance(c, ast.Call) and ast.unparse(c.func) == 'datetime.datetime' and len(c.args) == 3 and
                 isinstance(c.args[0], ast.Name) and c.args[0].id == year]
        ok = len(bases) == 1 and [ast.unparse(a) for a in bases[0].args[1:]] == ['1', '1']
        run.check(ok, 'C15.R7', construct + '/base', 'base-date',
                  f'DATE starts from `{ast.unparse(bases[0]) if bases else "?"}`, not from January 1st of the year', fact='datetime(year, 1, 1)',
                  loc=cp.loc(bases[0] if bases else fn))
        deltas = [c for c in ast.walk(fn) if isinstance(c, ast.Call) and (ast.unparse(c.func).endswith('relativedelta') or
                                                                         ast.unparse(c.func).endswith('timedelta'))]
        month_d = [c for c in deltas if any(k.arg == 'months' and month in {n.id for n in ast.walk(k.value) if isinstance(n, ast.Name)} for k in c.keywords)]
        ok = len(month_d) == 1 and _affine([k.value for k in month_d[0].keywords if k.arg == 'months'][0], month) == (1, -1)
        run.check(ok, 'C15.R7', construct + '/month-offset', 'month-offset',
                  f'DATE adds `{ast.unparse(month_d[0]) if month_d else "?"}`; month m is m - 1 months after January',
                  fact='relativedelta(months=month - 1)', loc=cp.loc(month_d[0] if month_d else fn))
        # (c) the day offset is day - 1 on every path
        day_d = [c for c in deltas if any(k.arg == 'days' and day in {n.id for n in ast.walk(k.value) if isinstance(n, ast.Name)} for k in c.keywords)]
        if len(day_d) != 1:
            raise AnalysisError('C15.R7', f'_date: expected one day offset, found {len(day_d)}')
        expr = [k.value for k in day_d[0].keywords if k.arg == 'days'][0]
        for conds, leaf in _paths_of(expr):
            a = _affine(leaf, day)
            if a is None:
                raise AnalysisError('C15.R7', f'_date: non-affine day offset `{ast.unparse(leaf)}`')
            where = ' and '.join(('' if pol else 'not ') + f'({ast.unparse(t)})' for t, pol in conds) or 'every path'
            run.check(a == (1, -1), 'C15.R7', construct + f'/day-offset[{where[:40]}]', f'day-offset:{a[0]}*day{a[1]:+d}',
                      f'on the path {where} DATE adds `{ast.unparse(leaf)}` days to the first of the month; day d is d - 1 days after the '
                      f'first, for zero and negative d as well', fact='day - 1', loc=cp.loc(day_d[0]))
        # the value of `day` that reaches the offset is the argument (converted from text at most)
        rebinds = [st for st in ast.walk(fn) if (isinstance(st, ast.AugAssign) and isinstance(st.target, ast.Name) and st.target.id == day) or
                   (isinstance(st, ast.Assign) and any(isinstance(x, ast.Name) and x.id == day for x in st.targets) and
                    ast.unparse(st.value).replace(' ', '') not in (f'int({day})', f'float({day})', f'trunc({day})'))]
        if rebinds:
            raise AnalysisError('C15.R7', f'_date: `{day}` is rewritten (`{ast.unparse(rebinds[0])[:60]}`) before the day offset is added: a '
                                          f'month-stepping normalisation is outside what this rule can decide')
        run.ok('C15.R7', construct + '/day-argument', 'the day argument reaches the offset unchanged', loc=cp.loc(fn))


def run(run: Run):
    from .common import cached_guard as _cached_guard
    src = get_source()
    g = get_grammar(src)
    em = get_emission(src)
    rt = get_runtime(src)
    run.rule('C15.R1', 'argument plumbing of the nine date functions equals the confirmed reference')
    run.rule('C15.R2', 'YEAR/MONTH/DAY return the field of that name')
    run.rule('C15.R3', 'DATEDIF: reversed/non-date/unknown unit are errors; D = day count; M, Y, YM exhaustively over the month/day-order/year-difference domain')
    run.rule('C15.R4', 'NETWORKDAYS: Monday-Friday and not a holiday, per day; inclusive loop, one-day step; sign; like-with-like holidays')
    run.rule('C15.R5', 'TODAY = local calendar date at midnight')
    run.rule('C15.R6', 'EDATE/EOMONTH shift by trunc(n) months; EOMONTH = last day of the shifted month')
    run.rule('C15.R7', 'DATE: year window, January 1st + (month-1) months + (day-1) days on every path')
    _cached_guard(run, 'C15.R1', check_plumbing, 'C15.R1', src, em, rt, FUNCS)
    _cached_guard(run, 'C15.R2', r2, rt)
    _cached_guard(run, 'C15.R3', r3, rt)
    def _r4_both(run, rt):
        sub = Run('tmp', run.tier, run.seed, quiet=True)
        try:
            r4_eval(sub, rt)
        except AnalysisError as e:
            run.note(f'C15.R4 evaluation skipped: {e.reason[:120]}')
            return r4(run, rt)
        for o in sub.obligations:
            if o['verdict'] == 'holds':
                run.ok(o['rule'], o['construct'], o['fact'], loc=o['loc'])
        for f in sub.findings:
            run.bad(f['rule'], f['construct'], f['sub'], f['message'], loc=f['loc'])
        # (the structural reading is only the fallback: it judges how the loop is written, the evaluation what it computes)
    _cached_guard(run, 'C15.R4', _r4_both, rt)
    _cached_guard(run, 'C15.R5', r5, rt)
    _cached_guard(run, 'C15.R6', r6, rt)
    _cached_guard(run, 'C15.R7', r7, rt)
    # a function result depends on its arguments only: no runtime helper keeps results or other state between calls
    from .common import borrow as _borrow
    from . import c08 as _c08
    from ..callgraph import get_callgraph as _gcg
    from ..source import get_source as _gs
    from ..runtime import get_runtime as _grt
    run.rule('C15.R8', 'runtime helpers are pure functions of their arguments: no write effects, no value cache (shared with C08.R1/R4)')
    _src = _gs()
    _borrow(run, 'C15.R8', _c08.r1, _src, _grt(_src), _gcg(_src))
    _borrow(run, 'C15.R8', _c08.r4, _src, _grt(_src))
    run.floor('C15.R8', 50)
    run.floor('C15.R1', 9)
    run.floor('C15.R2', 6)
    run.floor('C15.R3', 12)
    run.floor('C15.R4', 18)
    run.floor('C15.R5', 4)
    run.floor('C15.R6', 10)
    run.floor('C15.R7', 20)
    from .common import shared_mechanisms as _shared
    _shared(run, 'C15', 9, ['stored-values', 'references-minted', 'fresh-parse'])
    from .common import shared_mechanisms as _shared_f
    _shared_f(run, 'C15', 12, ['formulas'])
    return INFO
