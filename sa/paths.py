"""Engine P -- path facts on structured Python code (the repository has no goto-like flow besides return/raise/
break/continue): conditions that hold when control reaches a node, statements that are executed on every path before a
node, and whether every normal exit of a function passes through a given event."""
from __future__ import annotations

import ast

from .runtime import may_complete_normally


def parent_map(root) -> dict:
    out = {}
    for p in ast.walk(root):
        for c in ast.iter_child_nodes(p):
            out[c] = p
    return out


def enclosing_stmt(node, parents):
    while node is not None and not isinstance(node, ast.stmt):
        node = parents.get(node)
    return node


def _block_of(stmt, parents):
    """(owner, field name, list) of the statement list that contains stmt"""
    p = parents.get(stmt)
    if p is None:
        return None
    for fld in ('body', 'orelse', 'finalbody', 'handlers'):
        lst = getattr(p, fld, None)
        if isinstance(lst, list) and stmt in lst:
            return p, fld, lst
    if isinstance(p, ast.match_case) and stmt in p.body:
        return p, 'body', p.body
    return None


def path_conditions(fn: ast.FunctionDef, target, parents=None) -> list:
    """[(test expr, polarity)] known to hold when control reaches `target`:
    enclosing if/while/ifexp tests with the polarity of the branch, and the negation of earlier sibling `if` tests whose
    taken branch cannot complete normally (early return / raise / continue)."""
    parents = parents or parent_map(fn)
    conds = []
    node = target
    # conditional expressions / boolean operators enclosing the target expression
    child = target
    p = parents.get(child)
    while p is not None and not isinstance(p, ast.stmt):
        if isinstance(p, ast.IfExp):
            if child is p.body:
                conds.append((p.test, True))
            elif child is p.orelse:
                conds.append((p.test, False))
        if isinstance(p, ast.BoolOp) and child in p.values:
            idx = p.values.index(child)
            for earlier in p.values[:idx]:
                conds.append((earlier, isinstance(p.op, ast.And)))
        if isinstance(p, ast.comprehension):
            pass
        child, p = p, parents.get(p)
    stmt = enclosing_stmt(target, parents)
    while stmt is not None and stmt is not fn:
        blk = _block_of(stmt, parents)
        if blk is None:
            break
        owner, fld, lst = blk
        i = lst.index(stmt)
        for prev in lst[:i]:
            if isinstance(prev, ast.If):
                body_exits = not may_complete_normally(prev.body)
                else_exits = bool(prev.orelse) and not may_complete_normally(prev.orelse)
                if body_exits and not else_exits:
                    conds.append((prev.test, False))
                elif else_exits and not body_exits:
                    conds.append((prev.test, True))
        if isinstance(owner, ast.If):
            conds.append((owner.test, fld == 'body'))
        elif isinstance(owner, ast.While):
            if fld == 'body':
                conds.append((owner.test, True))
        if isinstance(owner, (ast.FunctionDef, ast.AsyncFunctionDef, ast.Lambda)):
            break
        stmt = owner if isinstance(owner, ast.stmt) else parents.get(owner)
        if isinstance(owner, (ast.ExceptHandler, ast.match_case)):
            stmt = parents.get(owner)
    return conds


def executed_before(fn: ast.FunctionDef, target, parents=None) -> list:
    """statements that are executed (started) on every path that reaches `target`: earlier siblings in the target's block
    and in every enclosing block (only those that are not nested inside a conditional relative to that block)."""
    parents = parents or parent_map(fn)
    out = []
    stmt = enclosing_stmt(target, parents)
    while stmt is not None and stmt is not fn:
        blk = _block_of(stmt, parents)
        if blk is None:
            break
        owner, fld, lst = blk
        i = lst.index(stmt)
        out = lst[:i] + out
        if isinstance(owner, (ast.FunctionDef, ast.AsyncFunctionDef)):
            break
        if isinstance(owner, ast.Try) and fld in ('orelse',):
            out = owner.body + out
        stmt = owner if isinstance(owner, ast.stmt) else parents.get(owner)
    return out


def calls_in(node) -> list:
    return [n for n in ast.walk(node) if isinstance(n, ast.Call)]


def is_call_of(call: ast.Call, name: str) -> bool:
    f = call.func
    return (isinstance(f, ast.Attribute) and f.attr == name) or (isinstance(f, ast.Name) and f.id == name)


def normal_exits_pass(stmts, event) -> bool:
    """True when every path through `stmts` that completes normally or returns has passed a statement for which
    event(stmt) is True. Paths that raise are not constrained."""
    state = _walk(stmts, False, event)
    return state['fall'] is not False and all(state['returns'])


def _walk(stmts, passed: bool, event):
    """returns {'fall': passed-state when falling off the end (True/False) or None if cannot fall, 'returns': [bool,...]}"""
    returns = []
    cur = passed
    for st in stmts:
        if cur is None:
            break
        if _contains_event(st, event) and not isinstance(st, (ast.If, ast.For, ast.While, ast.Try, ast.With, ast.Match)):
            cur = True
        if isinstance(st, ast.Return):
            returns.append(cur)
            cur = None
        elif isinstance(st, ast.Raise):
            cur = None
        elif isinstance(st, (ast.Break, ast.Continue)):
            cur = None if False else cur   # approximated: loop exits keep the state
        elif isinstance(st, ast.If):
            a = _walk(st.body, cur, event)
            b = _walk(st.orelse, cur, event)
            returns += a['returns'] + b['returns']
            falls = [x['fall'] for x in (a, b) if x['fall'] is not None]
            cur = None if not falls else all(falls)
        elif isinstance(st, (ast.For, ast.While)):
            a = _walk(st.body, cur, event)
            returns += a['returns']
            b = _walk(st.orelse, cur, event)
            returns += b['returns']
            # zero iterations possible: the loop body guarantees nothing
        elif isinstance(st, ast.With):
            a = _walk(st.body, cur, event)
            returns += a['returns']
            cur = a['fall']
        elif isinstance(st, ast.Try):
            a = _walk(st.body + st.orelse, cur, event)
            returns += a['returns']
            falls = [a['fall']] if a['fall'] is not None else []
            for h in st.handlers:
                hh = _walk(h.body, cur, event)
                returns += hh['returns']
                if hh['fall'] is not None:
                    falls.append(hh['fall'])
            cur = None if not falls else all(falls)
            if st.finalbody:
                f = _walk(st.finalbody, bool(cur), event)
                returns += f['returns']
                cur = f['fall'] if cur is not None else None
        elif isinstance(st, ast.Match):
            falls = []
            for c in st.cases:
                a = _walk(c.body, cur, event)
                returns += a['returns']
                if a['fall'] is not None:
                    falls.append(a['fall'])
            falls.append(cur)
            cur = all(falls)
    return {'fall': cur, 'returns': returns}


def _contains_event(st, event) -> bool:
    try:
        return bool(event(st))
    except Exception:
        return False
