"""Framework core: findings, obligations, known-findings matching, evidence, exit codes.

Exit codes of a check:  0 = property held on everything analysed (known findings are
printed as KNOWN-FINDING lines), 1 = at least one violation that known_findings.json does
not list, 2 = ANALYSIS-ERROR (an anchor vanished, a body uses syntax the analysis does not
model, an instance floor was not reached, ...) -- never a silent pass.
"""
from __future__ import annotations

import json
import os
import sys
import time
import traceback
from pathlib import Path

VERIF = Path(__file__).resolve().parent.parent
REPO = Path(os.environ.get('VERIF_REPO', '/repo')).resolve()
PKG = 'excel2pycl'
EVIDENCE_DIR = Path(os.environ.get('VERIF_EVIDENCE_DIR', str(VERIF / 'evidence')))
KNOWN_FILE = VERIF / 'known_findings.json'

TRUSTED_BASE = [
    "CPython ast (3.12) parses /repo exactly as the interpreter that runs it",
    "re._parser gives the structure of the regular expressions the lexer compiles",
    "semantic models of the builtins/library calls named in the rules (int, float, str, repr, round, "
    "math.ceil/floor/trunc, min/max/sum/len/any/all, isinstance/type, enumerate/range/zip, dict insertion "
    "order, set iteration = hash order, openpyxl.utils.column_index_from_string/get_column_letter, "
    "calendar.monthrange, dateutil.relativedelta, datetime.date.weekday Monday=0)",
]


class AnalysisError(Exception):
    """The analysis cannot decide: anchor missing or unmodelled construct. Exit 2, never a pass."""

    def __init__(self, rule: str, reason: str):
        super().__init__(f'{rule}: {reason}')
        self.rule = rule
        self.reason = reason


def loc_of(path, node) -> str:
    try:
        p = Path(path).resolve()
        try:
            p = p.relative_to(REPO)
        except ValueError:
            pass
        return f'{p}:{getattr(node, "lineno", 0)}'
    except Exception:
        return str(path)


class Run:
    def __init__(self, prop: str, tier: str = 'quick', seed: int = 0, quiet: bool = False):
        self.prop = prop
        self.tier = tier
        self.seed = seed
        self.quiet = quiet
        self.t0 = time.time()
        self.obligations: list[dict] = []
        self.findings: list[dict] = []
        self.errors: list[str] = []
        self.notes: list[str] = []
        self.rule_counts: dict[str, int] = {}
        self.rule_docs: dict[str, str] = {}
        self.unresolved: list[str] = []
        self.assumptions: list[str] = []
        self.extra: dict = {}

    # ---- recording -------------------------------------------------------------------------
    def rule(self, rule: str, doc: str):
        self.rule_docs[rule] = doc
        self.rule_counts.setdefault(rule, 0)

    def ok(self, rule: str, construct: str, fact: str = '', nontrivial: bool = True, loc: str = ''):
        self.rule_counts[rule] = self.rule_counts.get(rule, 0) + 1
        self.obligations.append({'rule': rule, 'construct': construct, 'verdict': 'holds', 'fact': fact,
                                 'nontrivial': nontrivial, 'loc': loc})

    def bad(self, rule: str, construct: str, sub: str, message: str, loc: str = '', facts=None, witness: str = ''):
        self.rule_counts[rule] = self.rule_counts.get(rule, 0) + 1
        key = f'{rule}|{construct}|{sub}'
        for f in self.findings:
            if f['key'] == key:
                return
        f = {'property': self.prop, 'rule': rule, 'construct': construct, 'sub': sub, 'key': key,
             'message': message, 'loc': loc, 'facts': facts or {}, 'witness': witness}
        self.findings.append(f)
        self.obligations.append({'rule': rule, 'construct': construct, 'verdict': 'FAILS', 'fact': f'{sub}: {message}',
                                 'nontrivial': True, 'loc': loc})

    def check(self, cond: bool, rule: str, construct: str, sub: str, message: str, fact: str = '', loc: str = '',
              facts=None):
        if cond:
            self.ok(rule, construct, fact or sub, loc=loc)
        else:
            self.bad(rule, construct, sub, message, loc=loc, facts=facts)
        return cond

    def note(self, text: str):
        self.notes.append(text)

    def error(self, rule: str, reason: str):
        self.errors.append(f'{rule}: {reason}')

    def floor(self, rule: str, minimum: int):
        n = self.rule_counts.get(rule, 0)
        if n < minimum:
            self.error(rule, f'instance floor not reached: analysed {n} instance(s), expected at least {minimum} '
                             f'(a rule that matches nothing would pass vacuously)')

    def guard(self, rule: str, fn, *a, **kw):
        """Run one rule; an AnalysisError or an unexpected exception becomes exit 2 for this property."""
        try:
            return fn(*a, **kw)
        except AnalysisError as e:
            self.error(e.rule or rule, e.reason)
        except RecursionError:
            self.error(rule, 'analysis recursion limit')
        except Exception as e:  # a bug in the checker or an unmodelled shape: fail closed
            tb = traceback.format_exc(limit=6)
            self.error(rule, f'internal error {type(e).__name__}: {e}\n{tb}')
        return None

    # ---- finishing -------------------------------------------------------------------------
    def finish(self, explanation: str, rule_text: str, trusted=None, level: str = 'other') -> int:
        known = load_known()
        known_keys = {k['key']: k for k in known.get('known', []) if k.get('property') == self.prop}
        violations, knowns = [], []
        for f in self.findings:
            if f['key'] in known_keys:
                knowns.append((f, known_keys[f['key']]))
            else:
                violations.append(f)
        fired = {f['key'] for f in self.findings}
        out = []
        replay_dir = EVIDENCE_DIR / 'replay'
        for f, k in knowns:
            out.append(f"KNOWN-FINDING: property={self.prop} {f['rule']} {f['construct']} [{f['sub']}] "
                       f"{f['message']} witness={k.get('witness', '')}")
        for key, k in known_keys.items():
            if key not in fired:
                out.append(f"NOTE: listed known finding no longer reproduces: {key}")
        vcount = 0
        if violations:
            replay_dir.mkdir(parents=True, exist_ok=True)
        for i, f in enumerate(violations):
            path = replay_dir / f"{self.prop}-{i}.json"
            path.write_text(json.dumps(f, indent=1, default=str))
            out.append(f"DIAGNOSTIC: {f['rule']} {f['construct']} [{f['sub']}] at {f['loc']}: {f['message']}")
            out.append(f"VIOLATION property={self.prop} replay={path}")
            vcount += 1
        # a definite violation outranks an inconclusive part of the analysis: exit 1 with the ANALYSIS-ERROR lines as notes
        for e in self.errors:
            out.append(f'ANALYSIS-ERROR property={self.prop} rule={e}')
        n_obl = len(self.obligations)
        n_ok = sum(1 for o in self.obligations if o['verdict'] == 'holds')
        distinct = len({(o['rule'], o['construct']) for o in self.obligations if o['nontrivial']})
        samples = []
        seen_rules = set()
        for o in self.obligations:
            if o['rule'] not in seen_rules or o['verdict'] != 'holds':
                seen_rules.add(o['rule'])
                samples.append({k: o[k] for k in ('rule', 'construct', 'verdict', 'fact', 'loc')})
        samples = samples[:60]
        wall = time.time() - self.t0
        ev = {
            'property_id': self.prop, 'tier': self.tier, 'seed': self.seed, 'level': level,
            'coverage': {
                'explanation': explanation,
                'evaluations': n_obl, 'distinct_nontrivial': distinct,
                'rule': rule_text,
                'samples': samples or [{'note': 'no obligations'}],
                'obligations': n_obl, 'discharged': n_ok,
                'known_findings': [f['key'] for f, _ in knowns],
                'violations_found': [f['key'] for f in violations],
                'rules': {r: {'instances': self.rule_counts.get(r, 0), 'what': d} for r, d in self.rule_docs.items()},
                'unresolved_calls': self.unresolved[:40],
                'notes': self.notes[:40],
                'trusted_base': (trusted or []) + TRUSTED_BASE,
                'checker_cmd': f'./check {self.prop} --tier {self.tier}',
                'repo': str(REPO),
                'analysis_errors': self.errors,
                **self.extra,
            },
            'assumptions': self.assumptions,
            'wall_s': round(wall, 3),
            'violations': vcount,
        }
        if n_obl < 1 or distinct < 2:
            self.errors.append('core: fewer than two distinct non-trivial obligations analysed')
            out.append(f'ANALYSIS-ERROR property={self.prop} rule=core: fewer than two obligations analysed')
        EVIDENCE_DIR.mkdir(parents=True, exist_ok=True)
        (EVIDENCE_DIR / f'{self.prop}.json').write_text(json.dumps(ev, indent=1, default=str))
        if not self.quiet:
            for r, d in self.rule_docs.items():
                print(f'  {r}: {self.rule_counts.get(r, 0)} instance(s) analysed -- {d}')
            for line in out:
                print(line)
            status = 'VIOLATION' if vcount else ('ANALYSIS-ERROR' if self.errors else 'OK')
            print(f'{self.prop} [{self.tier}] {status}: {n_ok}/{n_obl} obligations hold, {len(knowns)} known finding(s), '
                  f'{vcount} violation(s), {wall:.2f}s')
        self.out_lines = out
        if vcount:
            return 1
        return 2 if self.errors else 0


_known_cache = None


def load_known() -> dict:
    global _known_cache
    if _known_cache is None:
        if KNOWN_FILE.exists():
            _known_cache = json.loads(KNOWN_FILE.read_text())
        else:
            _known_cache = {'known': [], 'fixed': []}
    return _known_cache
