"""Engine S -- source model: modules, classes, functions, import bindings, name resolution, MRO.

Reads REPO/excel2pycl/**/*.py with ast on every run. Nothing of the repository is imported.
"""
from __future__ import annotations

import ast
import hashlib
import warnings
from dataclasses import dataclass, field
from pathlib import Path

from .core import REPO, PKG, AnalysisError


@dataclass
class ModuleInfo:
    name: str
    path: Path
    tree: ast.Module
    src: str
    is_pkg: bool
    bindings: dict = field(default_factory=dict)   # name -> ('import', module, symbol|None) | ('class', ClassInfo) | ...
    star_imports: list = field(default_factory=list)


@dataclass
class FunctionInfo:
    name: str
    qualname: str           # Class.method or function
    module: ModuleInfo
    node: ast.FunctionDef
    cls: 'ClassInfo | None' = None
    decorators: tuple = ()

    @property
    def key(self):
        return f'{self.module.name}:{self.qualname}'

    @property
    def kind(self):
        if 'classmethod' in self.decorators:
            return 'classmethod'
        if 'staticmethod' in self.decorators:
            return 'staticmethod'
        if 'property' in self.decorators:
            return 'property'
        return 'method' if self.cls else 'function'

    @property
    def params(self):
        a = self.node.args
        return [x.arg for x in a.posonlyargs + a.args]


@dataclass
class ClassInfo:
    name: str
    qualname: str
    module: ModuleInfo
    node: ast.ClassDef
    base_exprs: list
    methods: dict = field(default_factory=dict)      # name -> FunctionInfo
    attrs: dict = field(default_factory=dict)        # name -> ast expr (class-level assignments)
    nested: dict = field(default_factory=dict)       # name -> ClassInfo
    outer: 'ClassInfo | None' = None

    def __hash__(self):
        return hash((self.module.name, self.qualname))

    def __eq__(self, other):
        return isinstance(other, ClassInfo) and (self.module.name, self.qualname) == (other.module.name, other.qualname)

    def __repr__(self):
        return f'<class {self.qualname}>'


def _decorator_names(node):
    out = []
    for d in node.decorator_list:
        if isinstance(d, ast.Name):
            out.append(d.id)
        elif isinstance(d, ast.Attribute):
            out.append(d.attr)
        elif isinstance(d, ast.Call):
            f = d.func
            out.append(f.id if isinstance(f, ast.Name) else getattr(f, 'attr', '?'))
    return tuple(out)


class SourceModel:
    def __init__(self, repo: Path = REPO):
        self.repo = Path(repo)
        self.modules: dict[str, ModuleInfo] = {}
        self.classes: dict[str, list[ClassInfo]] = {}
        self.functions: dict[str, FunctionInfo] = {}
        self._mro_cache: dict = {}
        self._load()

    # ---------------------------------------------------------------------------------------
    def _load(self):
        root = self.repo / PKG
        if not root.is_dir():
            raise AnalysisError('S', f'package directory {root} not found')
        files = sorted(root.rglob('*.py'))
        h = hashlib.sha256()
        for p in files:
            src = p.read_text(encoding='utf-8')
            h.update(str(p.relative_to(self.repo)).encode())
            h.update(src.encode())
            rel = p.relative_to(self.repo).with_suffix('')
            parts = list(rel.parts)
            is_pkg = parts[-1] == '__init__'
            if is_pkg:
                parts = parts[:-1]
            name = '.'.join(parts)
            try:
                with warnings.catch_warnings():
                    warnings.simplefilter('ignore')
                    tree = ast.parse(src, filename=str(p))
                    from .normalize import canonicalize_module
                    tree = canonicalize_module(tree)
            except SyntaxError as e:
                raise AnalysisError('S', f'{p} does not parse: {e}')
            self.modules[name] = ModuleInfo(name, p, tree, src, is_pkg)
        self.digest = h.hexdigest()
        for m in self.modules.values():
            self._index_module(m)

    def _abs_module(self, m: ModuleInfo, node: ast.ImportFrom) -> str:
        if node.level == 0:
            return node.module or ''
        base = m.name.split('.')
        if not m.is_pkg:
            base = base[:-1]
        base = base[:len(base) - (node.level - 1)]
        return '.'.join(base + ([node.module] if node.module else []))

    def _index_module(self, m: ModuleInfo):
        for st in m.tree.body:
            self._bind_stmt(m, st, m.bindings, top=True)

    def _bind_stmt(self, m, st, bindings, top=False, outer_cls=None):
        if isinstance(st, ast.ImportFrom):
            mod = self._abs_module(m, st)
            for a in st.names:
                if a.name == '*':
                    if top:
                        m.star_imports.append(mod)
                else:
                    bindings[a.asname or a.name] = ('import', mod, a.name)
        elif isinstance(st, ast.Import):
            for a in st.names:
                if a.asname:
                    bindings[a.asname] = ('import', a.name, None)
                else:
                    bindings[a.name.split('.')[0]] = ('import', a.name.split('.')[0], None)
        elif isinstance(st, ast.ClassDef):
            ci = self._index_class(m, st, outer_cls)
            bindings[st.name] = ('class', ci)
        elif isinstance(st, (ast.FunctionDef, ast.AsyncFunctionDef)):
            fi = FunctionInfo(st.name, st.name, m, st, None, _decorator_names(st))
            if top:
                self.functions[fi.key] = fi
            bindings[st.name] = ('func', fi)
        elif isinstance(st, ast.Assign):
            for t in st.targets:
                if isinstance(t, ast.Name):
                    bindings[t.id] = ('value', st.value)
        elif isinstance(st, ast.AnnAssign) and isinstance(st.target, ast.Name) and st.value is not None:
            bindings[st.target.id] = ('value', st.value)
        elif isinstance(st, (ast.If, ast.Try)) and top:
            for sub in ast.iter_child_nodes(st):
                if isinstance(sub, ast.stmt):
                    self._bind_stmt(m, sub, bindings, top=top)

    def _index_class(self, m, node: ast.ClassDef, outer: ClassInfo | None):
        qual = f'{outer.qualname}.{node.name}' if outer else node.name
        ci = ClassInfo(node.name, qual, m, node, list(node.bases), outer=outer)
        self.classes.setdefault(node.name, []).append(ci)
        for st in node.body:
            if isinstance(st, (ast.FunctionDef, ast.AsyncFunctionDef)):
                fi = FunctionInfo(st.name, f'{qual}.{st.name}', m, st, ci, _decorator_names(st))
                ci.methods[st.name] = fi
                self.functions[fi.key] = fi
            elif isinstance(st, ast.Assign):
                for t in st.targets:
                    if isinstance(t, ast.Name):
                        ci.attrs[t.id] = st.value
                    elif isinstance(t, (ast.Tuple, ast.List)) and isinstance(st.value, (ast.Tuple, ast.List)) and \
                            len(t.elts) == len(st.value.elts) and all(isinstance(e, ast.Name) for e in t.elts):
                        for e, v in zip(t.elts, st.value.elts):          # A, B = 1, 2 at class level
                            ci.attrs[e.id] = v
            elif isinstance(st, ast.AnnAssign) and isinstance(st.target, ast.Name) and st.value is not None:
                ci.attrs[st.target.id] = st.value
            elif isinstance(st, ast.ClassDef):
                ci.nested[st.name] = self._index_class(m, st, ci)
        return ci

    # ---------------------------------------------------------------------------------------
    def module(self, name: str) -> ModuleInfo:
        if name not in self.modules:
            raise AnalysisError('S', f'module {name} not found')
        return self.modules[name]

    def cls(self, name: str) -> ClassInfo:
        cc = self.__dict__.setdefault('_cls_cache', {})
        if name not in cc:
            cc[name] = self._cls(name)
        return cc[name]

    def _cls(self, name: str) -> ClassInfo:
        c = self.classes.get(name)
        if not c:
            raise AnalysisError('S', f'class {name} not found')
        top = [x for x in c if x.outer is None]
        if len(top) == 1:
            return top[0]
        if len(c) == 1:
            return c[0]
        raise AnalysisError('S', f'class name {name} is ambiguous ({len(c)} definitions)')

    def has_cls(self, name: str) -> bool:
        return name in self.classes

    def func(self, key: str) -> FunctionInfo:
        """key = 'module:qualname' or 'Class.method' (unique) or 'function' (unique)."""
        if key in self.functions:
            return self.functions[key]
        cands = [f for k, f in self.functions.items() if k.split(':', 1)[1] == key]
        if len(cands) == 1:
            return cands[0]
        if not cands:
            raise AnalysisError('S', f'function {key} not found')
        raise AnalysisError('S', f'function {key} is ambiguous')

    def has_func(self, key: str) -> bool:
        try:
            self.func(key)
            return True
        except AnalysisError:
            return False

    def lookup_in_module(self, modname: str, name: str, _seen=None):
        """Resolve a top-level name of a repo module to ('class', ci) | ('func', fi) | ('value', expr, module) |
        ('ext', dotted) | None, following re-exports and star imports."""
        _seen = _seen or set()
        if (modname, name) in _seen:
            return None
        _seen.add((modname, name))
        m = self.modules.get(modname)
        if m is None:
            return ('ext', f'{modname}.{name}')
        b = m.bindings.get(name)
        if b is not None:
            if b[0] == 'import':
                return self._follow_import(b, _seen)
            if b[0] == 'value':
                return ('value', b[1], m)
            return b
        for star in m.star_imports:
            r = self.lookup_in_module(star, name, _seen)
            if r is not None and r[0] != 'ext':
                return r
        sub = f'{modname}.{name}'
        if sub in self.modules:
            return ('module', self.modules[sub])
        return None

    def _follow_import(self, b, _seen=None):
        _, mod, sym = b
        if sym is None:
            if mod in self.modules:
                return ('module', self.modules[mod])
            return ('ext', mod)
        if mod in self.modules:
            r = self.lookup_in_module(mod, sym, _seen)
            if r is None:
                return ('unresolved', f'{mod}.{sym}')
            return r
        return ('ext', f'{mod}.{sym}')

    def local_bindings(self, fn: FunctionInfo) -> dict:
        """Imports made inside a function body (the translators import collaborators locally)."""
        cache = self.__dict__.setdefault('_lb_cache', {})
        k = id(fn.node)
        if k in cache:
            return cache[k]
        out = cache[k] = {}
        for st in ast.walk(fn.node):
            if isinstance(st, (ast.Import, ast.ImportFrom)):
                self._bind_stmt(fn.module, st, out)
        return out

    def resolve(self, name: str, module: ModuleInfo, fn: FunctionInfo | None = None):
        cache = self.__dict__.setdefault('_res_cache', {})
        k = (name, module.name, id(fn.node) if fn is not None else 0)
        if k not in cache:
            cache[k] = self._resolve(name, module, fn)
        return cache[k]

    def _resolve(self, name: str, module: ModuleInfo, fn: FunctionInfo | None = None):
        if fn is not None:
            lb = self.local_bindings(fn)
            if name in lb:
                return self._follow_import(lb[name])
        if fn is not None and fn.cls is not None and False:
            pass
        r = self.lookup_in_module(module.name, name)
        return r

    def resolve_class(self, name: str, module: ModuleInfo, fn: FunctionInfo | None = None) -> ClassInfo | None:
        r = self.resolve(name, module, fn)
        if r and r[0] == 'class':
            return r[1]
        return None

    # ---------------------------------------------------------------------------------------
    def bases(self, ci: ClassInfo) -> list:
        out = []
        for b in ci.base_exprs:
            if isinstance(b, ast.Name):
                r = self.resolve(b.id, ci.module)
                if r and r[0] == 'class':
                    out.append(r[1])
                else:
                    out.append(b.id)
            else:
                out.append(ast.unparse(b))
        return out

    def mro(self, ci: ClassInfo) -> list:
        key = (ci.module.name, ci.qualname)
        if key in self._mro_cache:
            return self._mro_cache[key]
        seqs = []
        bs = [b for b in self.bases(ci)]
        for b in bs:
            seqs.append(list(self.mro(b)) if isinstance(b, ClassInfo) else [b])
        seqs.append(list(bs))
        res = [ci]
        while True:
            seqs = [s for s in seqs if s]
            if not seqs:
                break
            for s in seqs:
                cand = s[0]
                if not any(cand in t[1:] for t in seqs):
                    break
            else:
                raise AnalysisError('S', f'inconsistent MRO for {ci.qualname}')
            res.append(cand)
            for s in seqs:
                if s and s[0] == cand:
                    del s[0]
        self._mro_cache[key] = res
        return res

    def is_subclass(self, ci: ClassInfo, other: ClassInfo | str) -> bool:
        for c in self.mro(ci):
            if c == other or (isinstance(c, ClassInfo) and isinstance(other, str) and c.name == other) or \
                    (isinstance(c, str) and isinstance(other, str) and c == other):
                return True
        return False

    def subclasses(self, base: ClassInfo | str) -> list:
        out = []
        for lst in self.classes.values():
            for c in lst:
                if c != base and self.is_subclass(c, base):
                    out.append(c)
        out.sort(key=lambda c: (str(c.module.path), c.node.lineno))
        return out

    def direct_subclasses(self, base: ClassInfo) -> list:
        out = [c for lst in self.classes.values() for c in lst if base in [b for b in self.bases(c)]]
        out.sort(key=lambda c: (str(c.module.path), c.node.lineno))
        return out

    def find_method(self, ci: ClassInfo, name: str) -> FunctionInfo | None:
        for c in self.mro(ci):
            if isinstance(c, ClassInfo) and name in c.methods:
                return c.methods[name]
        return None

    def find_attr(self, ci: ClassInfo, name: str):
        for c in self.mro(ci):
            if isinstance(c, ClassInfo) and name in c.attrs:
                return c.attrs[name], c
        return None, None


_model_cache: dict = {}


def get_source(repo: Path = REPO) -> SourceModel:
    key = str(repo)
    if key not in _model_cache:
        _model_cache[key] = SourceModel(repo)
    return _model_cache[key]
