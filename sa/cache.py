"""Cross-process cache of the results of shared rule functions.

The same evaluation (the lexer on its probes, the reader on the model workbook, the executor histories, ...) is an obligation of
several properties; each `./check <ID>` is a process of its own.  The obligations and findings a shared function produces are
stored under a key made of a digest of the analysed tree, a digest of the checker's own sources, the function and its plain
arguments, and replayed by the next process.  The cache is an optimisation only: a missing, unreadable or unwritable cache
directory means the function is evaluated.  VERIF_NO_CACHE=1 switches it off.
"""
from __future__ import annotations

import hashlib
import json
import os
import tempfile
from pathlib import Path

_DIGESTS: dict = {}


def _tree_digest(root: Path, pattern: str = '**/*.py') -> str:
    key = (str(root), pattern)
    if key not in _DIGESTS:
        h = hashlib.sha1()
        for p in sorted(root.glob(pattern)):
            if '__pycache__' in p.parts:
                continue
            try:
                h.update(str(p.relative_to(root)).encode())
                h.update(p.read_bytes())
            except OSError:
                h.update(b'?')
        _DIGESTS[key] = h.hexdigest()
    return _DIGESTS[key]


def cache_dir() -> Path | None:
    if os.environ.get('VERIF_NO_CACHE'):
        return None
    d = Path(os.environ.get('VERIF_CACHE_DIR') or (Path(tempfile.gettempdir()) / 'verif-sa-cache'))
    try:
        d.mkdir(parents=True, exist_ok=True)
        return d
    except OSError:
        return None


def key_for(repo: Path, name: str, extra: str, tier: str) -> str:
    own = _tree_digest(Path(__file__).resolve().parent)
    tree = _tree_digest(Path(repo) / 'excel2pycl') if (Path(repo) / 'excel2pycl').is_dir() else _tree_digest(Path(repo))
    return hashlib.sha1(f'{tree}|{own}|{name}|{extra}|{tier}'.encode()).hexdigest()


def load(key: str):
    d = cache_dir()
    if d is None:
        return None
    try:
        return json.loads((d / f'{key}.json').read_text())
    except (OSError, ValueError):
        return None


def _prune(d: Path, keep: int = 30000) -> None:
    """the cache holds the results for the trees seen lately: beyond `keep` entries the oldest go"""
    try:
        if os.getpid() % 64 or _DIGESTS.get('pruned'):      # one process in sixty-four looks, once
            return
        _DIGESTS['pruned'] = True
        files = sorted(d.glob('*.json'), key=lambda p: p.stat().st_mtime)
        for p in files[:-keep]:
            p.unlink(missing_ok=True)
    except OSError:
        pass


def store(key: str, data) -> None:
    d = cache_dir()
    if d is None:
        return
    try:
        fd, tmp = tempfile.mkstemp(dir=str(d), suffix='.tmp')
        with os.fdopen(fd, 'w') as f:
            json.dump(data, f)
        os.replace(tmp, d / f'{key}.json')
        _prune(d)
    except (OSError, TypeError, ValueError):
        pass
