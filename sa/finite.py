"""Engine F -- finite-domain abstract evaluation of the small predicates and coercion ladders of the runtime.

Values are abstract: a kind (int, float, bool, blank, str, date, datetime, none, list, ...) refined where needed by a sign,
an integrality flag, a text class, a precision tag (exact / truncated) or a small concrete carrier.  The evaluator follows
if / match / try-except / return / boolean and comparison operators / isinstance / type tests / membership in constant lists /
conditional expressions / calls of modelled builtins and of sibling methods (inlined).  It is used only where the analysed
code touches its inputs exclusively through such tests, so the partition is exact.  Nothing of the repository is executed.
"""
from __future__ import annotations

import ast
import itertools
from dataclasses import dataclass, field, replace

from .core import AnalysisError


_UNPARSED: dict = {}


def _unparse(node) -> str:
    """ast.unparse with a memo: the trees of the analysed sources are read again and again"""
    hit = _UNPARSED.get(id(node))
    if hit is not None and hit[0] is node:
        return hit[1]
    text = ast.unparse(node)
    _UNPARSED[id(node)] = (node, text)
    return text


_MUTATORS = {'append', 'extend', 'insert', 'pop', 'remove', 'clear', 'update', 'add', 'discard', 'setdefault', 'sort', 'reverse',
             'popitem', 'write', 'writelines', 'send', 'close', 'appendleft', 'popleft', 'difference_update', 'intersection_update',
             'symmetric_difference_update', '__setitem__', '__delitem__', '__setattr__'}
_READERS = {'copy', 'startswith', 'endswith', 'lower', 'upper', 'strip', 'lstrip', 'rstrip', 'format', 'join', 'split', 'get', 'keys',
            'values', 'items', 'index', 'count', 'replace', 'isdigit', 'isalpha', 'isalnum', 'title', 'find', 'rfind', 'zfill',
            'isupper', 'islower', 'partition', 'rpartition', 'splitlines', 'casefold', 'encode', 'decode', 'union', 'intersection',
            'difference', 'issubset', 'issuperset', 'isdisjoint', '__subclasses__', 'mro', 'findall', 'match', 'search', 'fullmatch',
            'sub', 'compile', 'finditer', 'group', 'groups', 'start', 'end', 'span', 'escape'}
_PURE_BUILTINS = {'len', 'isinstance', 'issubclass', 'set', 'list', 'tuple', 'dict', 'frozenset', 'str', 'int', 'float', 'bool', 'any', 'all',
                  'min', 'max', 'sum', 'sorted', 'reversed', 'enumerate', 'zip', 'range', 'type', 'repr', 'abs', 'super', 'getattr', 'hasattr',
                  'map', 'filter', 'ord', 'chr', 'round', 'id'}


def _fresh_expr(e) -> bool:
    """an expression whose value is an object made on the spot (no other holder)"""
    if isinstance(e, (ast.List, ast.ListComp, ast.Dict, ast.DictComp, ast.Set, ast.SetComp, ast.Tuple, ast.Constant, ast.JoinedStr)):
        return True
    if isinstance(e, ast.Call) and isinstance(e.func, ast.Name) and e.func.id in ('list', 'dict', 'set', 'sorted', 'tuple'):
        return True
    if isinstance(e, ast.Call) and isinstance(e.func, ast.Attribute) and e.func.attr == 'copy' and not e.args:
        return True
    if isinstance(e, ast.Subscript) and isinstance(e.slice, ast.Slice):
        return True
    if isinstance(e, ast.BinOp) and isinstance(e.op, ast.Add):
        return True
    return False


def pure_functions(class_table: dict, exception_names=(), assume_pure=()) -> set:
    """ids of the methods of `class_table` that are functions of their arguments and of the state fixed at import: they store to
    nothing but their own fresh locals (a constructor: to the attributes of the object under construction), and call only such
    methods, constructors of the table and reading builtins.  Conservative: anything not recognised makes the method impure.
    The result of such a method on equal arguments may be remembered (the parser tries the same span again and again)."""
    methods = {}                                   # id -> (cname, FunctionDef)
    by_name: dict = {}
    for cname, e in class_table.items():
        for mname, fn in e.get('methods', {}).items():
            if isinstance(fn, (ast.FunctionDef,)):
                methods[id(fn)] = (cname, fn)
                by_name.setdefault(mname, []).append(fn)
    local_bad, callees = {}, {}
    for fid, (cname, fn) in methods.items():
        bad = False
        calls = set()
        is_init = fn.name == '__init__'
        self_name = fn.args.args[0].arg if fn.args.args else None
        assigned: dict = {}
        aug_names: set = set()
        for n in ast.walk(fn):
            if isinstance(n, ast.Assign):
                for t in n.targets:
                    if isinstance(t, ast.Name):
                        assigned.setdefault(t.id, []).append(n.value)
                    elif isinstance(t, (ast.Tuple, ast.List)):
                        for el in ast.walk(t):
                            if isinstance(el, ast.Name):
                                assigned.setdefault(el.id, []).append(None)
            elif isinstance(n, (ast.AugAssign, ast.AnnAssign)) and isinstance(n.target, ast.Name):
                assigned.setdefault(n.target.id, []).append(n.value if isinstance(n, ast.AnnAssign) else None)
                if isinstance(n, ast.AugAssign):
                    aug_names.add(n.target.id)
            elif isinstance(n, ast.NamedExpr):
                assigned.setdefault(n.target.id, []).append(n.value)
            elif isinstance(n, (ast.For, ast.comprehension)):
                for el in ast.walk(n.target):
                    if isinstance(el, ast.Name):
                        assigned.setdefault(el.id, []).append(None)
        params = {a.arg for a in fn.args.posonlyargs + fn.args.args + fn.args.kwonlyargs} | \
                 ({fn.args.vararg.arg} if fn.args.vararg else set()) | ({fn.args.kwarg.arg} if fn.args.kwarg else set())

        def fresh_local(name):
            return name not in params and name in assigned and all(v is not None and _fresh_expr(v) for v in assigned[name])
        # `x += y` changes a list in place: only on a local that holds nothing but values made on the spot or numbers / texts
        for nm in aug_names:
            others = [v for v in assigned.get(nm, []) if v is not None]
            if nm in params or not others or not all(_fresh_expr(v) for v in others):
                bad = True
        for n in ast.walk(fn):
            if isinstance(n, (ast.Global, ast.Nonlocal, ast.Delete, ast.Yield, ast.YieldFrom, ast.Await, ast.With, ast.AsyncWith)):
                bad = True
            elif isinstance(n, (ast.Attribute, ast.Subscript)) and isinstance(n.ctx, (ast.Store, ast.Del)):
                base = n.value
                if isinstance(n, ast.Attribute) and is_init and isinstance(base, ast.Name) and base.id == self_name:
                    continue
                if isinstance(n, ast.Attribute) and isinstance(base, ast.Name) and (base.id == 'cls' or base.id in class_table):
                    continue                        # state of a class: the evaluator counts these stores (state_version)
                if isinstance(base, ast.Name) and fresh_local(base.id):
                    continue
                bad = True
            elif isinstance(n, ast.Call):
                f = n.func
                if isinstance(f, ast.Name):
                    calls.add(('name', f.id))
                elif isinstance(f, ast.Attribute):
                    if f.attr in _MUTATORS:
                        class_held = isinstance(f.value, ast.Attribute) and isinstance(f.value.value, ast.Name) and \
                            (f.value.value.id == 'cls' or f.value.value.id in class_table)
                        if not class_held and not (isinstance(f.value, ast.Name) and fresh_local(f.value.id)):
                            bad = True
                    elif f.attr in _READERS and f.attr not in by_name:
                        pass
                    else:
                        calls.add(('attr', f.attr))
                else:
                    bad = True
        local_bad[fid] = bad
        callees[fid] = calls
    pure = {fid for fid, b in local_bad.items() if not b}
    for nm in assume_pure:                       # modelled natively by the caller: never evaluated
        by_name[nm] = []
    inits = by_name.get('__init__', [])
    changed = True
    while changed:
        changed = False
        for fid in list(pure):
            cname, fn = methods[fid]
            ok = True
            for kind, name in callees[fid]:
                if kind == 'name':
                    if name in _PURE_BUILTINS or name in exception_names:
                        continue
                    if name in class_table or name in ('cls',) or name in {a.arg for a in fn.args.args}:
                        # a constructor of the table (or of a class handed in): every constructor must be pure
                        if all(id(i) in pure for i in inits):
                            continue
                    # a local that holds a class (for token in tokens: token(...))
                    ok = False
                    break
                else:
                    targets = by_name.get(name)
                    if name in assume_pure:
                        continue
                    if not targets or not all(id(t) in pure for t in targets):
                        ok = False
                        break
            if not ok:
                pure.discard(fid)
                changed = True
    return pure


def memoizable(class_table: dict, names, exception_names=(), assume_pure=()):
    """(ids of the pure methods of `class_table` called `names`, ids of all its pure methods)"""
    pure = pure_functions(class_table, exception_names, assume_pure)
    return {id(fn) for e in class_table.values() for n, fn in e.get('methods', {}).items() if n in names and id(fn) in pure}, pure


@dataclass(frozen=True)
class AV:
    kind: str                      # int float bool blank str date datetime none list tuple func other
    sign: str | None = None        # neg zero pos   (numbers)
    frac: bool | None = None       # float with a fractional part?
    text: str | None = None        # str class: empty | int | dec | other | error
    prec: str = 'exact'            # exact | truncated
    val: object = None             # concrete carrier when known (small ints, bools, strings)
    items: tuple | None = None     # list / tuple contents when known
    origin: str = ''               # label of the input this value derives from

    def __repr__(self):
        bits = [self.kind]
        for a in ('sign', 'text'):
            if getattr(self, a):
                bits.append(getattr(self, a))
        if self.kind == 'float':
            bits.append('frac' if self.frac else 'whole')
        if self.prec != 'exact':
            bits.append(self.prec)
        if self.val is not None and self.kind in ('int', 'bool', 'str'):
            r_ = repr(self.val)
            bits.append(r_ if len(r_) <= 80 else r_[:60] + '...' + r_[-12:])
        return '<' + ' '.join(bits) + '>'


class Unknown(Exception):
    """the abstraction cannot decide this step"""


class AbsRaise(Exception):
    def __init__(self, exc: str, msg: str = ''):
        super().__init__(f'{exc}: {msg}')
        self.exc = exc


class _Ret(Exception):
    def __init__(self, v):
        self.v = v


class _Break(Exception):
    pass


class _Continue(Exception):
    pass


NUMERIC = ('int', 'float', 'bool', 'blank')


def const_av(v) -> AV:
    if v is None:
        return AV('none')
    if isinstance(v, bool):
        return AV('bool', sign='pos' if v else 'zero', val=v)
    if isinstance(v, int):
        return AV('int', sign='neg' if v < 0 else 'zero' if v == 0 else 'pos', val=v)
    if isinstance(v, float):
        return AV('float', sign='neg' if v < 0 else 'zero' if v == 0 else 'pos', frac=(v == v and abs(v) != float('inf') and v != int(v)), val=v)
    if isinstance(v, str):
        return AV('str', text=text_class(v), val=v)
    if isinstance(v, (list, tuple)):
        return AV('list' if isinstance(v, list) else 'tuple', items=tuple(const_av(x) for x in v))
    return AV('other')


ERROR_STRINGS = ('#NUM!', '#DIV/0!', '#N/A', '#NAME?', '#NULL!', '#REF!', '#VALUE!')


def text_class(s: str) -> str:
    if s == '':
        return 'empty'
    t = s.strip()
    try:
        int(t)
        return 'int'
    except ValueError:
        pass
    try:
        float(t)
        return 'dec'
    except ValueError:
        pass
    if s.startswith('#'):
        return 'error'
    return 'other'


def is_instance(v: AV, cls: str) -> bool:
    k = v.kind
    table = {
        'int': k in ('int', 'bool', 'blank'), 'float': k == 'float', 'bool': k == 'bool', 'str': k == 'str',
        'list': k == 'list', 'tuple': k == 'tuple', 'date': k in ('date', 'datetime'), 'datetime': k == 'datetime',
        'EmptyCell': k == 'blank', 'dict': k == 'dict', 'object': True, 'NoneType': k == 'none',
    }
    if cls not in table:
        if k == 'obj' and isinstance(v.val, tuple):
            return v.val[2] == cls
        if cls[:1].isupper() and k in ('int', 'float', 'bool', 'str', 'none', 'list', 'tuple', 'dict', 'date', 'datetime', 'blank'):
            return False                          # a plain value is not an instance of a library / repository class
        raise Unknown(f'isinstance(..., {cls})')
    return table[cls]


def type_name(v: AV) -> str:
    return {'blank': 'EmptyCell', 'none': 'NoneType'}.get(v.kind, v.kind)


def truth(v: AV) -> bool:
    k = v.kind
    if k in ('int', 'float', 'bool', 'blank'):
        if k == 'blank':
            return False
        if v.sign is None:
            raise Unknown('truth of a number of unknown sign')
        return v.sign != 'zero'
    if k == 'str':
        if v.text is None:
            raise Unknown('truth of unknown text')
        return v.text != 'empty'
    if k == 'none':
        return False
    if k in ('list', 'tuple'):
        if v.items is None:
            raise Unknown('truth of a list of unknown length')
        return bool(v.items)
    if k == 'other' and isinstance(v.val, tuple) and v.val[0] == 'py':
        return bool(v.val[1])
    if k in ('date', 'datetime', 'func', 'other', 'obj', 'regex'):
        return True
    if k in ('dict', 'set') and v.items is not None:
        return bool(v.items)
    raise Unknown(f'truth of {k}')


def to_int(v: AV) -> AV:
    k = v.kind
    if k == 'int':
        return v
    if k == 'bool':
        return AV('int', sign=v.sign, val=int(v.val) if v.val is not None else None, origin=v.origin)
    if k == 'blank':
        return AV('int', sign='zero', val=0, origin=v.origin)
    if k == 'float' and isinstance(v.val, float) and v.val == v.val and abs(v.val) != float('inf'):
        return replace(const_av(int(v.val)), prec='truncated' if v.val != int(v.val) else v.prec, origin=v.origin)
    if k == 'float':
        return AV('int', sign=v.sign if not v.frac else None, prec='truncated' if v.frac else v.prec, origin=v.origin)
    if k == 'str':
        if v.text == 'int':
            return AV('int', sign=None, origin=v.origin)
        raise AbsRaise('ValueError', f'int({v!r})')
    raise AbsRaise('TypeError', f'int({v!r})')


def to_float(v: AV) -> AV:
    k = v.kind
    if k == 'float':
        return v
    if k in ('int', 'bool') and isinstance(v.val, int) and abs(v.val) < 10 ** 300:
        return replace(const_av(float(v.val)), prec='truncated' if float(v.val) != v.val else v.prec, origin=v.origin)
    if k in ('int', 'bool', 'blank'):
        return AV('float', sign='zero' if k == 'blank' else v.sign, frac=False, prec=v.prec, origin=v.origin)
    if k == 'str':
        if v.text in ('int', 'dec'):
            return AV('float', sign=None, frac=(v.text == 'dec'), origin=v.origin)
        raise AbsRaise('ValueError', f'float({v!r})')
    raise AbsRaise('TypeError', f'float({v!r})')


def to_str(v: AV) -> AV:
    if v.kind == 'str':
        return v
    t = {'int': 'int', 'float': 'dec', 'bool': 'other', 'blank': 'int', 'none': 'other', 'date': 'other', 'datetime': 'other',
         'list': 'other', 'tuple': 'other'}.get(v.kind, 'other')
    return AV('str', text=t, origin=v.origin, prec=v.prec)


class Evaluator:
    """evaluates methods of one runtime class copy on abstract values"""

    def __init__(self, members: dict, hooks: dict | None = None, max_depth: int = 6):
        self.members = members            # name -> ast.FunctionDef (methods of the runtime class, EmptyCell.* included)
        self.hooks = hooks or {}          # method name -> callable(evaluator, args) -> AV   (records / stubs)
        self.max_depth = max_depth
        self.depth = 0
        self.trace: list = []
        self.heap: dict = {}              # object id -> {'cls': name, 'attrs': {name: AV}}
        self.functions: dict = {}         # module-level functions callable by bare name: name -> ast.FunctionDef
        self.class_state: dict = {}       # (class name, attribute) -> AV stored on the class itself while evaluating
        self.class_table: dict = {}       # class name -> {'mro': [names], 'attrs': {name: expr}, 'methods': {name: FunctionDef}}
        self.strict_sets = False          # sets are sets: no duplicates, and their iteration order is not known
        self.classes: dict = {}           # class name -> {method name: ast.FunctionDef} for heap objects of further classes

    # ---- functions ---------------------------------------------------------------------------------
    def call_method(self, name: str, args: list, self_av: AV | None = None, kwargs: dict | None = None) -> AV:
        if name in self.hooks:
            return self.hooks[name](self, args)
        fn = self.members.get(name)
        if fn is None and name == 'EmptyCell' and not args:
            return AV('blank', sign='zero')            # the nested blank class of the runtime copies
        if fn is None:
            raise Unknown(f'method {name} not found')
        if self.depth >= self.max_depth:
            raise Unknown(f'inlining depth exceeded at {name}')
        params = [a.arg for a in fn.args.posonlyargs + fn.args.args]
        static = any(isinstance(d, ast.Name) and d.id == 'staticmethod' for d in fn.decorator_list)
        env = {}
        if not static and params:
            env[params[0]] = self_av or AV('other', origin='self')
            params = params[1:]
        defaults = fn.args.defaults
        kwargs = kwargs or {}
        if any(k not in params for k in kwargs):
            raise AbsRaise('TypeError', f'{name}() got an unexpected keyword argument')
        for i, p in enumerate(params):
            if i < len(args):
                env[p] = args[i]
            elif p in kwargs:
                env[p] = kwargs[p]
            else:
                di = i - (len(params) - len(defaults))
                if di < 0:
                    raise AbsRaise('TypeError', f'{name}() missing {p}')
                try:
                    env[p] = const_av(ast.literal_eval(defaults[di]))
                except Exception:
                    raise Unknown(f'default of {p}')
        if fn.args.vararg is not None:
            env[fn.args.vararg.arg] = AV('tuple', items=tuple(args[len(params):]))
        elif len(args) > len(params):
            raise AbsRaise('TypeError', f'{name}() takes {len(params)} positional arguments but {len(args)} were given')
        self.depth += 1
        saved = getattr(self, 'prefix', '')
        self.prefix = name.rsplit('.', 1)[0] + '.' if '.' in name else ''
        try:
            self.exec_block(fn.body, env)
            return AV('none')
        except _Ret as r:
            return r.v
        finally:
            self.depth -= 1
            self.prefix = saved

    # ---- statements --------------------------------------------------------------------------------
    def exec_block(self, stmts, env):
        for st in stmts:
            self.exec_stmt(st, env)

    def exec_stmt(self, st, env):
        if isinstance(st, ast.Return):
            raise _Ret(self.ev(st.value, env) if st.value is not None else AV('none'))
        if isinstance(st, ast.Expr):
            if isinstance(st.value, ast.Constant):
                return
            c = st.value
            if isinstance(c, ast.Call) and isinstance(c.func, ast.Attribute) and c.func.attr == 'pop' and isinstance(c.func.value, ast.Name) and \
                    c.func.value.id in env and env[c.func.value.id].kind == 'list' and env[c.func.value.id].items is not None and \
                    len(c.args) <= 1:
                cur = env[c.func.value.id]
                k_ = -1
                if c.args:
                    kv_ = self.ev(c.args[0], env)
                    if not isinstance(kv_.val, int):
                        raise Unknown('pop index')
                    k_ = kv_.val
                items_ = list(cur.items)
                if not items_:
                    raise AbsRaise('IndexError', 'pop from empty list')
                items_.pop(k_)
                env[c.func.value.id] = self._fwd(cur, AV('list', items=tuple(items_)))
                return
            if isinstance(c, ast.Call) and isinstance(c.func, ast.Attribute) and c.func.attr in ('append', 'extend', 'add', 'update') and \
                    isinstance(c.func.value, ast.Name) and c.func.value.id in env and env[c.func.value.id].kind == 'list' and \
                    env[c.func.value.id].items is not None and len(c.args) == 1:
                cur = env[c.func.value.id]
                v = self.ev(c.args[0], env)
                if c.func.attr in ('append', 'add'):
                    env[c.func.value.id] = self._fwd(cur, AV('list', items=cur.items + (v,)))
                else:
                    if v.items is None:
                        raise Unknown('extend with unknown contents')
                    env[c.func.value.id] = self._fwd(cur, AV('list', items=cur.items + tuple(v.items)))
                return
            if isinstance(c, ast.Call) and isinstance(c.func, ast.Attribute) and not c.keywords and \
                    c.func.attr in ('append', 'extend', 'update', 'clear', 'add', 'insert') and \
                    isinstance(c.func.value, (ast.Name, ast.Attribute, ast.Subscript)):
                try:
                    recv_ = self.ev(c.func.value, env)
                except Unknown:
                    recv_ = None
                plain_ = self.unbox(recv_) if recv_ is not None else None
                if plain_ is not None and plain_.kind in ('list', 'dict') and plain_.items is not None:
                    args_ = [self.unbox(self.ev(a, env)) for a in c.args]
                    how_ = c.func.attr

                    def new_of(cur, args_=args_, how_=how_):
                        if cur.kind == 'list' and how_ in ('append', 'add') and len(args_) == 1:
                            return AV('list', items=cur.items + (args_[0],))
                        if cur.kind == 'list' and how_ == 'extend' and len(args_) == 1 and args_[0].items is not None:
                            return AV('list', items=cur.items + tuple(args_[0].items))
                        if cur.kind == 'list' and how_ == 'insert' and len(args_) == 2 and isinstance(args_[0].val, int):
                            items_ = list(cur.items)
                            items_.insert(args_[0].val, args_[1])
                            return AV('list', items=tuple(items_))
                        if how_ == 'clear' and not args_:
                            return AV(cur.kind, items=())
                        if cur.kind == 'dict' and how_ == 'update' and len(args_) == 1 and args_[0].items is not None:
                            out_ = cur
                            for kv in args_[0].items:
                                if kv.items is None or len(kv.items) != 2:
                                    raise Unknown('update with entries of unknown shape')
                                out_ = self._with_entry(out_, kv.items[0], kv.items[1])
                            return out_
                        raise Unknown(f'{how_} on a modelled container')
                    self.change_container(c.func.value, new_of, env)
                    return
            self.ev(st.value, env)
            return
        if isinstance(st, ast.Pass):
            return
        if isinstance(st, (ast.Assign, ast.AnnAssign)):
            if isinstance(st, ast.AnnAssign) and st.value is None:
                return
            v = self.ev(st.value, env)
            targets = st.targets if isinstance(st, ast.Assign) else [st.target]
            for t in targets:
                if isinstance(t, ast.Name):
                    env[t.id] = v
                elif isinstance(t, (ast.Tuple, ast.List)):
                    self.bind_target(t, v, env)
                elif isinstance(t, ast.Subscript) and isinstance(t.value, ast.Name) and t.value.id in env and \
                        env[t.value.id].kind == 'dict' and env[t.value.id].items is not None:
                    cur_ = env[t.value.id]
                    key_ = self.ev(t.slice, env)
                    env[t.value.id] = self._fwd(cur_, self._with_entry(cur_, key_, v))
                elif isinstance(t, (ast.Attribute, ast.Subscript)):
                    self.assign_to(t, v, env)
                else:
                    raise Unknown('assignment target')
            return
        if isinstance(st, ast.AugAssign) and isinstance(st.target, ast.Name):
            env[st.target.id] = self.ev(ast.BinOp(left=ast.Name(id=st.target.id, ctx=ast.Load()), op=st.op, right=st.value), env)
            return
        if isinstance(st, ast.AugAssign) and isinstance(st.target, (ast.Attribute, ast.Subscript)):
            import copy as _copy
            load_ = _copy.deepcopy(st.target)
            load_.ctx = ast.Load()
            self.assign_to(st.target, self.ev(ast.BinOp(left=load_, op=st.op, right=st.value), env), env)
            return
        if isinstance(st, ast.If):
            if truth(self.ev(st.test, env)):
                self.exec_block(st.body, env)
            else:
                self.exec_block(st.orelse, env)
            return
        if isinstance(st, ast.Try):
            before = dict(env)
            try:
                self.exec_block(st.body, env)
            except AbsRaise as r:
                # what the failed attempt re-bound before it failed stays re-bound for the handler and everything after it
                for k_, v_ in before.items():
                    if k_ in env and env[k_] is not v_ and env[k_] != v_:
                        self.trace.append(('leak', k_, v_, env[k_], r.exc))
                for h in st.handlers:
                    names = None if h.type is None else [getattr(x, 'id', getattr(x, 'attr', '?')) for x in
                                                         (h.type.elts if isinstance(h.type, ast.Tuple) else [h.type])]
                    if self._exc_matches(r.exc, names):
                        self.trace.append(('caught', r.exc))
                        if h.name:
                            env[h.name] = AV('other', val=('exception', r.exc))
                        if not hasattr(self, '_handling'):
                            self._handling = []
                        self._handling.append(r)
                        try:
                            self.exec_block(h.body, env)
                        finally:
                            self._handling.pop()
                        break
                else:
                    raise
            else:
                self.exec_block(st.orelse, env)
            finally:
                if st.finalbody:
                    self.exec_block(st.finalbody, env)
            return
        if isinstance(st, ast.Raise):
            if st.exc is None and getattr(self, '_handling', None):
                raise self._handling[-1]             # a bare raise inside a handler
            e = st.exc.func if isinstance(st.exc, ast.Call) else st.exc
            name = getattr(e, 'id', getattr(e, 'attr', '?')) if e is not None else '?'
            if isinstance(st.exc, ast.Call):
                # the arguments of the exception are evaluated first: a failure there is the exception that escapes
                for a_ in list(st.exc.args) + [k_.value for k_ in st.exc.keywords]:
                    try:
                        self.ev(a_.value if isinstance(a_, ast.Starred) else a_, env)
                    except Unknown:
                        pass
            if isinstance(e, ast.Name) and e.id in env and env[e.id].kind == 'other' and isinstance(env[e.id].val, tuple) and \
                    env[e.id].val[0] == 'exception':
                name = env[e.id].val[1]
            raise AbsRaise(name, 'explicit raise')
        if isinstance(st, ast.Match):
            subj = self.ev(st.subject, env)
            for case in st.cases:
                e2 = dict(env)
                if self.match_pattern(case.pattern, subj, e2) and (case.guard is None or truth(self.ev(case.guard, e2))):
                    env.update(e2)
                    self.exec_block(case.body, env)
                    return
            return
        if isinstance(st, (ast.Import, ast.ImportFrom)):
            return
        if isinstance(st, ast.Delete):
            for t in st.targets:
                if isinstance(t, ast.Name):
                    env.pop(t.id, None)
                elif isinstance(t, ast.Subscript) and not isinstance(t.slice, ast.Slice):
                    key_ = self.ev(t.slice, env)

                    def without(c, key_=key_):
                        if c.kind == 'dict' and c.items is not None:
                            kept = tuple(kv for kv in c.items if not self.eq(kv.items[0], key_))
                            if len(kept) == len(c.items):
                                raise AbsRaise('KeyError', 'del of a missing key')
                            return AV('dict', items=kept)
                        if c.kind == 'list' and c.items is not None and isinstance(key_.val, int):
                            items = list(c.items)
                            try:
                                del items[key_.val]
                            except IndexError:
                                raise AbsRaise('IndexError', 'list assignment index out of range')
                            return AV('list', items=tuple(items))
                        raise Unknown('del on a value of unknown contents')
                    self.change_container(t.value, without, env)
                elif isinstance(t, ast.Subscript) and isinstance(t.slice, ast.Slice):
                    def bnd(x):
                        if x is None:
                            return None
                        v_ = self.ev(x, env)
                        if not isinstance(v_.val, int):
                            raise Unknown('slice bound')
                        return v_.val
                    sl_ = slice(bnd(t.slice.lower), bnd(t.slice.upper), bnd(t.slice.step))

                    def without_slice(c, sl_=sl_):
                        if c.kind == 'list' and c.items is not None:
                            items = list(c.items)
                            del items[sl_]
                            return AV('list', items=tuple(items))
                        raise Unknown('del of a slice of a value of unknown contents')
                    self.change_container(t.value, without_slice, env)
                else:
                    raise Unknown('del target')
            return
        if isinstance(st, ast.With):
            for it in st.items:
                cm_ = self.ev(it.context_expr, env)
                if cm_.kind != 'obj':
                    raise Unknown('a context manager that is not a modelled object')
                at_ = self.obj_attrs(cm_)
                entered_ = self.call_value(at_['__enter__'], []) if '__enter__' in at_ else cm_
                if it.optional_vars is not None:
                    self.assign_to(it.optional_vars, entered_, env)
            try:
                self.exec_block(st.body, env)
            finally:
                for it in st.items:
                    cm_ = self.ev(it.context_expr, env) if isinstance(it.context_expr, ast.Name) else None
                if 'at_' in locals() and '__exit__' in at_:
                    self.call_value(at_['__exit__'], [AV('none'), AV('none'), AV('none')])
            return
        if isinstance(st, ast.FunctionDef) and not st.decorator_list:
            env[st.name] = AV('func', val=('closure', st, env))
            return
        if isinstance(st, ast.While):
            n_iter = 0
            while truth(self.ev(st.test, env)):
                n_iter += 1
                if n_iter > 2000:
                    raise Unknown('loop does not end within 2000 iterations on this carrier')
                try:
                    self.exec_block(st.body, env)
                except _Continue:
                    continue
                except _Break:
                    break
            else:
                self.exec_block(st.orelse, env)
            return
        if isinstance(st, ast.Break):
            raise _Break()
        if isinstance(st, ast.Continue):
            raise _Continue()
        if isinstance(st, ast.ClassDef) and not st.bases and not st.keywords and not st.decorator_list:
            env[st.name] = AV('other', val=('localclass', st.name, st))
            return
        if isinstance(st, ast.For):
            it = self.ordered(self.ev(st.iter, env))
            if it.kind not in ('list', 'tuple', 'set') or it.items is None:
                raise Unknown('loop over a collection of unknown contents')
            for x in it.items:
                self.bind_target(st.target, x, env)
                try:
                    self.exec_block(st.body, env)
                except _Continue:
                    continue
                except _Break:
                    break
            else:
                self.exec_block(st.orelse, env)
            return
        raise Unknown(f'statement {type(st).__name__}')

    def call_closure(self, clo, args: list) -> AV:
        _, fn, outer = clo
        a = fn.args
        if a.vararg or a.kwarg or a.kwonlyargs or a.posonlyargs or a.defaults or len(a.args) != len(args):
            raise Unknown(f'call of the local function {fn.name}')
        if self.depth >= self.max_depth:
            raise Unknown(f'inlining depth exceeded at {fn.name}')
        env = dict(outer)
        for p, v in zip(a.args, args):
            env[p.arg] = v
        self.depth += 1
        is_gen = any(isinstance(n, (ast.Yield, ast.YieldFrom)) for n in ast.walk(fn))
        if is_gen:
            if not hasattr(self, '_yields'):
                self._yields = []
            self._yields.append([])
        try:
            self.exec_block(fn.body, env)
            return AV('list', items=tuple(self._yields[-1])) if is_gen else AV('none')
        except _Ret as r:
            return AV('list', items=tuple(self._yields[-1])) if is_gen else r.v
        finally:
            self.depth -= 1
            if is_gen:
                self._yields.pop()

    def _fwd(self, old: AV, new: AV) -> AV:
        """an in-place change of a list / dict is a new value here; remember that `old` became `new`, so that a caller who passed
        the object to a helper sees the change (reference semantics of arguments)"""
        if not hasattr(self, 'forward'):
            self.forward = {}
        self.forward[id(old)] = (old, new)
        self._count_effect()
        if not hasattr(self, 'fw_log'):
            self.fw_log = []
        self.fw_log.append(id(old))
        return new

    def _count_effect(self):
        """a store into an object or an in-place change of a container: a change of the state remembered answers depend on, unless it
        happens in a method that (statically, see pure_functions) touches only what it made itself"""
        pure = getattr(self, 'pure_ids', None)
        if pure is None:
            return
        stack = getattr(self, '_fn_stack', None)
        if stack and id(stack[-1]) in pure:
            return
        self.state_version = getattr(self, 'state_version', 0) + 1

    def _latest(self, v: AV) -> AV:
        fw = getattr(self, 'forward', {})
        seen = 0
        while id(v) in fw and fw[id(v)][0] is v and seen < 10000:
            v = fw[id(v)][1]
            seen += 1
        return v

    def _write_back(self, node: ast.Call, env):
        """after a call: names passed as arguments refer to the latest state of the object they named"""
        for a in list(node.args) + [k.value for k in node.keywords]:
            if isinstance(a, ast.Name) and a.id in env and env[a.id].kind in ('list', 'dict'):
                env[a.id] = self._latest(env[a.id])

    def new_obj(self, cls: str, attrs: dict) -> AV:
        oid = len(self.heap) + 1
        self.heap[oid] = {'cls': cls, 'attrs': dict(attrs)}
        return AV('obj', val=('ref', oid, cls))

    def obj_attrs(self, v: AV) -> dict:
        return self.heap[v.val[1]]['attrs']

    # ---- carriers of standard-library numbers (decimal.Decimal, decimal.Context): concrete values computed by the library
    def _to_python(self, v: AV):
        import decimal as _d
        if v.kind == 'other' and isinstance(v.val, tuple) and v.val[0] == 'py':
            return v.val[1]
        if v.kind == 'other' and isinstance(v.val, tuple) and v.val[0] == 'name' and hasattr(_d, v.val[1]) and v.val[1].startswith('ROUND_'):
            return getattr(_d, v.val[1])
        if v.kind == 'none':
            return None
        if v.kind in ('int', 'float', 'bool', 'str') and v.val is not None and not isinstance(v.val, tuple):
            return v.val
        raise Unknown('a value without a concrete carrier handed to the decimal library')

    def _py(self, r) -> AV:
        import decimal as _d
        if isinstance(r, (_d.Decimal, _d.Context, bytes)):
            return AV('other', val=('py', r))
        return self._from_python(r)

    def _decimal_call(self, fn, args: list, kwargs: dict) -> AV:
        import decimal as _d
        try:
            return self._py(fn(*[self._to_python(a) for a in args], **{k: self._to_python(v) for k, v in kwargs.items()}))
        except _d.DecimalException as e_:
            raise AbsRaise(type(e_).__name__, str(e_))
        except (TypeError, ValueError, OverflowError, ZeroDivisionError) as e_:
            raise AbsRaise(type(e_).__name__, str(e_))

    def is_inst(self, v: AV, cls: str) -> bool:
        if v.kind == 'obj' and isinstance(v.val, tuple) and v.val[2] in self.class_table:
            return cls in self.class_table[v.val[2]]['mro'] or cls == 'object'
        return is_instance(v, cls)

    def bind_target(self, target, value: AV, env):
        """binds a loop / comprehension / unpacking target: names, nested tuples and lists, one starred name"""
        if isinstance(target, ast.Name):
            env[target.id] = value
            return
        if isinstance(target, (ast.Tuple, ast.List)):
            v = self.ordered(value)
            if v.items is None:
                raise Unknown('unpacking of a value of unknown contents')
            elts = target.elts
            star = [i for i, e in enumerate(elts) if isinstance(e, ast.Starred)]
            if not star:
                if len(v.items) != len(elts):
                    raise AbsRaise('ValueError', f'cannot unpack {len(v.items)} values into {len(elts)} names')
                for e, x in zip(elts, v.items):
                    self.bind_target(e, x, env)
                return
            if len(star) == 1 and len(v.items) >= len(elts) - 1:
                i = star[0]
                tail = len(elts) - i - 1
                for e, x in zip(elts[:i], v.items[:i]):
                    self.bind_target(e, x, env)
                self.bind_target(elts[i].value, AV('list', items=tuple(v.items[i:len(v.items) - tail])), env)
                for e, x in zip(elts[i + 1:], v.items[len(v.items) - tail:] if tail else ()):
                    self.bind_target(e, x, env)
                return
            raise AbsRaise('ValueError', 'not enough values to unpack')
        if isinstance(target, (ast.Attribute, ast.Subscript)):
            self.assign_to(target, value, env)
            return
        raise Unknown('binding target')

    def _comp_envs(self, generators, env):
        """the environments in which the element of a comprehension is evaluated, in order"""
        def gen(k, e2):
            if k == len(generators):
                yield e2
                return
            g = generators[k]
            it = self.ordered(self.ev(g.iter, e2))
            if it.items is None:
                raise Unknown('comprehension over a collection of unknown contents')
            for x in it.items:
                e3 = dict(e2)
                self.bind_target(g.target, x, e3)
                if all(truth(self.ev(c, e3)) for c in g.ifs):
                    yield from gen(k + 1, e3)
        yield from gen(0, dict(env))

    def _exc_matches(self, exc: str, names) -> bool:
        if names is None or exc in names or 'Exception' in names or 'BaseException' in names:
            return True
        import builtins
        be = getattr(builtins, exc, None)
        for n in names:
            bn = getattr(builtins, n, None)
            if isinstance(be, type) and isinstance(bn, type) and issubclass(be, bn):
                return True
            if exc in self.class_table and n in self.class_table[exc]['mro']:
                return True
            if n in getattr(self, 'exception_bases', {}).get(exc, ()):
                return True
        return False

    def _args(self, node: ast.Call, env) -> list:
        out = []
        for a in node.args:
            if isinstance(a, ast.Starred):
                v = self.ordered(self.ev(a.value, env))
                if v.items is None:
                    raise Unknown('* of a collection of unknown contents')
                out.extend(v.items)
            else:
                out.append(self.ev(a, env))
        return out

    def _deep_python(self, v: AV):
        v = self.unbox(v)
        if v.kind == 'none':
            return None
        if v.kind == 'dict' and v.items is not None:
            return {self._deep_python(kv.items[0]): self._deep_python(kv.items[1]) for kv in v.items}
        if v.kind in ('list', 'tuple') and v.items is not None:
            out = [self._deep_python(x) for x in v.items]
            return out if v.kind == 'list' else tuple(out)
        if v.kind in ('int', 'float', 'bool', 'str') and v.val is not None and not isinstance(v.val, tuple):
            return v.val
        raise Unknown('a value without a concrete carrier where a concrete one is needed')

    def _from_python(self, r) -> AV:
        if isinstance(r, tuple):
            return AV('tuple', items=tuple(self._from_python(x) for x in r))
        if isinstance(r, list):
            return AV('list', items=tuple(self._from_python(x) for x in r))
        if isinstance(r, dict):
            return AV('dict', items=tuple(AV('tuple', items=(self._from_python(k), self._from_python(v))) for k, v in r.items()))
        return const_av(r)

    def _regex_flags(self, node) -> int:
        import re as _re
        flags = 0
        for nm in ast.walk(node):
            if isinstance(nm, ast.Attribute) and hasattr(_re, nm.attr):
                flags |= getattr(_re, nm.attr)
        return flags

    def _pattern(self, node, env):
        """(pattern text, flags) of a pattern argument: a constant, a text built from constants, or a compiled pattern"""
        if isinstance(node, ast.Constant) and isinstance(node.value, str):
            return node.value, 0
        v = self.ev(node, env)
        if v.kind == 'regex':
            return v.val[1], v.val[2]
        if v.kind == 'str' and isinstance(v.val, str):
            return v.val, 0
        raise Unknown('a pattern that is not a known text')

    def _regex_call(self, how: str, pat: str, flags: int, args: list) -> AV:
        import re as _re
        try:
            rx = _re.compile(pat, flags)
        except _re.error as e_:
            raise AbsRaise('error', str(e_))
        subj = args[-1] if how != 'sub' else (args[1] if len(args) > 1 else None)
        if subj is None:
            raise Unknown('regex call without a subject')
        if subj.kind != 'str':
            raise AbsRaise('TypeError', 'expected string or bytes-like object')
        if not isinstance(subj.val, str):
            raise Unknown('regex on a text without a concrete carrier')
        if how == 'findall':
            return self._from_python(rx.findall(subj.val))
        if how in ('match', 'fullmatch', 'search'):
            m_ = getattr(rx, how)(subj.val)
            return AV('other', val=('match', how, m_)) if m_ else AV('none')
        if how == 'finditer':
            return AV('list', items=tuple(AV('other', val=('match', how, m_)) for m_ in rx.finditer(subj.val)))
        if how == 'split':
            return self._from_python(rx.split(subj.val))
        if how == 'sub' and isinstance(args[0].val, str):
            return const_av(rx.sub(args[0].val, subj.val))
        raise Unknown(f're.{how}')

    def make_set(self, items) -> AV:
        if not self.strict_sets:
            return AV('list', items=tuple(items))
        out = []
        for x in items:
            if x.kind == 'obj' or (x.val is None and x.kind != 'none'):
                raise Unknown('a set of objects hashed by their class')
            if not any(y.kind == x.kind and y.val == x.val for y in out):
                out.append(x)
        return AV('set', items=tuple(out))

    def ordered(self, v: AV) -> AV:
        """the value as something to iterate over in a known order"""
        v = self.unbox(v)
        if v.kind == 'set' and v.items is not None and len(v.items) > 1:
            raise Unknown('the iteration order of a set')
        if v.kind == 'dict' and v.items is not None:
            return AV('list', items=tuple(kv.items[0] for kv in v.items))
        if v.kind == 'str' and isinstance(v.val, str) and len(v.val) <= 20000:
            return AV('list', items=tuple(const_av(ch) for ch in v.val))
        return v

    # ---- boxed containers: a dict / list with reference semantics (what a library hands out and the code under analysis aliases)
    def box(self, av: AV) -> AV:
        return self.new_obj(av.kind, {'items': av})

    def is_box(self, v: AV) -> bool:
        return v.kind == 'obj' and isinstance(v.val, tuple) and v.val[2] in ('dict', 'list') and 'items' in self.heap[v.val[1]]['attrs']

    def unbox(self, v: AV) -> AV:
        return self.heap[v.val[1]]['attrs']['items'] if self.is_box(v) else v

    def deep_unbox(self, v: AV) -> AV:
        v = self.unbox(v)
        if v.items is not None and v.kind in ('list', 'tuple', 'dict'):
            return replace(v, items=tuple(self.deep_unbox(x) for x in v.items))
        return v

    def class_method(self, obj, name: str):
        if obj is not None and obj.kind == 'obj' and isinstance(obj.val, tuple):
            got = self.classes.get(obj.val[2], {}).get(name)
            if got is None and obj.val[2] in self.class_table:
                hit = self.class_lookup(obj.val[2], name)
                if hit is not None and hit[0] == 'method':
                    return hit[1]
            return got
        return None

    # ---- classes of the repository as values: attributes and methods are found along the MRO -------------------
    def is_class_value(self, v: AV) -> bool:
        return v.kind == 'other' and isinstance(v.val, tuple) and len(v.val) >= 2 and v.val[0] in ('class', 'name') and \
            v.val[1] in self.class_table

    def class_lookup(self, cname: str, attr: str):
        for k in self.class_table[cname]['mro']:
            if (k, attr) in self.class_state:
                return ('value', self.class_state[(k, attr)], k)
            e = self.class_table.get(k)
            if e is None:
                continue
            if attr in e['methods']:
                return ('method', e['methods'][attr], k)
            if attr in e['attrs']:
                return ('attr', e['attrs'][attr], k)
        return None

    def call_class_func(self, fn: ast.FunctionDef, cls_av: AV, args: list, kwargs: dict | None = None) -> AV:
        decos = {d.id for d in fn.decorator_list if isinstance(d, ast.Name)}
        if 'staticmethod' in decos:
            return self.call_function(fn, list(args), kwargs)
        if 'classmethod' in decos:
            return self.call_function(fn, [cls_av] + list(args), kwargs)
        return self.call_function(fn, list(args), kwargs)          # a plain function reached through the class

    def construct(self, cname: str, args: list, kwargs: dict | None = None) -> AV:
        obj = self.new_obj(cname, {})
        hit = self.class_lookup(cname, '__init__')
        fields_ = self.class_table[cname].get('fields')
        if hit is None and fields_ is not None:
            # a dataclass: the generated __init__ binds the fields in order, defaults for the rest, then __post_init__
            names_ = [n for n, _ in fields_]
            kwargs = dict(kwargs or {})
            if len(args) > len(names_) or any(k not in names_ for k in kwargs):
                raise AbsRaise('TypeError', f'{cname}() got unexpected arguments')
            vals_ = dict(zip(names_, args))
            for k, v in kwargs.items():
                if k in vals_:
                    raise AbsRaise('TypeError', f'{cname}() got multiple values for {k}')
                vals_[k] = v
            at_ = self.obj_attrs(obj)
            for n, d in fields_:
                if n in vals_:
                    at_[n] = vals_[n]
                elif d is not None:
                    at_[n] = self.ev(d, {})
                else:
                    raise AbsRaise('TypeError', f'{cname}() missing {n}')
            post_ = self.class_lookup(cname, '__post_init__')
            if post_ is not None and post_[0] == 'method':
                self.call_function(post_[1], [obj])
            return obj
        if hit is not None and hit[0] == 'method':
            self.call_function(hit[1], [obj] + list(args), kwargs)
        elif args or kwargs:
            raise AbsRaise('TypeError', f'{cname}() takes no arguments')
        return obj

    def call_bound(self, fn: ast.FunctionDef, obj: AV, args: list, kwargs: dict | None = None) -> AV:
        static = any(isinstance(d, ast.Name) and d.id == 'staticmethod' for d in fn.decorator_list)
        return self.call_function(fn, list(args) if static else [obj] + list(args), kwargs)

    def _references(self, cur: AV, env) -> int:
        """how many places visible here hold this very container (names of the frame, attributes of heap objects, entries of
        containers held there)"""
        n = 0

        def look(v, depth):
            nonlocal n
            if v is cur:
                n += 1
                return
            if depth and v.items is not None and v.kind in ('list', 'tuple', 'dict'):
                for x in v.items:
                    look(x, depth - 1)
        for v in env.values():
            if isinstance(v, AV):
                look(v, 2)
        for o in self.heap.values():
            for v in o['attrs'].values():
                if isinstance(v, AV):
                    look(v, 2)
        return n

    def assign_to(self, t, v: AV, env, old: AV | None = None):
        """store into a name, an attribute of a modelled object, or an entry of a container held in one of those (the holder is
        re-bound to the changed container; a container that is visible under two names is not followed)"""
        if isinstance(t, ast.Name):
            env[t.id] = self._fwd(old, v) if old is not None else v
            return
        if isinstance(t, ast.Attribute):
            base = self.ev(t.value, env)
            if self.is_class_value(base):
                self.class_state[(base.val[1], t.attr)] = v
                self.state_version = getattr(self, 'state_version', 0) + 1
                return
            if base.kind != 'obj':
                raise Unknown('attribute store on a value that is not a modelled object')
            self.obj_attrs(base)[t.attr] = v
            self._count_effect()
            return
        if isinstance(t, ast.Subscript) and not isinstance(t.slice, ast.Slice):
            key = self.ev(t.slice, env)
            self.change_container(t.value, lambda c: self._with_entry(c, key, v), env)
            return
        raise Unknown('assignment target')

    def _with_entry(self, c: AV, key: AV, v: AV) -> AV:
        if c.kind == 'dict' and c.items is not None:
            hit = any(self.eq(kv.items[0], key) for kv in c.items)
            if hit:          # a re-assigned key keeps its position
                return AV('dict', items=tuple(AV('tuple', items=(kv.items[0], v)) if self.eq(kv.items[0], key) else kv for kv in c.items))
            return AV('dict', items=c.items + (AV('tuple', items=(key, v)),))
        if c.kind == 'list' and c.items is not None and isinstance(key.val, int) and not isinstance(key.val, bool):
            if -len(c.items) <= key.val < len(c.items):
                items = list(c.items)
                items[key.val] = v
                return AV('list', items=tuple(items))
            raise AbsRaise('IndexError', 'list assignment index out of range')
        raise Unknown('subscript store')

    def change_container(self, node, new_of, env):
        """the container `node` evaluates to is changed in place: boxed containers change where they are, plain ones are
        re-bound in their holder"""
        cur = self.ev(node, env)
        if self.is_box(cur):
            at = self.obj_attrs(cur)
            at['items'] = new_of(at['items'])
            return
        if not isinstance(node, ast.Name) and self._references(cur, env) > 1:
            raise Unknown('in-place change of a container that is visible under two names')
        self.assign_to(node, new_of(cur), env, old=cur)

    def _memo_key(self, v: AV, depth: int = 0):
        if depth > 6:
            return None
        if v.kind == 'obj' and isinstance(v.val, tuple):
            return ('o', v.val[1])
        if v.kind in ('list', 'tuple', 'dict'):
            if v.items is None:
                return None
            ks = []
            for x in v.items:
                k = self._memo_key(x, depth + 1)
                if k is None:
                    return None
                ks.append(k)
            return (v.kind, tuple(ks))
        if v.kind == 'none':
            return ('none',)
        if v.kind == 'other' and isinstance(v.val, tuple) and v.val and v.val[0] in ('class', 'name') and len(v.val) == 2 and isinstance(v.val[1], str):
            return v.val
        if v.kind in ('int', 'float', 'bool', 'str') and v.val is not None and isinstance(v.val, (int, float, bool, str)):
            return (v.kind, v.val)
        return None

    def call_function(self, fn: ast.FunctionDef, args: list, kwargs: dict | None = None) -> AV:
        """a function; the answer of a pure method (see pure_functions) on arguments seen before is the answer given before"""
        memo_fns = getattr(self, 'memo_functions', None)
        if not memo_fns or id(fn) not in memo_fns or kwargs:
            return self._call_function(fn, args, kwargs)
        ks = []
        for a in args:
            k = self._memo_key(a)
            if k is None:
                return self._call_function(fn, args, kwargs)
            ks.append(k)
        key = (id(fn), tuple(ks))
        memo = self.__dict__.setdefault('_pure_memo', {})
        hit = memo.get(key)
        before = getattr(self, 'state_version', 0)
        if hit is not None and hit[2] == before:
            self.memo_hits = getattr(self, 'memo_hits', 0) + 1
            if hit[0] == 'raise':
                raise hit[1]
            return hit[1]
        try:
            out = self._call_function(fn, args, kwargs)
        except AbsRaise as e:
            if getattr(self, 'state_version', 0) == before:          # an answer given while the state moved is not remembered
                memo[key] = ('raise', e, before)
            raise
        if getattr(self, 'state_version', 0) == before:
            memo[key] = ('value', out, before)
        return out

    def _call_function(self, fn: ast.FunctionDef, args: list, kwargs: dict | None = None) -> AV:
        """a module-level function (no self)"""
        if self.depth >= self.max_depth:
            raise Unknown(f'inlining depth exceeded at {fn.name}')
        params = [a.arg for a in fn.args.posonlyargs + fn.args.args]
        env = {}
        defaults = fn.args.defaults
        kwargs = kwargs or {}
        for i, p in enumerate(params):
            if i < len(args):
                env[p] = args[i]
            elif p in kwargs:
                env[p] = kwargs[p]
            else:
                di = i - (len(params) - len(defaults))
                if di < 0:
                    raise AbsRaise('TypeError', f'{fn.name}() missing {p}')
                env[p] = self.ev(defaults[di], {})
        if fn.args.vararg is not None:
            env[fn.args.vararg.arg] = AV('tuple', items=tuple(args[len(params):]))
        elif len(args) > len(params):
            raise AbsRaise('TypeError', f'{fn.name}() takes {len(params)} positional arguments but {len(args)} were given')
        if fn.args.kwarg is not None:
            env[fn.args.kwarg.arg] = AV('dict', items=tuple(AV('tuple', items=(const_av(k_), v_)) for k_, v_ in kwargs.items() if k_ not in params))
        self.depth += 1
        if not hasattr(self, '_fn_stack'):
            self._fn_stack = []
        self._fn_stack.append(fn)
        try:
            self.exec_block(fn.body, env)
            return AV('none')
        except _Ret as r:
            return r.v
        finally:
            self._fn_stack.pop()
            self.depth -= 1

    def call_value(self, f: AV, args: list) -> AV:
        if f.kind == 'other' and isinstance(f.val, tuple) and f.val[0] == 'name' and f.val[1] in (
                'len', 'str', 'int', 'float', 'bool', 'min', 'max', 'sum', 'any', 'all', 'sorted', 'abs', 'list', 'tuple', 'set', 'repr', 'round',
                'reversed', 'enumerate', 'ord', 'chr'):
            call = ast.Call(func=ast.Name(id=f.val[1], ctx=ast.Load()), args=[ast.Name(id=f'_arg{i}', ctx=ast.Load()) for i in range(len(args))],
                            keywords=[])
            return self.call(call, {f'_arg{i}': a for i, a in enumerate(args)})
        if f.kind == 'func' and isinstance(f.val, tuple):
            if f.val[0] == 'closure':
                return self.call_closure(f.val, args)
            if f.val[0] == 'lambda':
                return self.call_lambda(f.val, args)
            if f.val[0] == 'native':
                return f.val[1](args)
        raise Unknown('call of an unknown function value')

    def call_lambda(self, lam, args: list) -> AV:
        _, node, outer = lam
        a = node.args
        if a.vararg or a.kwarg or a.kwonlyargs or a.posonlyargs or a.defaults or len(a.args) != len(args):
            raise Unknown('call of a lambda with an unmodelled signature')
        env = dict(outer)
        for p, v in zip(a.args, args):
            env[p.arg] = v
        return self.ev(node.body, env)

    def match_pattern(self, p, subj: AV, env) -> bool:
        if isinstance(p, ast.MatchValue):
            return self.eq(subj, self.ev(p.value, env))
        if isinstance(p, ast.MatchSingleton):
            return self.eq(subj, const_av(p.value))
        if isinstance(p, ast.MatchAs):
            if p.pattern is not None and not self.match_pattern(p.pattern, subj, env):
                return False
            if p.name:
                env[p.name] = subj
            return True
        if isinstance(p, ast.MatchOr):
            return any(self.match_pattern(q, subj, env) for q in p.patterns)
        if isinstance(p, ast.MatchClass) and not p.patterns and not p.kwd_patterns:
            return any(self.is_inst(subj, c) for c in self._class_names(p.cls, env))
        raise Unknown(f'pattern {type(p).__name__}')

    # ---- expressions -------------------------------------------------------------------------------
    def ev(self, node, env) -> AV:
        """every read of a list / dict sees its latest state (an in-place change re-binds one holder and forwards the old value to
        the new one: all other holders -- aliases, frames of callers, comprehension scopes -- follow the forward)"""
        v = self._ev(node, env)
        if v.kind in ('list', 'dict', 'tuple') and getattr(self, 'forward', None):
            return self._deep_latest(v)
        return v

    def _deep_latest(self, v: AV, depth: int = 4) -> AV:
        """the latest state of a container and of the containers it holds (an element changed in place through another name).
        A container is looked through again only when one of the containers inside it was forwarded since the last look."""
        v = self._latest(v) if v.kind in ('list', 'dict') else v
        if depth <= 0 or v.items is None or not v.items:
            return v
        fw = self.forward
        log = getattr(self, 'fw_log', None)
        if log is None:
            log = self.fw_log = list(fw)
        memo = getattr(self, '_dl_memo', None)
        if memo is None:
            memo = self._dl_memo = {}
        key = (id(v), depth)
        hit = memo.get(key)
        if hit is not None and hit[0] is v:
            _, gen, out, desc = hit
            if gen == len(log):
                return out
            moved = False
            for i in range(gen, len(log)):
                if log[i] in desc:
                    moved = True
                    break
            if not moved:
                memo[key] = (v, len(log), out, desc)
                return out
        changed = False
        items = []
        desc = {id(v)}
        for x in v.items:
            if x.kind in ('list', 'dict', 'tuple'):
                y = self._deep_latest(x, depth - 1)
                changed = changed or (y is not x)
                items.append(y)
                sub = memo.get((id(y), depth - 1))
                desc.add(id(y))
                if sub is not None and sub[0] is y:
                    desc |= sub[3]
            else:
                items.append(x)
        out = replace(v, items=tuple(items)) if changed else v
        if changed:
            fw[id(v)] = (v, out)             # the holder follows its elements
            log.append(id(v))
            desc.add(id(out))
            memo[(id(out), depth)] = (out, len(log), out, desc)
        memo[key] = (v, len(log), out, desc)
        return out

    def _ev(self, node, env) -> AV:
        if isinstance(node, ast.Constant):
            return const_av(node.value)
        if isinstance(node, ast.Name):
            if node.id in env:
                return env[node.id]
            if node.id in ('True', 'False', 'None'):
                return const_av({'True': True, 'False': False, 'None': None}[node.id])
            if node.id in self.class_table:
                return AV('other', val=('class', node.id))
            mod = getattr(self, 'module_consts', {})
            if node.id in mod:
                try:
                    return self.ev(mod[node.id], {})            # a module-level table / constant of the copy
                except Unknown:
                    return AV('other', val=('name', node.id))
            return AV('other', val=('name', node.id))
        if isinstance(node, ast.IfExp):
            return self.ev(node.body, env) if truth(self.ev(node.test, env)) else self.ev(node.orelse, env)
        if isinstance(node, ast.BoolOp):
            v = None
            for e in node.values:
                v = self.ev(e, env)
                t = truth(v)
                if isinstance(node.op, ast.And) and not t:
                    return v
                if isinstance(node.op, ast.Or) and t:
                    return v
            return v
        if isinstance(node, ast.UnaryOp):
            v = self.ev(node.operand, env)
            if isinstance(node.op, ast.Not):
                return const_av(not truth(v))
            if isinstance(node.op, (ast.USub, ast.UAdd)) and v.kind == 'other' and isinstance(v.val, tuple) and v.val[0] == 'py':
                return self._py(-v.val[1] if isinstance(node.op, ast.USub) else +v.val[1])
            if isinstance(node.op, ast.USub) and v.kind in ('int', 'float'):
                s = {'neg': 'pos', 'pos': 'neg', 'zero': 'zero', None: None}[v.sign]
                return replace(v, sign=s, val=(-v.val if v.val is not None else None))
            raise Unknown('unary operator')
        if isinstance(node, ast.Compare):
            left = self.ev(node.left, env)
            for op, rn in zip(node.ops, node.comparators):
                right = self.ev(rn, env)
                if not self.compare(op, left, right, rn, env):
                    return const_av(False)
                left = right
            return const_av(True)
        if isinstance(node, (ast.List, ast.Tuple)):
            items_ = []
            for e in node.elts:
                if isinstance(e, ast.Starred):
                    sv_ = self.ordered(self.ev(e.value, env))
                    if sv_.items is None:
                        raise Unknown('* of a collection of unknown contents')
                    items_.extend(sv_.items)
                else:
                    items_.append(self.ev(e, env))
            return AV('list' if isinstance(node, ast.List) else 'tuple', items=tuple(items_))
        if isinstance(node, ast.Call):
            return self.call(node, env)
        if isinstance(node, ast.Attribute):
            base = node.value
            # class references: datetime.date / datetime.datetime / self.EmptyCell / self.__class__
            txt = _unparse(node)
            if isinstance(node.value, ast.Name) and node.value.id == 'operator' and node.attr in ('eq', 'ne', 'lt', 'le', 'gt', 'ge', 'add', 'sub'):
                opn = {'eq': ast.Eq, 'ne': ast.NotEq, 'lt': ast.Lt, 'le': ast.LtE, 'gt': ast.Gt, 'ge': ast.GtE}.get(node.attr)
                if opn is not None:
                    return AV('func', val=('native', lambda a_, opn=opn: const_av(self.compare(opn(), a_[0], a_[1]))))
            if txt in getattr(self, 'text_attrs', {}):
                return self.text_attrs[txt]
            cc = getattr(self, 'class_consts', {})
            if isinstance(node.value, ast.Name) and node.value.id in ('self', 'cls') and node.attr in cc and \
                    not (node.value.id in env and env[node.value.id].kind == 'obj' and node.attr in self.obj_attrs(env[node.value.id])):
                try:
                    return self.ev(cc[node.attr], {})            # a class-level constant of the copy
                except Unknown:
                    return AV('other', val=('name', 'self.' + node.attr))     # an opaque named object (a sentinel, ...)
            if txt in ('datetime.date', 'datetime.datetime', 'self.EmptyCell', 'self.__class__', 'date_parser.ParserError') and \
                    not (txt == 'self.__class__' and 'self' in env and env['self'].kind == 'obj' and env['self'].val[2] in self.class_table):
                return AV('other', val=('class', {'datetime.date': 'date', 'datetime.datetime': 'datetime',
                                                  'self.EmptyCell': 'EmptyCell', 'self.__class__': 'EmptyCell'}.get(txt, txt)))
            if txt == 'self.__class__' and 'self' in env and env['self'].kind == 'obj':
                return AV('other', val=('class', env['self'].val[2]))
            v = self.ev(base, env)
            if self.is_class_value(v):
                if node.attr == '__name__':
                    return const_av(v.val[1])
                hit_ = self.class_lookup(v.val[1], node.attr)
                if hit_ is None:
                    raise AbsRaise('AttributeError', f'type object {v.val[1]} has no attribute {node.attr}')
                if hit_[0] == 'value':
                    return hit_[1]
                if hit_[0] == 'attr':
                    try:
                        return self.ev(hit_[1], {})
                    except Unknown:
                        return AV('other', val=('name', f'{v.val[1]}.{node.attr}'))
                return AV('func', val=('native', lambda a, fn_=hit_[1], c_=AV('other', val=('class', v.val[1])): self.call_class_func(fn_, c_, a)))
            if v.kind == 'obj':
                at = self.obj_attrs(v)
                if node.attr in at:
                    return at[node.attr]
                if v.val[2] in self.class_table and self.class_method(v, node.attr) is None:
                    hit_ = self.class_lookup(v.val[2], node.attr)
                    if hit_ is not None and hit_[0] == 'value':
                        return hit_[1]
                    if hit_ is not None and hit_[0] == 'attr':         # a class-level attribute read through the instance
                        try:
                            return self.ev(hit_[1], {})
                        except Unknown:
                            return AV('other', val=('name', f'{v.val[2]}.{node.attr}'))
                cm_ = self.class_method(v, node.attr)
                if cm_ is not None:
                    if any(isinstance(d, ast.Name) and d.id in ('property', 'cached_property') for d in cm_.decorator_list):
                        return self.call_bound(cm_, v, [])
                    return AV('func', val=('native', lambda a, cm_=cm_, v=v: self.call_bound(cm_, v, a)))
                if isinstance(node.value, ast.Name) and node.value.id == 'self' and node.attr in self.members:
                    return AV('func', val=('native', lambda a, n_=node.attr, v=v: self.call_method(n_, a, v)))
                if node.attr == '__class__':
                    return AV('other', val=('class', v.val[2]))
                raise AbsRaise('AttributeError', f'{v.val[2]} has no attribute {node.attr}')
            if v.kind in ('date', 'datetime') and node.attr in ('year', 'month', 'day'):
                if isinstance(v.val, tuple) and v.val and v.val[0] == 'ymd':
                    return const_av(v.val[1 + ('year', 'month', 'day').index(node.attr)])
                return AV('int', sign='pos', origin=v.origin)
            raise Unknown(f'attribute {node.attr} of {v!r}')
        if isinstance(node, ast.BinOp):
            a, b = self.ev(node.left, env), self.ev(node.right, env)
            if any(x.kind == 'other' and isinstance(x.val, tuple) and x.val[0] == 'py' for x in (a, b)):
                import operator as _op
                import decimal as _d
                fn_ = {ast.Add: _op.add, ast.Sub: _op.sub, ast.Mult: _op.mul, ast.Div: _op.truediv, ast.FloorDiv: _op.floordiv,
                       ast.Mod: _op.mod, ast.Pow: _op.pow}.get(type(node.op))
                if fn_ is None:
                    raise Unknown('operator on a decimal')
                try:
                    return self._py(fn_(self._to_python(a), self._to_python(b)))
                except _d.DecimalException as e_:
                    raise AbsRaise(type(e_).__name__, str(e_))
                except (TypeError, ZeroDivisionError, OverflowError) as e_:
                    raise AbsRaise(type(e_).__name__, str(e_))
            if isinstance(node.op, ast.BitOr) and self.unbox(a).kind == 'dict' and self.unbox(b).kind == 'dict':
                a, b = self.unbox(a), self.unbox(b)
                if a.items is None or b.items is None:
                    raise Unknown('union of mappings of unknown contents')
                out_ = a
                for kv in b.items:
                    out_ = self._with_entry(out_, kv.items[0], kv.items[1])
                return AV('dict', items=out_.items)
            if isinstance(node.op, (ast.Add, ast.Sub)) and a.kind in ('date', 'datetime') and b.kind == 'timedelta' and \
                    isinstance(a.val, tuple) and a.val[0] == 'day':
                k = b.val[1] if isinstance(node.op, ast.Add) else -b.val[1]
                return AV(a.kind, val=('day', a.val[1] + k), origin=a.origin)
            if isinstance(node.op, (ast.Add, ast.Sub)) and a.kind in ('date', 'datetime') and b.kind == 'timedelta' and \
                    isinstance(a.val, tuple) and a.val[0] == 'ymd' and isinstance(b.val, tuple) and b.val[0] in ('rel', 'days'):
                import datetime as _dt
                import calendar as _cal
                sg = 1 if isinstance(node.op, ast.Add) else -1
                yy, mm, dd = a.val[1:]
                ry, rm, rd = (b.val[1], b.val[2], b.val[3]) if b.val[0] == 'rel' else (0, 0, b.val[1])
                if b.val[0] == 'rel' and len(b.val) > 4:               # absolute fields replace those of the date before the shift
                    ay_, am_, ad_ = b.val[4:7]
                    if am_ is not None and not 1 <= am_ <= 12:
                        raise AbsRaise('ValueError', 'invalid month in relativedelta')
                    yy, mm, dd = (ay_ if ay_ is not None else yy), (am_ if am_ is not None else mm), (ad_ if ad_ is not None else dd)
                    if dd < 1:
                        raise AbsRaise('ValueError', 'day is out of range for month')
                k_ = (yy + sg * ry) * 12 + (mm - 1) + sg * rm          # years and months first, the day clipped to the month, then days
                yy, mm = divmod(k_, 12)
                mm += 1
                try:
                    if not 1 <= yy <= 9999:
                        raise ValueError('year is out of range')
                    dd = min(dd, _cal.monthrange(yy, mm)[1])
                    res_ = _dt.date(yy, mm, dd) + _dt.timedelta(days=sg * rd)
                except (ValueError, OverflowError) as e_:
                    raise AbsRaise(type(e_).__name__, str(e_))
                return AV(a.kind, val=('ymd', res_.year, res_.month, res_.day), origin=a.origin)
            if isinstance(node.op, ast.Sub) and a.kind in ('date', 'datetime') and a.kind == b.kind and isinstance(a.val, tuple) and \
                    isinstance(b.val, tuple) and a.val[0] == 'day' and b.val[0] == 'day':
                return AV('timedelta', val=('days', a.val[1] - b.val[1]))
            if isinstance(node.op, ast.Mult) and ((a.kind in ('list', 'tuple') and a.items is not None and isinstance(b.val, int)) or
                                                  (b.kind in ('list', 'tuple') and b.items is not None and isinstance(a.val, int))):
                seq_, n_ = (a, b.val) if a.items is not None else (b, a.val)
                if n_ > 10000:
                    raise Unknown('a very long repeated list')
                return AV(seq_.kind, items=tuple(seq_.items) * max(0, int(n_)))
            if isinstance(node.op, ast.Add) and a.kind == b.kind and a.kind in ('list', 'tuple') and a.items is not None and \
                    b.items is not None:
                return AV(a.kind, items=a.items + b.items)
            if a.val is not None and b.val is not None and isinstance(a.val, (int, float)) and isinstance(b.val, (int, float)):
                try:
                    r = {ast.Add: a.val + b.val, ast.Sub: a.val - b.val, ast.Mult: a.val * b.val}.get(type(node.op))
                    if r is None and isinstance(node.op, ast.Div):
                        if b.val == 0:
                            raise AbsRaise('ZeroDivisionError', 'division by zero')
                        r = a.val / b.val
                    if r is None and isinstance(node.op, (ast.FloorDiv, ast.Mod)) and isinstance(a.val, int) and \
                            isinstance(b.val, int) and b.val != 0:
                        r = a.val // b.val if isinstance(node.op, ast.FloorDiv) else a.val % b.val
                    if r is None and isinstance(node.op, ast.Pow) and abs(b.val) <= 400 and abs(a.val) <= 10 ** 6:
                        if a.val == 0 and b.val < 0:
                            raise AbsRaise('ZeroDivisionError', '0 to a negative power')
                        r = a.val ** b.val
                        if isinstance(r, complex):
                            r = None
                    if r is not None:
                        return const_av(r)
                except AbsRaise:
                    raise
                except Exception:
                    pass
            if a.kind == 'str' and b.kind == 'str' and isinstance(a.val, str) and isinstance(b.val, str) and isinstance(node.op, ast.Add):
                return const_av(a.val + b.val)
            if isinstance(node.op, ast.Mult) and ((isinstance(a.val, str) and isinstance(b.val, int) and not isinstance(b.val, bool)) or
                                                  (isinstance(b.val, str) and isinstance(a.val, int) and not isinstance(a.val, bool))):
                if len(a.val if isinstance(a.val, str) else b.val) * max(0, a.val if isinstance(a.val, int) else b.val) > 10 ** 6:
                    raise Unknown('a very long repeated text')
                return const_av(a.val * b.val)
            if isinstance(node.op, ast.Mod) and isinstance(a.val, str) and (b.val is not None or b.items is not None):
                try:
                    arg_ = tuple(x.val for x in b.items) if b.kind == 'tuple' and b.items is not None else b.val
                    if isinstance(arg_, tuple) and any(x is None for x in arg_):
                        raise Unknown('% formatting of unknown values')
                    return const_av(a.val % arg_)
                except (TypeError, ValueError) as e_:
                    raise AbsRaise(type(e_).__name__, str(e_))
            raise Unknown('arithmetic')
        if isinstance(node, ast.NamedExpr):
            v_ = self.ev(node.value, env)
            env[node.target.id] = v_
            return v_
        if isinstance(node, ast.DictComp):
            out_ = AV('dict', items=())
            for e2 in self._comp_envs(node.generators, env):
                out_ = self._with_entry(out_, self.ev(node.key, e2), self.ev(node.value, e2))
            return out_
        if isinstance(node, ast.Dict):
            out_ = AV('dict', items=())
            for k, v in zip(node.keys, node.values):
                if k is None:
                    more_ = self.unbox(self.ev(v, env))
                    if more_.kind != 'dict' or more_.items is None:
                        raise Unknown('** of a mapping of unknown contents')
                    for kv in more_.items:
                        out_ = self._with_entry(out_, kv.items[0], kv.items[1])
                else:
                    out_ = self._with_entry(out_, self.ev(k, env), self.ev(v, env))
            return out_
        if isinstance(node, ast.Lambda):
            return AV('func', val=('lambda', node, env))
        if isinstance(node, ast.Yield):
            if not getattr(self, '_yields', None):
                raise Unknown('yield outside a followed generator')
            self._yields[-1].append(self.ev(node.value, env) if node.value is not None else AV('none'))
            return AV('none')
        if isinstance(node, (ast.GeneratorExp, ast.ListComp, ast.SetComp)):
            out = [self.ev(node.elt, e2) for e2 in self._comp_envs(node.generators, env)]
            if isinstance(node, ast.SetComp):
                return self.make_set(out)
            return AV('list', items=tuple(out))
        if isinstance(node, ast.Set):
            return self.make_set([self.ev(e, env) for e in node.elts])
        if isinstance(node, ast.JoinedStr):
            parts = []
            for v_ in node.values:
                if isinstance(v_, ast.Constant):
                    parts.append(str(v_.value))
                elif isinstance(v_, ast.FormattedValue) and (v_.format_spec is not None or v_.conversion != -1):
                    x_ = self.ev(v_.value, env)
                    spec_ = ''
                    if v_.format_spec is not None:
                        sv_ = self.ev(v_.format_spec, env)
                        if not isinstance(sv_.val, str):
                            parts = None
                            break
                        spec_ = sv_.val
                    if x_.kind == 'none':
                        pv_ = None
                    elif x_.kind in ('str', 'int', 'bool', 'float') and x_.val is not None and not isinstance(x_.val, tuple):
                        pv_ = x_.val
                    else:
                        parts = None
                        break
                    if v_.conversion == 114:
                        pv_ = repr(pv_)
                    elif v_.conversion == 115:
                        pv_ = str(pv_)
                    elif v_.conversion == 97:
                        pv_ = ascii(pv_)
                    try:
                        parts.append(format(pv_, spec_))
                    except (ValueError, TypeError) as e_:
                        raise AbsRaise(type(e_).__name__, str(e_))
                elif isinstance(v_, ast.FormattedValue) and v_.format_spec is None and v_.conversion == -1:
                    x_ = self.ev(v_.value, env)
                    if x_.kind in ('str', 'int', 'bool', 'float') and x_.val is not None and not isinstance(x_.val, tuple):
                        parts.append(str(x_.val))
                    elif x_.kind == 'none':
                        parts.append('None')
                    elif x_.kind in ('list', 'tuple', 'dict') and x_.items is not None:
                        try:
                            parts.append(str(self._deep_python(x_)))
                        except Unknown:
                            parts = None
                            break
                    else:
                        parts = None
                        break
                else:
                    parts = None
                    break
            if parts is not None:
                return const_av(''.join(parts))
            return AV('str', text='other')
        if isinstance(node, ast.Subscript):
            base = self.unbox(self.ev(node.value, env))
            if base.kind == 'dict' and base.items is not None and not isinstance(node.slice, ast.Slice):
                k = self.ev(node.slice, env)
                for kv in base.items:
                    if self.eq(kv.items[0], k):
                        return kv.items[1]
                raise AbsRaise('KeyError', 'dict lookup')
            if base.kind == 'str' and isinstance(base.val, str):
                if isinstance(node.slice, ast.Slice):
                    def sb(x):
                        if x is None:
                            return None
                        v__ = self.ev(x, env)
                        if not isinstance(v__.val, int):
                            raise Unknown('slice bound')
                        return v__.val
                    return const_av(base.val[slice(sb(node.slice.lower), sb(node.slice.upper), sb(node.slice.step))])
                i__ = self.ev(node.slice, env)
                if isinstance(i__.val, int) and not isinstance(i__.val, bool):
                    try:
                        return const_av(base.val[i__.val])
                    except IndexError:
                        raise AbsRaise('IndexError', 'string index')
            if isinstance(node.slice, ast.Slice) and base.items is not None:
                def bound(x):
                    if x is None:
                        return None
                    v = self.ev(x, env)
                    if not isinstance(v.val, int):
                        raise Unknown('slice bound')
                    return v.val
                sl = slice(bound(node.slice.lower), bound(node.slice.upper), bound(node.slice.step))
                return AV(base.kind, items=tuple(base.items[sl]))
            idx = self.ev(node.slice, env) if not isinstance(node.slice, ast.Slice) else None
            if base.items is not None and idx is not None and isinstance(idx.val, int) and not isinstance(idx.val, bool):
                if -len(base.items) <= idx.val < len(base.items):
                    return base.items[idx.val]
                raise AbsRaise('IndexError', 'index')
            raise Unknown('subscript')
        raise Unknown(f'expression {type(node).__name__}')

    def _class_names(self, node, env) -> list:
        """class names of the second argument of isinstance / elements of a list of types"""
        if isinstance(node, (ast.Tuple, ast.List)):
            out = []
            for e in node.elts:
                out += self._class_names(e, env)
            return out
        txt = _unparse(node)
        table = {'int': 'int', 'float': 'float', 'str': 'str', 'bool': 'bool', 'list': 'list', 'tuple': 'tuple', 'dict': 'dict',
                 'datetime.date': 'date', 'datetime.datetime': 'datetime', 'self.EmptyCell': 'EmptyCell',
                 'self.__class__': 'EmptyCell', 'object': 'object', 'type(None)': 'NoneType'}
        if txt in table:
            return [table[txt]]
        if isinstance(node, ast.Name) and node.id in env and isinstance(env[node.id].val, tuple) and \
                env[node.id].val[0] in ('class', 'name', 'localclass'):
            nm = env[node.id].val[1]
            return [table.get(nm, nm)]
        if isinstance(node, (ast.Name, ast.Attribute, ast.Subscript, ast.Call)) and not (isinstance(node, ast.Name) and node.id not in env and
                                                                                        node.id not in self.class_table):
            try:
                v_ = self.ev(node, env)
            except Unknown:
                v_ = None
            if v_ is not None:
                vs_ = list(v_.items) if v_.items is not None and v_.kind in ('tuple', 'list') else [v_]
                if vs_ and all(x.kind == 'other' and isinstance(x.val, tuple) and x.val[0] in ('class', 'name', 'localclass') for x in vs_):
                    return [table.get(x.val[1], x.val[1]) for x in vs_]
        if isinstance(node, ast.Name) and node.id[:1].isupper():
            return [node.id]                      # a class of the repository: matched against modelled objects by name
        raise Unknown(f'class expression {txt}')

    def call(self, node: ast.Call, env) -> AV:
        f = node.func
        name = f.id if isinstance(f, ast.Name) else None
        _recv_memo = []

        def recv_of():
            # the receiver of a method call is evaluated once, whichever branch below looks at it
            if not _recv_memo:
                _recv_memo.append(self.ev(f.value, env))
            return _recv_memo[0]
        ext_ = getattr(self, 'externals', None)
        if ext_:
            txt_ = _unparse(f)
            if txt_ in ext_ and not (name is not None and name in env):
                return ext_[txt_](self._args(node, env), {k.arg: self.ev(k.value, env) for k in node.keywords if k.arg})
        if name in ('float', 'int', 'str', 'abs', 'bool') and len(node.args) == 1 and not node.keywords and name not in env and \
                not (isinstance(node.args[0], ast.Name) and node.args[0].id == '__arg0__'):
            v0_ = self.ev(node.args[0], env)
            if v0_.kind == 'other' and isinstance(v0_.val, tuple) and v0_.val[0] == 'py':
                try:
                    return self._py({'float': float, 'int': int, 'str': str, 'abs': abs, 'bool': bool}[name](v0_.val[1]))
                except (ValueError, TypeError, OverflowError) as e_:
                    raise AbsRaise(type(e_).__name__, str(e_))
            # the argument is evaluated once: the conversion itself is done below on the value
            return self.call(ast.Call(func=f, args=[ast.Name(id='__arg0__', ctx=ast.Load())], keywords=[]), {**env, '__arg0__': v0_})
        if name is not None and name in env and env[name].kind == 'func' and isinstance(env[name].val, tuple) and \
                env[name].val[0] == 'closure':
            return self.call_closure(env[name].val, self._args(node, env))
        if name is not None and name in env and env[name].kind == 'other' and isinstance(env[name].val, tuple) and \
                env[name].val[0] == 'name' and env[name].val[1] in ('int', 'float', 'str', 'bool'):
            name = env[name].val[1]                       # a builtin passed around as a value
        elif name is not None and name in env and env[name].kind == 'other' and isinstance(env[name].val, tuple) and \
                env[name].val[0] == 'name' and not node.keywords:
            return self.call_value(env[name], self._args(node, env))
        if name is not None and name in env and env[name].kind == 'other' and isinstance(env[name].val, tuple) and \
                env[name].val[0] == 'localclass':
            body_ = [b for b in env[name].val[2].body if not isinstance(b, ast.Pass) and
                     not (isinstance(b, ast.Expr) and isinstance(b.value, ast.Constant))]
            if body_ or node.args or node.keywords:
                raise Unknown('a local class with members')
            return self.new_obj(name, {})
        if name is not None and name in env and env[name].kind == 'func' and isinstance(env[name].val, tuple) and \
                env[name].val[0] == 'native':
            return env[name].val[1](self._args(node, env))
        if name is not None and name in env and env[name].kind == 'func':
            hook = self.hooks.get('<call:' + name + '>') or self.hooks.get('<call>')
            if hook is None and isinstance(env[name].val, tuple) and env[name].val[0] == 'lambda':
                return self.call_lambda(env[name].val, self._args(node, env))
            if hook is None:
                raise Unknown(f'call of the function value {name}')
            return hook(self, self._args(node, env))
        if name is not None and name in getattr(self, 'constructors', {}) and \
                (name not in env or (env[name].kind == 'other' and isinstance(env[name].val, tuple) and env[name].val[0] == 'class')):
            return self.constructors[name](self._args(node, env),
                                           {k.arg: self.ev(k.value, env) for k in node.keywords if k.arg})
        if name is not None and name not in env and name in self.functions:
            res_ = self.call_function(self.functions[name], self._args(node, env),
                                      {k.arg: self.ev(k.value, env) for k in node.keywords if k.arg})
            self._write_back(node, env)
            return res_
        if name == 'column_index_from_string' and len(node.args) == 1:
            v = self.ev(node.args[0], env)
            if not isinstance(v.val, str) or not v.val.isalpha() or not v.val:
                raise (AbsRaise('ValueError', 'not a column') if isinstance(v.val, str) else Unknown('column letters without a carrier'))
            n_ = 0
            for ch in v.val.upper():
                n_ = n_ * 26 + (ord(ch) - 64)
            if not (1 <= n_ <= 18278):
                raise AbsRaise('ValueError', 'column out of range')
            return const_av(n_)
        if name == 'isinstance':
            v = self.ev(node.args[0], env)
            return const_av(any(self.is_inst(v, c) for c in self._class_names(node.args[1], env)))
        if _unparse(f) in ('replace', 'dataclasses.replace') and len(node.args) == 1 and not (name is not None and name in env):
            o_ = self.ev(node.args[0], env)
            if o_.kind == 'obj' and isinstance(o_.val, tuple):
                at_ = dict(self.obj_attrs(o_))
                for k in node.keywords:
                    if k.arg is None or k.arg not in at_:
                        raise AbsRaise('TypeError', f'replace() got an unexpected field {k.arg}')
                    at_[k.arg] = self.ev(k.value, env)
                return self.new_obj(o_.val[2], at_)
            raise Unknown('replace of a value that is not a modelled object')
        if name in ('getattr', 'hasattr') and 2 <= len(node.args) <= 3 and name not in env:
            o_ = self.ev(node.args[0], env)
            a_ = self.ev(node.args[1], env)
            if not isinstance(a_.val, str):
                raise Unknown(f'{name} with an attribute name that is not a known text')
            try:
                got_ = self.ev(ast.Attribute(value=ast.Name(id='__obj__', ctx=ast.Load()), attr=a_.val, ctx=ast.Load()), {**env, '__obj__': o_})
                return const_av(True) if name == 'hasattr' else got_
            except AbsRaise as e_:
                if e_.exc != 'AttributeError':
                    raise
            except Unknown:
                if o_.kind == 'obj' or self.is_class_value(o_):
                    raise
            if name == 'hasattr':
                return const_av(False)
            if len(node.args) == 3:
                return self.ev(node.args[2], env)
            raise AbsRaise('AttributeError', f'no attribute {a_.val}')
        if name == 'issubclass' and len(node.args) == 2 and self.class_table:
            a_ = self.ev(node.args[0], env)
            if self.is_class_value(a_):
                names_ = self._class_names(node.args[1], env)
                return const_av(any(n_ in self.class_table[a_.val[1]]['mro'] for n_ in names_))
            raise Unknown('issubclass of a value that is not a modelled class')
        if name == 'type' and len(node.args) == 1:
            v = self.ev(node.args[0], env)
            if v.kind == 'obj' and isinstance(v.val, tuple):
                return AV('other', val=('class', v.val[2]))
            return AV('other', val=('class', type_name(v)))
        if name == 'int':
            v0 = self.ev(node.args[0], env)
            if v0.kind == 'str' and isinstance(v0.val, str):
                try:
                    return const_av(int(v0.val))
                except ValueError:
                    raise AbsRaise('ValueError', f'int({v0.val!r})')
            return to_int(v0)
        if name in ('ord', 'chr', 'hex', 'bin', 'oct', 'divmod', 'pow') and node.args and not node.keywords and name not in env:
            vs_ = [self.ev(a, env) for a in node.args]
            if all(v_.val is not None and not isinstance(v_.val, tuple) for v_ in vs_):
                import builtins as _b
                try:
                    return self._from_python(getattr(_b, name)(*[v_.val for v_ in vs_]))
                except (TypeError, ValueError, ZeroDivisionError, OverflowError) as e_:
                    raise AbsRaise(type(e_).__name__, str(e_))
            raise Unknown(f'{name} of a value without a concrete carrier')
        if name == 'repr' and len(node.args) == 1:
            v0 = self.ev(node.args[0], env)
            if v0.kind == 'none':
                return const_av('None')
            if v0.val is not None and not isinstance(v0.val, tuple):
                return const_av(repr(v0.val))
            raise Unknown('repr of a value without a concrete carrier')
        if name == 'float':
            v0 = self.ev(node.args[0], env)
            if v0.kind == 'str' and isinstance(v0.val, str):
                try:
                    return const_av(float(v0.val))
                except ValueError:
                    raise AbsRaise('ValueError', f'float({v0.val!r})')
            return to_float(v0)
        if name == 'str':
            v0 = self.ev(node.args[0], env)
            if v0.kind in ('int', 'float', 'bool') and v0.val is not None:
                return const_av(str(v0.val))
            if v0.kind == 'none':
                return const_av('None')
            if v0.kind == 'obj':
                return const_av(f'<{v0.val[2]} object>')
            return to_str(v0)
        if name == 'bool':
            return const_av(truth(self.ev(node.args[0], env)))
        if name in ('filter', 'map') and len(node.args) == 2:
            fv, seq = self.ev(node.args[0], env), self.ev(node.args[1], env)
            if seq.items is None:
                raise Unknown(name)
            if name == 'filter':
                keep = [x for x in seq.items if (truth(x) if fv.kind == 'none' else truth(self.call_value(fv, [x])))]
                return AV('list', items=tuple(keep))
            return AV('list', items=tuple(self.call_value(fv, [x]) for x in seq.items))
        if name == 'range' and 1 <= len(node.args) <= 3:
            vs = self._args(node, env)
            if not all(isinstance(v.val, int) and not isinstance(v.val, bool) for v in vs):
                raise Unknown('range of unknown bounds')
            return AV('list', items=tuple(const_av(i) for i in range(*[v.val for v in vs])))
        if name == 'zip' and node.args and not node.keywords:
            vs = []
            for a in node.args:
                if isinstance(a, ast.Starred):
                    sv = self.ev(a.value, env)
                    if sv.items is None:
                        raise Unknown('zip(*unknown)')
                    vs.extend(sv.items)
                else:
                    vs.append(self.ev(a, env))
            endless = [isinstance(v.val, tuple) and v.val and v.val[0] == 'repeat' for v in vs]
            if any(v.items is None and not e for v, e in zip(vs, endless)):
                raise Unknown('zip of unknown contents')
            if any(endless):
                finite_ = [len(v.items) for v, e in zip(vs, endless) if not e]
                if not finite_:
                    raise Unknown('zip of endless iterators only')
                n_ = min(finite_)
                cols_ = [((v.val[1],) * n_) if e else v.items[:n_] for v, e in zip(vs, endless)]
                return AV('list', items=tuple(AV('tuple', items=t) for t in zip(*cols_)))
            return AV('list', items=tuple(AV('tuple', items=t) for t in zip(*[v.items for v in vs])))
        if name is not None and _unparse(f) in ('repeat', 'itertools.repeat') and name not in env and 1 <= len(node.args) <= 2 and not node.keywords:
            vs = self._args(node, env)
            if len(vs) == 2:
                if not (isinstance(vs[1].val, int) and not isinstance(vs[1].val, bool)):
                    raise Unknown('repeat of an unknown count')
                return AV('list', items=(vs[0],) * max(vs[1].val, 0))
            return AV('other', val=('repeat', vs[0]))             # endless: only zip (which stops at the shortest) may consume it
        if name == 'sum' and node.args:
            v = self.ev(node.args[0], env)
            if v.items is None or not all(isinstance(x.val, (int, float)) and not isinstance(x.val, tuple) for x in v.items):
                raise Unknown('sum')
            start = self.ev(node.args[1], env).val if len(node.args) > 1 else 0
            return const_av(start + sum(x.val for x in v.items))
        if name in ('set', 'frozenset'):
            if not node.args:
                return self.make_set([])
            v = self.unbox(self.ev(node.args[0], env))
            if v.items is None:
                raise Unknown(name)
            return self.make_set(v.items if v.kind != 'dict' else [kv.items[0] for kv in v.items])
        if name in ('min', 'max') and (len(node.args) >= 2 or (len(node.args) == 1 and any(k.arg == 'default' for k in node.keywords))):
            if len(node.args) >= 2:
                cand = self._args(node, env)
            else:
                seq = self.ev(node.args[0], env)
                if seq.items is None:
                    raise Unknown(name)
                cand = list(seq.items)
                if not cand:
                    return self.ev(next(k.value for k in node.keywords if k.arg == 'default'), env)
            if not all(isinstance(c_.val, (int, float)) and not isinstance(c_.val, bool) for c_ in cand):
                raise Unknown(f'{name} of values without a concrete carrier')
            pick = max if name == 'max' else min
            return const_av(pick(c_.val for c_ in cand))
        if name in ('sorted', 'min', 'max') and len(node.args) == 1 and node.keywords and \
                all(k.arg in ('key', 'reverse') for k in node.keywords) and (name == 'sorted' or all(k.arg == 'key' for k in node.keywords)):
            v = self.ordered(self.ev(node.args[0], env))
            if v.items is None:
                raise Unknown(name)
            kf_ = next((self.ev(k.value, env) for k in node.keywords if k.arg == 'key'), None)
            rev_ = next((truth(self.ev(k.value, env)) for k in node.keywords if k.arg == 'reverse'), False)

            def sort_key(x):
                kx = self.call_value(kf_, [x]) if kf_ is not None and kf_.kind != 'none' else x
                if kx.items is not None and all(y.val is not None and not isinstance(y.val, tuple) for y in kx.items):
                    return tuple(y.val for y in kx.items)
                if kx.val is not None and not isinstance(kx.val, tuple):
                    return kx.val
                if isinstance(kx.val, tuple) and kx.val[0] in ('day', 'ymd'):
                    return kx.val[1:]
                raise Unknown(f'{name} by a key without a concrete carrier')
            try:
                items = sorted(v.items, key=sort_key, reverse=rev_ or name == 'max')          # stable, like the builtin
            except TypeError as e_:
                raise AbsRaise('TypeError', str(e_))
            if name == 'sorted':
                return AV('list', items=tuple(items))
            if not items:
                raise AbsRaise('ValueError', name)
            return items[0]                  # the first smallest / the first largest
        if name in ('sorted', 'min', 'max') and len(node.args) == 1 and not node.keywords:
            v = self.ev(node.args[0], env)
            if v.items is None:
                raise Unknown(name)

            def keyf(x):
                if isinstance(x.val, tuple) and x.val[0] in ('day', 'ymd'):
                    return x.val[1:]
                if isinstance(x.val, (int, float)) and not isinstance(x.val, bool):
                    return (x.val,)
                raise Unknown(f'{name} of values without a concrete carrier')
            items = sorted(v.items, key=keyf)
            if name == 'sorted':
                return AV('list', items=tuple(items))
            if not items:
                raise AbsRaise('ValueError', name)
            return items[0] if name == 'min' else items[-1]
        if name in ('any', 'all') and len(node.args) == 1:
            v = self.ev(node.args[0], env)
            if v.items is None:
                raise Unknown(name)
            ts = [truth(x) for x in v.items]
            return const_av(any(ts) if name == 'any' else all(ts))
        if name == 'next' and node.args:
            v = self.ev(node.args[0], env)
            if v.items is None:
                raise Unknown('next of an unknown iterator')
            if v.items:
                return v.items[0]
            if len(node.args) > 1:
                return self.ev(node.args[1], env)
            raise AbsRaise('StopIteration', 'next')
        if name == 'enumerate' and node.args:
            v = self.ordered(self.ev(node.args[0], env))
            start = 0
            extra = node.args[1:] + [k.value for k in node.keywords if k.arg == 'start']
            if extra:
                sv = self.ev(extra[0], env)
                if not isinstance(sv.val, int):
                    raise Unknown('enumerate start')
                start = sv.val
            if v.items is None:
                raise Unknown('enumerate of a collection of unknown contents')
            return AV('list', items=tuple(AV('tuple', items=(const_av(start + i), x)) for i, x in enumerate(v.items)))
        if _unparse(f) == 'dict.fromkeys' and 1 <= len(node.args) <= 2:
            seq_ = self.ordered(self.ev(node.args[0], env))
            if seq_.items is None:
                raise Unknown('dict.fromkeys of unknown contents')
            val_ = self.ev(node.args[1], env) if len(node.args) == 2 else AV('none')
            out_ = AV('dict', items=())
            for x_ in seq_.items:
                out_ = self._with_entry(out_, x_, val_)
            return out_
        if name == 'dict' and not node.args:
            out_ = AV('dict', items=())
            for k in node.keywords:
                if k.arg is None:
                    raise Unknown('dict(**)')
                out_ = self._with_entry(out_, const_av(k.arg), self.ev(k.value, env))
            return out_
        if name == 'dict' and len(node.args) == 1 and not node.keywords:
            v = self.unbox(self.ev(node.args[0], env))
            if v.kind == 'dict' and v.items is not None:
                return AV('dict', items=v.items)
            v = self.ordered(v)
            if v.items is None or not all(x.items is not None and len(x.items) == 2 for x in v.items):
                raise Unknown('dict of unknown entries')
            out_ = AV('dict', items=())
            for x in v.items:
                out_ = self._with_entry(out_, x.items[0], x.items[1])
            return out_
        if name in ('list', 'tuple') and len(node.args) == 1:
            v = self.ordered(self.ev(node.args[0], env))
            if v.items is not None:
                return AV(name, items=v.items)
            raise Unknown(name)
        if name == 'reversed' and len(node.args) == 1:
            v = self.ev(node.args[0], env)
            if v.items is not None:
                return AV('list', items=tuple(reversed(v.items)))
            raise Unknown('reversed')
        if name == 'len':
            v = self.unbox(self.ev(node.args[0], env))
            if v.items is not None:
                return const_av(len(v.items))
            if v.kind == 'str' and isinstance(v.val, str):
                return const_av(len(v.val))
            if v.kind in ('int', 'float', 'bool', 'none'):
                raise AbsRaise('TypeError', f'object of type {v.kind} has no len()')
            raise Unknown('len')
        if name in ('abs',):
            v = self.ev(node.args[0], env)
            if v.kind in ('int', 'float'):
                return replace(v, sign='zero' if v.sign == 'zero' else 'pos' if v.sign else None)
        if _unparse(f) in ('Decimal', 'decimal.Decimal', 'DecimalContext', 'Context', 'decimal.Context') and \
                not (isinstance(f, ast.Name) and f.id in env):
            import decimal as _d
            target_ = _d.Decimal if _unparse(f).endswith('Decimal') else _d.Context
            return self._decimal_call(target_, self._args(node, env), {k.arg: self.ev(k.value, env) for k in node.keywords if k.arg})
        if isinstance(f, ast.Attribute) and not (isinstance(f.value, ast.Name) and f.value.id in ('self', 'cls', 're', 'datetime', 'math')):
            try:
                recv_py_ = recv_of()
            except (Unknown, AbsRaise):
                recv_py_ = None
            if recv_py_ is not None and recv_py_.kind == 'other' and isinstance(recv_py_.val, tuple) and recv_py_.val[0] == 'py' and \
                    not f.attr.startswith('_') and callable(getattr(recv_py_.val[1], f.attr, None)):
                return self._decimal_call(getattr(recv_py_.val[1], f.attr), self._args(node, env),
                                          {k.arg: self.ev(k.value, env) for k in node.keywords if k.arg})
        if name == 'format' and 1 <= len(node.args) <= 2 and not node.keywords:
            v0 = self.ev(node.args[0], env)
            spec_ = self.ev(node.args[1], env) if len(node.args) == 2 else const_av('')
            if isinstance(spec_.val, str):
                try:
                    return const_av(format(self._to_python(v0), spec_.val))
                except (ValueError, TypeError) as e_:
                    raise AbsRaise(type(e_).__name__, str(e_))
            raise Unknown('format with an unknown specification')
        if name == 'round' and 1 <= len(node.args) <= 2 and not node.keywords:
            vs_ = self._args(node, env)
            try:
                return self._py(round(*[self._to_python(v_) for v_ in vs_]))
            except (ValueError, TypeError, OverflowError) as e_:
                raise AbsRaise(type(e_).__name__, str(e_))
        if _unparse(f) in ('trunc', 'math.trunc', 'math.floor', 'math.ceil', 'floor', 'ceil') and len(node.args) == 1 and not node.keywords:
            v0 = self.ev(node.args[0], env)
            if v0.kind == 'other' and isinstance(v0.val, tuple) and v0.val[0] == 'py':
                import math as _math
                return self._py(getattr(_math, _unparse(f).split('.')[-1])(v0.val[1]))
            if v0.kind in ('int', 'float', 'bool') and isinstance(v0.val, (int, float)):
                import math as _math
                try:
                    return const_av(getattr(_math, _unparse(f).split('.')[-1])(v0.val))
                except (ValueError, OverflowError) as e_:
                    raise AbsRaise(type(e_).__name__, str(e_))
            if v0.kind not in ('int', 'float', 'bool'):
                raise AbsRaise('TypeError', f'{_unparse(f)} of {v0.kind}')
            if _unparse(f).split('.')[-1] == 'trunc':
                return to_int(v0)
            raise Unknown(_unparse(f))
        if _unparse(f) in ('calendar.monthrange', 'monthrange') and len(node.args) == 2:
            y_, m_ = self.ev(node.args[0], env), self.ev(node.args[1], env)
            if isinstance(y_.val, int) and isinstance(m_.val, int):
                import calendar as _cal
                try:
                    r_ = _cal.monthrange(y_.val, m_.val)
                except Exception as e_:
                    raise AbsRaise(type(e_).__name__, str(e_))
                return AV('tuple', items=(const_av(r_[0]), const_av(r_[1])))
            raise Unknown('monthrange of an unknown month')
        if _unparse(f).split('.')[-1] == 'relativedelta' and not node.args:
            kw = {k.arg: self.ev(k.value, env) for k in node.keywords}
            if set(kw) - {'years', 'months', 'days', 'year', 'month', 'day'} or \
                    not all(isinstance(v_.val, int) and not isinstance(v_.val, bool) for v_ in kw.values()):
                raise Unknown('relativedelta')
            return AV('timedelta', val=('rel', kw['years'].val if 'years' in kw else 0, kw['months'].val if 'months' in kw else 0,
                                        kw['days'].val if 'days' in kw else 0, kw['year'].val if 'year' in kw else None,
                                        kw['month'].val if 'month' in kw else None, kw['day'].val if 'day' in kw else None))
        if self.class_table and isinstance(f, ast.Name) and ((f.id in env and self.is_class_value(env[f.id])) or
                                                             (f.id not in env and f.id in self.class_table)):
            cname_ = env[f.id].val[1] if f.id in env else f.id
            return self.construct(cname_, self._args(node, env), {k.arg: self.ev(k.value, env) for k in node.keywords if k.arg})
        if self.class_table and isinstance(f, ast.Attribute) and isinstance(f.value, ast.Call) and isinstance(f.value.func, ast.Name) and \
                f.value.func.id == 'super' and not f.value.args and getattr(self, '_fn_stack', None):
            me_ = env.get('self') if 'self' in env else env.get('cls')
            cur_ = self._fn_stack[-1]
            cname_ = me_.val[2] if me_ is not None and me_.kind == 'obj' else me_.val[1] if me_ is not None and self.is_class_value(me_) else None
            if cname_ is None or cname_ not in self.class_table:
                raise Unknown('super() outside a modelled class')
            mro_ = self.class_table[cname_]['mro']
            owner_ = next((k for k in mro_ if k in self.class_table and self.class_table[k]['methods'].get(cur_.name) is cur_), None)
            if owner_ is None:
                raise Unknown('super(): the defining class was not found')
            for k in mro_[mro_.index(owner_) + 1:]:
                e_ = self.class_table.get(k)
                if e_ is not None and f.attr in e_['methods']:
                    fn_ = e_['methods'][f.attr]
                    static_ = any(isinstance(d, ast.Name) and d.id == 'staticmethod' for d in fn_.decorator_list)
                    first_ = [] if static_ else [AV('other', val=('class', cname_))] if any(
                        isinstance(d, ast.Name) and d.id == 'classmethod' for d in fn_.decorator_list) else [me_]
                    return self.call_function(fn_, first_ + self._args(node, env),
                                              {k_.arg: self.ev(k_.value, env) for k_ in node.keywords if k_.arg})
            if f.attr == '__init__':
                return AV('none')             # object.__init__
            raise AbsRaise('AttributeError', f'super() has no attribute {f.attr}')
        if self.class_table and isinstance(f, ast.Attribute):
            try:
                recv_ = recv_of() if not (isinstance(f.value, ast.Name) and f.value.id in ('re', 'datetime', 'math', 'calendar', 'operator')) else None
            except Unknown:
                recv_ = None
            if recv_ is not None and self.is_class_value(recv_):
                hit_ = self.class_lookup(recv_.val[1], f.attr)
                if (hit_ is None or hit_[0] != 'method') and f.attr == '__subclasses__':
                    return AV('list', items=tuple(AV('other', val=('class', k)) for k, e_ in self.class_table.items()
                                                  if len(e_['mro']) > 1 and recv_.val[1] in e_.get('bases', e_['mro'][1:2])))
                if hit_ is not None and hit_[0] == 'value' and hit_[1].kind == 'func':
                    return self.call_value(hit_[1], self._args(node, env))
                if hit_ is None or hit_[0] != 'method':
                    raise AbsRaise('AttributeError', f'type object {recv_.val[1]} has no method {f.attr}')
                res_ = self.call_class_func(hit_[1], AV('other', val=('class', recv_.val[1])), self._args(node, env),
                                            {k.arg: self.ev(k.value, env) for k in node.keywords if k.arg})
                self._write_back(node, env)
                return res_
        if isinstance(f, ast.Attribute):
            # self.method(...)
            if isinstance(f.value, ast.Name) and f.value.id == 'cls' and f.attr in self.members:
                args = self._args(node, env)
                kw_ = {k.arg: self.ev(k.value, env) for k in node.keywords if k.arg}
                res_ = self.call_method(f.attr, args, env.get('cls'), kw_)
                self._write_back(node, env)
                return res_
            if isinstance(f.value, ast.Name) and f.value.id == 'self' and self.class_method(env.get('self'), f.attr) is not None and \
                    f.attr not in self.obj_attrs(env['self']):
                res_ = self.call_bound(self.class_method(env['self'], f.attr), env['self'], self._args(node, env),
                                       {k.arg: self.ev(k.value, env) for k in node.keywords if k.arg})
                self._write_back(node, env)
                return res_
            if isinstance(f.value, ast.Name) and f.value.id == 'self':
                args = self._args(node, env)
                kw_ = {k.arg: self.ev(k.value, env) for k in node.keywords if k.arg}
                pref = getattr(self, 'prefix', '')
                target = pref + f.attr if (pref + f.attr) in self.members or (pref + f.attr) in self.hooks else f.attr
                res_ = self.call_method(target, args, env.get('self'), kw_)
                self._write_back(node, env)
                return res_
            txt = _unparse(f)
            if txt in ('date_parser.parse', 'dateutil.parser.parse', 'parser.parse') and len(node.args) == 1:
                v0 = self.ev(node.args[0], env)
                if v0.kind != 'str':
                    raise AbsRaise('TypeError', 'Parser must be a string or character stream')
                if isinstance(v0.val, str):
                    low_ = v0.val.lower()
                    words_ = ('jan', 'feb', 'mar', 'apr', 'may', 'jun', 'jul', 'aug', 'sep', 'oct', 'nov', 'dec', 'mon', 'tue', 'wed', 'thu',
                              'fri', 'sat', 'sun', 'am', 'pm', 'today', 'now', 'utc', 'gmt', 'z', 't', 'a', 'p', 'h', 'm', 's', 'ad', 'bc')
                    import re as _re
                    toks_ = _re.findall(r'[a-z]+', low_)
                    if low_.strip() and not any(ch.isdigit() for ch in low_) and not any(any(t_.startswith(w_) for w_ in words_ if len(w_) >= 3) or
                                                                                          t_ in words_ for t_ in toks_):
                        raise AbsRaise('ParserError', 'a text without digits and without a month or day name is not a date')
                    if not low_.strip():
                        raise AbsRaise('ParserError', 'String does not contain a date')
                raise Unknown('the date reading of a text')
            if txt in ('datetime.time', 'time') and not node.keywords:
                return AV('other', val=('time',) + tuple(self.ev(a, env).val for a in node.args))
            if txt == 'datetime.timedelta':
                kw = {k.arg: self.ev(k.value, env) for k in node.keywords}
                d = kw.get('days', self.ev(node.args[0], env) if node.args else const_av(0))
                if set(kw) - {'days'} or not isinstance(d.val, int):
                    raise Unknown('timedelta')
                return AV('timedelta', val=('days', d.val))
            if txt == 'datetime.datetime' or txt == 'datetime.datetime.combine':
                args = self._args(node, env)
                origin = next((a.origin for a in args if a.origin), '')
                if txt == 'datetime.datetime' and len(args) < 3 and node.keywords:
                    kw_ = {k.arg: self.ev(k.value, env) for k in node.keywords if k.arg}
                    names_ = ['year', 'month', 'day']
                    if set(kw_) <= set(names_[len(args):]) and len(args) + len(kw_) == 3:
                        args = args + [kw_[n_] for n_ in names_[len(args):]]
                if txt == 'datetime.datetime' and len(args) == 3 and len([k for k in node.keywords if k.arg not in ('year', 'month', 'day')]) == 0 and \
                        all(isinstance(a.val, int) and not isinstance(a.val, bool) for a in args):
                    import datetime as _dt
                    try:
                        _dt.datetime(*[a.val for a in args])
                    except (ValueError, OverflowError) as e_:
                        raise AbsRaise(type(e_).__name__, str(e_))
                    return AV('datetime', val=('ymd',) + tuple(a.val for a in args), origin=origin)
                return AV('datetime', val='midnight' if len(args) == 3 or txt.endswith('combine') else None, origin=origin)
            if txt in ('re.compile', 're.findall', 're.match', 're.fullmatch', 're.search', 're.sub', 're.split', 're.finditer') and node.args:
                pat_, flags_ = self._pattern(node.args[0], env)
                rest_ = node.args[1:]
                nflag_ = {'re.compile': 0, 're.sub': 3, 're.split': 2}.get(txt, 1)       # position of the flags argument after the pattern
                for fl in rest_[nflag_:] + [k.value for k in node.keywords if k.arg == 'flags']:
                    flags_ |= self._regex_flags(fl)
                if txt == 're.compile':
                    import re as _re
                    try:
                        _re.compile(pat_, flags_)
                    except _re.error as e_:
                        raise AbsRaise('error', str(e_))
                    return AV('regex', val=('regex', pat_, flags_))
                return self._regex_call(txt[3:], pat_, flags_, [self.ev(x, env) for x in rest_[:nflag_]])
            recv = recv_of()
            if self.is_box(recv):
                recv = self.unbox(recv)
            if recv.kind == 'obj':
                at = self.obj_attrs(recv)
                if f.attr in at and at[f.attr].kind == 'func':
                    return self.call_value(at[f.attr], self._args(node, env))
                cm_ = self.class_method(recv, f.attr)
                if cm_ is not None:
                    res_ = self.call_bound(cm_, recv, self._args(node, env),
                                           {k.arg: self.ev(k.value, env) for k in node.keywords if k.arg})
                    self._write_back(node, env)
                    return res_
                raise AbsRaise('AttributeError', f'{recv.val[2]} has no method {f.attr}')
            if recv.kind == 'dict' and recv.items is not None and f.attr in ('setdefault', 'pop') and 1 <= len(node.args) <= 2 and \
                    isinstance(f.value, (ast.Name, ast.Attribute, ast.Subscript)):
                k_ = self.ev(node.args[0], env)
                d_ = self.ev(node.args[1], env) if len(node.args) == 2 else None
                hit_ = next((kv for kv in recv.items if self.eq(kv.items[0], k_)), None)
                if f.attr == 'setdefault':
                    if hit_ is not None:
                        return hit_.items[1]
                    val_ = d_ if d_ is not None else AV('none')
                    self.change_container(f.value, lambda c: self._with_entry(c, k_, val_), env)
                    return val_
                if hit_ is None:
                    if d_ is None:
                        raise AbsRaise('KeyError', 'pop of a missing key')
                    return d_
                self.change_container(f.value, lambda c: AV('dict', items=tuple(kv for kv in c.items if kv is not hit_)), env)
                return hit_.items[1]
            if recv.kind == 'dict' and recv.items is not None and f.attr in ('keys', 'values', 'items', 'copy') and not node.args:
                if f.attr == 'copy':
                    return AV('dict', items=recv.items)
                return AV('list', items=tuple(kv if f.attr == 'items' else kv.items[0 if f.attr == 'keys' else 1] for kv in recv.items))
            if recv.kind in ('list', 'tuple') and recv.items is not None and f.attr in ('index', 'count') and len(node.args) == 1:
                x_ = self.ev(node.args[0], env)
                hits_ = [i_ for i_, y_ in enumerate(recv.items) if self.eq(y_, x_)]
                if f.attr == 'count':
                    return const_av(len(hits_))
                if not hits_:
                    raise AbsRaise('ValueError', 'value is not in list')
                return const_av(hits_[0])
            if recv.kind == 'list' and recv.items is not None and f.attr == 'copy' and not node.args:
                return AV('list', items=recv.items)
            if recv.kind == 'str' and isinstance(recv.val, str) and f.attr in ('isdigit', 'isalpha', 'isupper', 'islower', 'isnumeric') \
                    and not node.args:
                return const_av(getattr(recv.val, f.attr)())
            if recv.kind == 'str' and isinstance(recv.val, str) and not node.keywords and f.attr in (
                    'isascii', 'isprintable', 'find', 'rfind', 'index', 'rindex', 'count', 'replace', 'startswith', 'endswith', 'title', 'capitalize', 'swapcase', 'casefold',
                    'zfill', 'ljust', 'rjust', 'center', 'isalnum', 'isspace', 'isdecimal', 'isidentifier', 'istitle', 'removeprefix',
                    'removesuffix', 'partition', 'rpartition', 'splitlines', 'rsplit', 'strip', 'lstrip', 'rstrip', 'expandtabs'):
                args_ = self._args(node, env)
                if all((a_.val is not None and isinstance(a_.val, (str, int)) and not isinstance(a_.val, bool)) or a_.kind == 'none' or
                       (a_.kind == 'tuple' and a_.items is not None and all(isinstance(x.val, str) for x in a_.items)) for a_ in args_):
                    plain_ = [None if a_.kind == 'none' else tuple(x.val for x in a_.items) if a_.kind == 'tuple' else a_.val for a_ in args_]
                    try:
                        return self._from_python(getattr(recv.val, f.attr)(*plain_))
                    except (ValueError, TypeError) as e_:
                        raise AbsRaise(type(e_).__name__, str(e_))
            if recv.kind == 'str' and isinstance(recv.val, str) and f.attr == 'encode':
                try:
                    return self._py(recv.val.encode(*[self._deep_python(x) for x in self._args(node, env)],
                                                    **{k.arg: self._deep_python(self.ev(k.value, env)) for k in node.keywords if k.arg}))
                except (LookupError, UnicodeError, TypeError) as e_:
                    raise AbsRaise(type(e_).__name__, str(e_))
            if recv.kind == 'str' and isinstance(recv.val, str) and f.attr in ('format', 'format_map'):
                try:
                    pa_ = [self._deep_python(x) for x in self._args(node, env)]
                    pk_ = {k.arg: self._deep_python(self.ev(k.value, env)) for k in node.keywords if k.arg}
                    return const_av(getattr(recv.val, f.attr)(*pa_, **pk_))
                except (KeyError, IndexError, ValueError, TypeError) as e_:
                    raise AbsRaise(type(e_).__name__, str(e_))
            if recv.kind == 'str' and isinstance(recv.val, str) and f.attr == 'join' and len(node.args) == 1:
                parts_ = self.unbox(self.ev(node.args[0], env))
                if parts_.items is None or not all(x.kind == 'str' and isinstance(x.val, str) for x in parts_.items):
                    if parts_.items is not None and any(x.kind != 'str' for x in parts_.items):
                        raise AbsRaise('TypeError', 'sequence item: expected str instance')
                    raise Unknown('join of texts without a concrete carrier')
                return const_av(recv.val.join(x.val for x in parts_.items))
            if recv.kind == 'str' and isinstance(recv.val, str) and f.attr == 'split' and len(node.args) <= 1:
                sep_ = self.ev(node.args[0], env) if node.args else None
                if sep_ is not None and not isinstance(sep_.val, str):
                    raise Unknown('split separator')
                return AV('list', items=tuple(const_av(x) for x in recv.val.split(sep_.val if sep_ is not None else None)))
            if recv.kind == 'str' and isinstance(recv.val, str) and f.attr in ('upper', 'lower', 'strip', 'lstrip', 'rstrip') and not node.args:
                return const_av(getattr(recv.val, f.attr)())
            if recv.kind == 'regex' and f.attr in ('findall', 'match', 'fullmatch', 'search', 'finditer') and 2 <= len(node.args) <= 3:
                # <compiled pattern>.search(text, pos[, endpos])
                import re as _re
                vs_ = self._args(node, env)
                if not isinstance(vs_[0].val, str) or not all(isinstance(v_.val, int) and not isinstance(v_.val, bool) for v_ in vs_[1:]):
                    if vs_[0].kind != 'str':
                        raise AbsRaise('TypeError', 'expected string or bytes-like object')
                    raise Unknown('a regex call on values without a concrete carrier')
                try:
                    rx_ = _re.compile(recv.val[1], recv.val[2])
                except _re.error as e_:
                    raise AbsRaise('error', str(e_))
                r_ = getattr(rx_, f.attr)(vs_[0].val, *[v_.val for v_ in vs_[1:]])
                if f.attr == 'findall':
                    return self._from_python(r_)
                if f.attr == 'finditer':
                    return AV('list', items=tuple(AV('other', val=('match', f.attr, m_)) for m_ in r_))
                return AV('other', val=('match', f.attr, r_)) if r_ else AV('none')
            if recv.kind == 'regex' and f.attr in ('findall', 'match', 'fullmatch', 'search', 'sub', 'split', 'finditer') and node.args:
                return self._regex_call(f.attr, recv.val[1], recv.val[2], [self.ev(x, env) for x in node.args])
            if recv.kind == 'regex' and f.attr == 'pattern':
                return const_av(recv.val[1])
            if recv.kind == 'other' and isinstance(recv.val, tuple) and recv.val[0] == 'match' and len(recv.val) == 3:
                m_ = recv.val[2]
                args_ = [self.ev(x, env) for x in node.args]
                kw_ = {k.arg: self.ev(k.value, env) for k in node.keywords if k.arg}
                if not all(a_.kind == 'none' or (a_.val is not None and not isinstance(a_.val, tuple)) for a_ in args_ + list(kw_.values())):
                    raise Unknown('a match method with arguments of unknown value')
                plain_ = [None if a_.kind == 'none' else a_.val for a_ in args_]
                kwp_ = {k_: (None if a_.kind == 'none' else a_.val) for k_, a_ in kw_.items()}
                if f.attr in ('group', 'groups', 'start', 'end', 'span', 'groupdict'):
                    try:
                        r_ = getattr(m_, f.attr)(*plain_, **kwp_)
                    except (IndexError, TypeError) as e_:
                        raise AbsRaise(type(e_).__name__, str(e_))
                    return self._from_python(r_)
            if recv.kind == 'str' and f.attr in ('startswith', 'endswith') and isinstance(recv.val, str) and len(node.args) == 1:
                a0 = self.ev(node.args[0], env)
                if isinstance(a0.val, str):
                    return const_av(getattr(recv.val, f.attr)(a0.val))
            if recv.kind == 'dict' and recv.items is not None and f.attr == 'get' and 1 <= len(node.args) <= 2:
                k = self.ev(node.args[0], env)
                default = self.ev(node.args[1], env) if len(node.args) == 2 else AV('none')     # arguments are evaluated first
                for kv in recv.items:
                    if self.eq(kv.items[0], k):
                        return kv.items[1]
                return default
            if recv.kind == 'str' and f.attr in ('lower', 'upper', 'strip', 'casefold'):
                return recv
            if recv.kind == 'str' and f.attr in ('replace', 'rstrip', 'lstrip', 'removesuffix', 'removeprefix') and \
                    recv.text in ('int', 'dec') and node.args and \
                    all(isinstance(a, ast.Constant) and isinstance(a.value, str) for a in node.args) and \
                    not any(ch.isdigit() or ch in '.+-eE' for ch in node.args[0].value):
                # removing / replacing characters that numeric text does not contain leaves numeric text as it is
                return recv
            if recv.kind == 'str' and f.attr == 'isdigit':
                return const_av(recv.text == 'int')
            if recv.kind == 'datetime' and f.attr == 'date':
                return AV('date', origin=recv.origin, val=recv.val if isinstance(recv.val, tuple) and recv.val[0] == 'day' else None)
            if recv.kind in ('date', 'datetime') and f.attr in ('weekday', 'isoweekday'):
                if isinstance(recv.val, tuple) and recv.val[0] == 'day':
                    wd = recv.val[1] % 7
                    return const_av(wd if f.attr == 'weekday' else wd + 1)
                if isinstance(recv.val, tuple) and recv.val[0] == 'weekday':
                    wd = recv.val[1]
                    return const_av(wd if f.attr == 'weekday' else wd + 1)
                raise Unknown('weekday of an unknown day')
            if recv.kind == 'blank' and f.attr.startswith('__') and ('EmptyCell.' + f.attr) in self.members:
                args = self._args(node, env)
                return self.call_method('EmptyCell.' + f.attr, args, recv)
            if recv.kind == 'func' and f.attr == '__call__':
                raise Unknown('call of a lambda')
            if recv.kind == 'float' and f.attr == 'is_integer' and not node.args:
                if isinstance(recv.val, float):
                    return const_av(recv.val.is_integer())
                if recv.frac is not None:
                    return const_av(not recv.frac)
            if recv.kind in ('int', 'bool') and f.attr == 'is_integer' and not node.args and isinstance(recv.val, int):
                return const_av(True)
            if recv.kind in ('int', 'float') and f.attr in ('bit_length', 'conjugate', 'as_integer_ratio', 'hex') and not node.args and \
                    isinstance(recv.val, (int, float)) and not isinstance(recv.val, bool) and hasattr(recv.val, f.attr):
                return self._from_python(getattr(recv.val, f.attr)()) if f.attr != 'as_integer_ratio' else \
                    AV('tuple', items=tuple(const_av(x_) for x_ in recv.val.as_integer_ratio()))
            raise Unknown(f'method {f.attr} of {recv!r}')
        raise Unknown(f'call {_unparse(f)[:40]}')

    # ---- comparison semantics -----------------------------------------------------------------------
    def eq(self, a: AV, b: AV) -> bool:
        """Python == between abstract values (raises Unknown when the partition does not decide it)"""
        if a.kind == 'blank' and 'EmptyCell.__eq__' in self.members and b.kind != 'blank':
            return truth(self.call_method('EmptyCell.__eq__', [b], a))
        if b.kind == 'blank' and 'EmptyCell.__eq__' in self.members and a.kind != 'blank':
            return truth(self.call_method('EmptyCell.__eq__', [a], b))
        if a.kind == 'blank' and b.kind == 'blank':
            return True
        if a.val is not None and b.val is not None and not isinstance(a.val, tuple) and not isinstance(b.val, tuple):
            return a.val == b.val
        if a.kind == 'obj' and b.kind == 'obj' and isinstance(a.val, tuple) and isinstance(b.val, tuple) and a.val[2] == b.val[2]:
            cm_ = self.class_method(a, '__eq__')
            if cm_ is not None:
                return truth(self.call_bound(cm_, a, [b]))
            fields_ = getattr(self, 'dataclass_fields', {}).get(a.val[2])
            if fields_ is not None:       # the generated __eq__ of a dataclass: the tuples of fields are compared
                if a.val[1] == b.val[1]:
                    return True
                return all(self.eq(self.obj_attrs(a)[f_], self.obj_attrs(b)[f_]) for f_ in fields_)
        if isinstance(a.val, tuple) and isinstance(b.val, tuple):
            return a.val == b.val
        na, nb = a.kind in NUMERIC, b.kind in NUMERIC
        if na and nb:
            if a.sign and b.sign and a.sign != b.sign:
                return False
            if a.sign == 'zero' and b.sign == 'zero':
                return True
            raise Unknown(f'{a!r} == {b!r}')
        if a.kind == 'none' or b.kind == 'none':
            return a.kind == b.kind
        if a.kind == 'str' and b.kind == 'str':
            if a.text == 'empty' or b.text == 'empty':
                return a.text == b.text
            if a.text != b.text:
                return False
            raise Unknown(f'{a!r} == {b!r}')
        if a.kind != b.kind and not (na and nb):
            return False
        raise Unknown(f'{a!r} == {b!r}')

    def compare(self, op, a: AV, b: AV, rnode=None, env=None) -> bool:
        if not isinstance(op, (ast.Is, ast.IsNot, ast.In, ast.NotIn)) and \
                any(x.kind == 'other' and isinstance(x.val, tuple) and x.val[0] == 'py' for x in (a, b)):
            import operator as _op
            fn_ = {ast.Eq: _op.eq, ast.NotEq: _op.ne, ast.Lt: _op.lt, ast.LtE: _op.le, ast.Gt: _op.gt, ast.GtE: _op.ge}[type(op)]
            try:
                return bool(fn_(self._to_python(a), self._to_python(b)))
            except TypeError as e_:
                raise AbsRaise('TypeError', str(e_))
        if isinstance(op, (ast.Eq, ast.NotEq)):
            r = self.eq(a, b)
            return r if isinstance(op, ast.Eq) else not r
        if isinstance(op, (ast.Is, ast.IsNot)):
            if a.kind == 'none' or b.kind == 'none':
                r = a.kind == b.kind
            elif isinstance(a.val, tuple) and isinstance(b.val, tuple) and a.val[0] == 'class' and b.val[0] in ('class', 'name'):
                r = a.val[1] == b.val[1]
            elif isinstance(a.val, tuple) and isinstance(b.val, tuple) and b.val[0] == 'class' and a.val[0] == 'name':
                r = a.val[1] == b.val[1]
            elif (a.kind == 'other' and isinstance(a.val, tuple) and a.val[0] == 'name') or \
                    (b.kind == 'other' and isinstance(b.val, tuple) and b.val[0] == 'name'):
                # an opaque named object (a sentinel) is identical to itself only
                r = a.kind == b.kind and a.val == b.val
            elif a.kind == 'blank' or b.kind == 'blank':
                r = False if a.kind != b.kind else None
                if r is None:
                    raise Unknown('identity of two blanks')
            else:
                raise Unknown('identity')
            return r if isinstance(op, ast.Is) else not r
        if isinstance(op, (ast.In, ast.NotIn)):
            b = self.unbox(b)
            if b.kind == 'str' and isinstance(b.val, str):
                if a.kind != 'str':
                    raise AbsRaise('TypeError', "'in <string>' requires string as left operand")
                if not isinstance(a.val, str):
                    raise Unknown('membership of a text without a concrete carrier')
                return (a.val in b.val) if isinstance(op, ast.In) else (a.val not in b.val)
            if b.items is None:
                raise Unknown('membership in an unknown container')
            r = False
            for x in (b.items if b.kind != 'dict' else tuple(kv.items[0] for kv in b.items)):
                if isinstance(a.val, tuple) and a.val[0] == 'class':
                    # type(x) in [float, int]
                    if isinstance(x.val, tuple) and x.val[0] in ('class', 'name'):
                        r = r or (x.val[1] == a.val[1])
                    continue
                try:
                    if self.eq(a, x):
                        r = True
                except Unknown:
                    raise
            return r if isinstance(op, ast.In) else not r
        # ordering
        dund = {ast.Lt: '__lt__', ast.LtE: '__le__', ast.Gt: '__gt__', ast.GtE: '__ge__'}
        refl = {ast.Lt: '__gt__', ast.LtE: '__ge__', ast.Gt: '__lt__', ast.GtE: '__le__'}
        if a.kind == 'blank' and ('EmptyCell.' + dund[type(op)]) in self.members:
            return truth(self.call_method('EmptyCell.' + dund[type(op)], [b], a))
        if b.kind == 'blank' and a.kind in ('int', 'bool', 'float', 'str', 'date', 'datetime', 'none', 'list') and \
                ('EmptyCell.' + refl[type(op)]) in self.members and a.kind != 'float':
            # int/bool: the right operand's class is a subclass overriding the reflected method -> tried first;
            # str/date/None/list: their own method returns NotImplemented -> reflected method of the blank
            return truth(self.call_method('EmptyCell.' + refl[type(op)], [a], b))
        if a.kind == 'str' and b.kind == 'str' and isinstance(a.val, str) and isinstance(b.val, str):
            x, y = a.val, b.val
            return {ast.Lt: x < y, ast.LtE: x <= y, ast.Gt: x > y, ast.GtE: x >= y}[type(op)]
        if (a.kind == 'none') != (b.kind == 'none') or (a.kind == 'none' and b.kind == 'none'):
            raise AbsRaise('TypeError', f"'{ {ast.Lt: '<', ast.LtE: '<=', ast.Gt: '>', ast.GtE: '>='}[type(op)] }' not supported between "
                                        f"instances of '{type_name(a)}' and '{type_name(b)}'")
        if a.kind in ('tuple', 'list') and a.kind == b.kind and a.items is not None and b.items is not None:
            for x_, y_ in zip(a.items, b.items):
                if not self.eq(x_, y_):
                    return self.compare(ast.Lt() if isinstance(op, (ast.Lt, ast.LtE)) else ast.Gt(), x_, y_)
            la, lb = len(a.items), len(b.items)
            return {ast.Lt: la < lb, ast.LtE: la <= lb, ast.Gt: la > lb, ast.GtE: la >= lb}[type(op)]
        if a.kind == 'blank':
            a = AV('int', sign='zero', val=0, origin=a.origin)
        if b.kind == 'blank':
            b = AV('int', sign='zero', val=0, origin=b.origin)
        if a.kind in ('date', 'datetime') and a.kind == b.kind and isinstance(a.val, tuple) and isinstance(b.val, tuple) and \
                a.val[:1] == ('day',) and b.val[:1] == ('day',):
            x, y = a.val[1], b.val[1]
            return {ast.Lt: x < y, ast.LtE: x <= y, ast.Gt: x > y, ast.GtE: x >= y}[type(op)]
        if a.kind in ('date', 'datetime') and a.kind == b.kind and isinstance(a.val, tuple) and isinstance(b.val, tuple) and \
                a.val[:1] == ('ymd',) and b.val[:1] == ('ymd',):
            x, y = a.val[1:], b.val[1:]
            return {ast.Lt: x < y, ast.LtE: x <= y, ast.Gt: x > y, ast.GtE: x >= y}[type(op)]
        if a.kind in ('int', 'float', 'bool') and b.kind in ('int', 'float', 'bool'):
            if a.val is not None and b.val is not None:
                x, y = a.val, b.val
                return {ast.Lt: x < y, ast.LtE: x <= y, ast.Gt: x > y, ast.GtE: x >= y}[type(op)]
            order = {'neg': -1, 'zero': 0, 'pos': 1}
            if a.sign and b.sign and (a.sign != b.sign or a.sign == 'zero'):
                x, y = order[a.sign], order[b.sign]
                return {ast.Lt: x < y, ast.LtE: x <= y, ast.Gt: x > y, ast.GtE: x >= y}[type(op)]
            raise Unknown(f'ordering of {a!r} and {b!r}')
        raise Unknown(f'ordering of {a!r} and {b!r}')


def names_in_list(node, names=('float', 'int')):
    return isinstance(node, ast.List) and all(isinstance(e, ast.Name) for e in node.elts)


def evaluator_for(cp, hooks=None, max_depth: int = 8) -> Evaluator:
    """an evaluator for the members of one runtime copy that also knows the class-level and module-level constants of that copy"""
    ev = Evaluator(cp.members, hooks=hooks, max_depth=max_depth)
    cc = {}
    for st in cp.cls_node.body:
        if isinstance(st, ast.Assign) and len(st.targets) == 1 and isinstance(st.targets[0], ast.Name):
            cc[st.targets[0].id] = st.value
        elif isinstance(st, ast.AnnAssign) and isinstance(st.target, ast.Name) and st.value is not None:
            cc[st.target.id] = st.value
    ev.class_consts = cc
    mc = {}
    for st in cp.module_tree.body:
        if isinstance(st, ast.Assign) and len(st.targets) == 1 and isinstance(st.targets[0], ast.Name) and \
                (isinstance(st.value, (ast.Dict, ast.Tuple, ast.List, ast.Constant)) or
                 (isinstance(st.value, ast.Call) and _unparse(st.value.func) == 're.compile')):
            mc[st.targets[0].id] = st.value            # (anything else, e.g. a sentinel `object()`, stays an opaque named object)
    ev.module_consts = mc
    for st in cp.module_tree.body:
        if isinstance(st, ast.FunctionDef):
            ev.functions.setdefault(st.name, st)
    return ev


def evaluator_for_class(ci, hooks=None, max_depth: int = 8) -> Evaluator:
    """an evaluator for the methods of a class of the repository (a ClassInfo of the source model), with its class-level and
    module-level constants"""
    from types import SimpleNamespace
    ev = evaluator_for(SimpleNamespace(members={n: m.node for n, m in ci.methods.items()}, cls_node=ci.node, module_tree=ci.module.tree),
                       hooks=hooks, max_depth=max_depth)
    ev.functions = {st.name: st for st in ci.module.tree.body if isinstance(st, ast.FunctionDef)}
    return ev
