"""Thorough tier: the checker tests itself against the current tree.

(i)   every seeded change under /verif/seeded that breaks the property is applied to a scratch copy of the CURRENT working tree of
      /repo and the property's quick check must report a VIOLATION on it (a seed whose patch no longer applies is listed, not failed);
(ii)  every behaviour-preserving twin (selftest/twins.py and selftest/agent_twins/*) is applied the same way and the quick check must
      NOT report a violation (exit 2 = "cannot decide this shape" is listed);
(iii) model conformance: the grammar / lexer order / helper tables extracted statically are compared with what the real package
      builds when it is imported in a SEPARATE process.  This step is dynamic and is not a deciding step: a mismatch means the
      extractor misreads the code and is reported as ANALYSIS-ERROR, never as a violation.
Scratch copies live under /dev/shm (or $TMPDIR) and are removed at once.  A failure of (i), (ii) or (iii) is exit 2.
"""
from __future__ import annotations

import json
import os
import shutil
import subprocess
import sys
import tempfile
from concurrent.futures import ThreadPoolExecutor
from pathlib import Path

from .core import VERIF, REPO, PKG

PY = '/venv/bin/python' if os.path.exists('/venv/bin/python') else sys.executable


def _scratch_base() -> Path:
    d = '/dev/shm' if os.path.isdir('/dev/shm') and os.access('/dev/shm', os.W_OK) else None
    return Path(tempfile.mkdtemp(prefix='verif-self.', dir=d))


def _copy_tree(dst: Path):
    shutil.copytree(REPO / PKG, dst / PKG, ignore=shutil.ignore_patterns('__pycache__'))


def _run_check(prop: str, tree: Path):
    env = dict(os.environ, VERIF_REPO=str(tree), VERIF_EVIDENCE_DIR=str(tree / 'ev'), VERIF_TIER='quick')
    r = subprocess.run([str(VERIF / 'check'), prop, '--tier', 'quick'], cwd=VERIF, env=env, capture_output=True, text=True)
    diag = [l for l in r.stdout.splitlines() if l.startswith(('DIAGNOSTIC', 'ANALYSIS-ERROR'))]
    return r.returncode, diag


def seeds_for(prop: str) -> list:
    out = []
    for d in sorted((VERIF / 'seeded').glob('*')):
        m = d / 'meta.json'
        if not (d / 'patch.diff').exists() or not m.exists():
            continue
        try:
            meta = json.loads(m.read_text())
        except Exception:
            continue
        if (meta.get('breaks_property') or d.name[:3]) == prop:
            out.append(d)
    return out


def run_seeds(prop: str, jobs: int = 8) -> dict:
    base = _scratch_base()
    res = {'run': 0, 'caught': 0, 'missed': [], 'inapplicable': [], 'caught_rules': {}}

    def one(d: Path):
        wt = base / d.name
        wt.mkdir()
        _copy_tree(wt)
        r = subprocess.run(['patch', '-p1', '-s', '-f', '-i', str(d / 'patch.diff')], cwd=wt, capture_output=True, text=True)
        if r.returncode != 0:
            shutil.rmtree(wt, ignore_errors=True)
            return d.name, None, []
        rc, diag = _run_check(prop, wt)
        shutil.rmtree(wt, ignore_errors=True)
        return d.name, rc, diag
    try:
        with ThreadPoolExecutor(max_workers=jobs) as ex:
            for name, rc, diag in ex.map(one, seeds_for(prop)):
                if rc is None:
                    res['inapplicable'].append(name)
                    continue
                res['run'] += 1
                if rc == 1:
                    res['caught'] += 1
                    rules = sorted({l.split()[1] for l in diag if l.startswith('DIAGNOSTIC')})
                    res['caught_rules'][name] = rules
                else:
                    res['missed'].append(f'{name} (exit {rc})')
    finally:
        shutil.rmtree(base, ignore_errors=True)
    return res


def _twins() -> list:
    """[(name, apply(tree) -> error or None)]"""
    out = []
    sys.path.insert(0, str(VERIF / 'selftest'))
    try:
        from twins import TWINS            # type: ignore
    except Exception:
        TWINS = []
    finally:
        sys.path.pop(0)
    for t in TWINS:
        def apply(tree: Path, t=t):
            for files, old, new in t['edits']:
                for f in ([files] if isinstance(files, str) else files):
                    p = tree / f
                    s = p.read_text(encoding='utf-8')
                    if s.count(old) != 1:
                        return f'edit does not apply to {f}'
                    p.write_text(s.replace(old, new), encoding='utf-8')
            return None
        out.append((t['name'], apply))
    for d in sorted((VERIF / 'selftest' / 'agent_twins').glob('*')):
        if (d / 'patch.diff').exists():
            def apply(tree: Path, d=d):
                r = subprocess.run(['patch', '-p1', '-s', '-f', '-i', str(d / 'patch.diff')], cwd=tree, capture_output=True, text=True)
                return None if r.returncode == 0 else 'patch does not apply'
            out.append((d.name, apply))
    return out


def run_twins(prop: str, jobs: int = 8) -> dict:
    base = _scratch_base()
    res = {'run': 0, 'silent': 0, 'false_alarms': [], 'inconclusive': [], 'inapplicable': []}

    def one(item):
        name, apply = item
        wt = base / name
        wt.mkdir()
        _copy_tree(wt)
        err = apply(wt)
        if err:
            shutil.rmtree(wt, ignore_errors=True)
            return name, None, [err]
        rc, diag = _run_check(prop, wt)
        shutil.rmtree(wt, ignore_errors=True)
        return name, rc, diag
    try:
        with ThreadPoolExecutor(max_workers=jobs) as ex:
            for name, rc, diag in ex.map(one, _twins()):
                if rc is None:
                    res['inapplicable'].append(name)
                    continue
                res['run'] += 1
                if rc == 0:
                    res['silent'] += 1
                elif rc == 1:
                    res['false_alarms'].append(f'{name}: {(diag or ["?"])[0][:160]}')
                else:
                    res['inconclusive'].append(f'{name}: {(diag or ["?"])[0][:120]}')
    finally:
        shutil.rmtree(base, ignore_errors=True)
    return res


_CONFORMANCE_SNIPPET = r'''
import json, sys, warnings
warnings.filterwarnings('ignore')
from excel2pycl.src.tokens import *            # noqa
from excel2pycl.src.tokens.base_token import BaseToken
from excel2pycl.src.tokens.composite_base_token import CompositeBaseToken
from excel2pycl.src.tokens.regexp_base_token import RegexpBaseToken
import inspect
out = {'terminals': {}, 'composites': {}, 'lexer_order': []}
def walk(c):
    for s in c.__subclasses__():
        yield s
        yield from walk(s)
for c in set(walk(RegexpBaseToken)):
    out['terminals'][c.__name__] = {'regexp': c.regexp, 'tail': c.last_match_regexp, 'value_range': list(c.value_range)}
for c in sorted(set(walk(CompositeBaseToken)), key=lambda c: c.__name__):
    if '_TOKEN_SETS' not in c.__dict__ or c.__name__ in ('CompositeBaseToken', 'RecursiveCompositeBaseToken'):
        continue        # abstract bases: calling get_token_sets on them would mark their subclasses as processed
    try:
        ts = c.get_token_sets()
    except Exception as e:
        ts = None
    if ts is not None:
        out['composites'][c.__name__] = [[getattr(x, '__name__', str(x)) for x in prod] for prod in ts]
try:
    from excel2pycl.src.lexer import Lexer
    out['lexer_order'] = [c.__name__ for c in Lexer.TOKENS]
except Exception as e:
    out['lexer_order_error'] = repr(e)
from excel2pycl.src.utilities.abstract_excel_in_python_class import AbstractExcelInPython
out['runtime'] = {n: len(inspect.signature(f).parameters) for n, f in inspect.getmembers(AbstractExcelInPython, inspect.isfunction)}
print(json.dumps(out))
'''


def conformance(src, g, rt) -> list:
    """compares the static models with the imported package (separate process). Returns a list of mismatch descriptions."""
    env = dict(os.environ, PYTHONPATH=str(REPO), PYTHONDONTWRITEBYTECODE='1')
    r = subprocess.run([PY, '-B', '-c', _CONFORMANCE_SNIPPET], cwd='/', env=env, capture_output=True, text=True, timeout=120)
    if r.returncode != 0:
        return [f'the package could not be imported for the conformance step: {r.stderr.strip().splitlines()[-1][:200] if r.stderr.strip() else r.returncode}']
    real = json.loads(r.stdout.strip().splitlines()[-1])
    bad = []
    # terminals
    for name, t in g.terminals.items():
        rt_ = real['terminals'].get(name)
        if rt_ is None:
            bad.append(f'terminal {name} is in the static grammar but not a RegexpBaseToken subclass at run time')
            continue
        if rt_['regexp'] != t.regexp or rt_['tail'] != t.tail or list(rt_['value_range']) != list(t.value_range):
            bad.append(f'terminal {name}: static (regexp, tail, value_range) differs from the imported class')
    for name in real['terminals']:
        if name not in g.terminals and name not in ('KeywordRegexpBaseToken',):
            bad.append(f'terminal {name} exists at run time but not in the static grammar')
    # productions
    for name, c in g.composites.items():
        rp = real['composites'].get(name)
        if rp is None:
            bad.append(f'nonterminal {name} is in the static grammar but has no token sets at run time')
            continue
        sp = [[str(x) for x in p] for p in c.productions]
        if sp != rp:
            d = next((i for i, (a, b) in enumerate(zip(sp, rp)) if a != b), min(len(sp), len(rp)))
            bad.append(f'nonterminal {name}: static productions differ from get_token_sets() ({len(sp)} vs {len(rp)} productions; first '
                       f'difference at production[{d}]: {sp[d] if d < len(sp) else None} vs {rp[d] if d < len(rp) else None})')
    for name in real['composites']:
        if name not in g.composites and real['composites'][name]:
            bad.append(f'nonterminal {name} exists at run time but not in the static grammar')
    # lexer order
    # the static order lists the real terminals; at run time the raising fallback UndefinedToken is appended last
    if real.get('lexer_order') and real['lexer_order'][-1:] == ['UndefinedToken'] and 'UndefinedToken' not in g.lexer_order:
        real['lexer_order'] = real['lexer_order'][:-1]
    if real.get('lexer_order') and list(g.lexer_order) != real['lexer_order']:
        bad.append('static lexer order differs from Lexer.TOKENS: ' + f"{len(g.lexer_order)} vs {len(real['lexer_order'])} classes; only static {[x for x in g.lexer_order if x not in real['lexer_order']][:4]}; only real {[x for x in real['lexer_order'] if x not in g.lexer_order][:4]}; first difference {[(a, b) for a, b in zip(g.lexer_order, real['lexer_order']) if a != b][:2]}")
    # runtime helper arities (base class copy)
    base = next((cp for cp in rt.copies() if cp.label == 'base'), None)
    if base is not None:
        import ast
        for n, k in real['runtime'].items():
            fn = base.members.get(n)
            if fn is None:
                bad.append(f'runtime method {n} exists at run time but not in the static runtime model')
                continue
            a = fn.args
            sk = len(a.posonlyargs) + len(a.args) + len(a.kwonlyargs) + (1 if a.vararg else 0) + (1 if a.kwarg else 0)
            if sk != k:
                bad.append(f'runtime method {n}: {sk} parameters statically, {k} at run time')
    return bad


PURITY_EXAMPLES = [
    # (source of a small table of classes, method, expected: may its answers be remembered?)
    ("class T:\n    S = []\n    def __init__(self, v, c):\n        self.v = v\n    @classmethod\n    def get(cls, e, c):\n"
     "        out = []\n        for t in cls.S:\n            out.append(t)\n        return cls(out, c), e[1:]\n", 'get', True),
    ("class T:\n    LOG = []\n    def __init__(self, v, c):\n        self.v = v\n    @classmethod\n    def get(cls, e, c):\n"
     "        c.seen = True\n        return cls(e, c), e\n", 'get', False),                       # stores into an argument
    ("class T:\n    def __init__(self, v, c):\n        self.v = v\n        c.count = 1\n    @classmethod\n    def get(cls, e, c):\n"
     "        return cls(e, c), e\n", 'get', False),                                                   # the constructor stores into an argument
    ("class T:\n    def __init__(self, v, c):\n        self.v = v\n    @classmethod\n    def get(cls, e, c):\n"
     "        e.pop(0)\n        return cls(e, c), e\n", 'get', False),                              # consumes its argument in place
    ("class T:\n    def __init__(self, v, c):\n        self.v = v\n    @classmethod\n    def get(cls, e, c):\n"
     "        global N\n        N = 1\n        return cls(e, c), e\n", 'get', False),
    ("class T:\n    def __init__(self, v, c):\n        self.v = v\n    @classmethod\n    def get(cls, e, c):\n"
     "        return helper(e), e\n", 'get', False),                                                   # calls something unknown
    ("class T:\n    _P = False\n    def __init__(self, v, c):\n        self.v = v\n    @classmethod\n    def sets(cls):\n"
     "        if not cls._P:\n            cls._P = True\n        return []\n    @classmethod\n    def get(cls, e, c):\n"
     "        return cls(cls.sets(), c), e\n", 'get', True),                                          # lazy class state: counted at run time
]


def purity_examples() -> list:
    """the analysis that allows the evaluator to remember the answers of parser methods, on small examples with known verdicts"""
    import ast
    from .finite import memoizable
    bad = []
    for text, name, want in PURITY_EXAMPLES:
        tree = ast.parse(text)
        table = {c.name: {'mro': [c.name], 'attrs': {}, 'methods': {f.name: f for f in c.body if isinstance(f, ast.FunctionDef)}}
                 for c in tree.body if isinstance(c, ast.ClassDef)}
        memo, _ = memoizable(table, {name})
        got = bool(memo)
        if got != want:
            bad.append(f'purity analysis: expected {"pure" if want else "impure"} for {text.splitlines()[-2].strip()!r}..., got the opposite')
    return bad


def thorough(run, prop: str):
    """called by main for --tier thorough after the rules of the property ran on the current tree"""
    info = {}
    s = run_seeds(prop)
    info['seeded_changes'] = {'applied': s['run'], 'caught': s['caught'], 'missed': s['missed'], 'patch_no_longer_applies': s['inapplicable'],
                              'rules_that_fired': s['caught_rules']}
    accepted = {}
    for m in s['missed']:
        try:
            meta = json.loads((VERIF / 'seeded' / m.split(' ')[0] / 'meta.json').read_text())
        except Exception:
            meta = {}
        if meta.get('accepted_miss'):
            accepted[m] = meta['accepted_miss']
            run.note(f'thorough: seeded change {m} is not reported, accepted: {meta["accepted_miss"]}')
            if not run.quiet:
                print(f'  NOTE: seeded change {m} is not reported (accepted, see seeded/{m.split(" ")[0]}/meta.json): {meta["accepted_miss"][:160]}')
            continue
        run.error('selftest', f'the seeded change {m} breaks {prop} but the quick check does not report a violation on it')
    info['seeded_changes']['accepted_misses'] = accepted
    t = run_twins(prop)
    info['twins'] = {'applied': t['run'], 'silent': t['silent'], 'false_alarms': t['false_alarms'], 'inconclusive': t['inconclusive'],
                     'edit_no_longer_applies': t['inapplicable']}
    for f in t['false_alarms']:
        run.error('selftest', f'false alarm on a behaviour-preserving twin: {f}')
    try:
        from .source import get_source
        from .grammar import get_grammar
        from .runtime import get_runtime
        src = get_source()
        bad = conformance(src, get_grammar(src), get_runtime(src))
        info['model_conformance'] = {'mismatches': bad, 'note': 'dynamic, separate process, validates the extractor only'}
        for b in bad:
            run.error('conformance', b)
        pure_bad = purity_examples()
        info['purity_examples'] = {'examples': len(PURITY_EXAMPLES), 'mismatches': pure_bad}
        for b in pure_bad:
            run.error('selftest', b)
    except Exception as e:      # the conformance step must never look like a violation
        info['model_conformance'] = {'error': f'{type(e).__name__}: {e}'}
        run.error('conformance', f'conformance step failed: {type(e).__name__}: {e}')
    run.extra['thorough_selftest'] = info
    run.note(f'thorough: {s["caught"]}/{s["run"]} seeded changes caught, {t["silent"]}/{t["run"]} twins silent, '
             f'{len(info.get("model_conformance", {}).get("mismatches", []) or [])} conformance mismatch(es)')
    if not run.quiet:
        print(f'  thorough self-test: {s["caught"]}/{s["run"]} seeded changes of {prop} caught'
              f'{" (" + str(len(s["inapplicable"])) + " no longer apply)" if s["inapplicable"] else ""}; '
              f'{t["silent"]}/{t["run"]} twins silent, {len(t["inconclusive"])} inconclusive, {len(t["false_alarms"])} false alarm(s); '
              f'model conformance: {len(info.get("model_conformance", {}).get("mismatches", []) or [])} mismatch(es)')
