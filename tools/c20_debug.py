#!/venv/bin/python
"""c20_debug.py <twin-or-seed patch> <member>: canonical forms of the two copies of a member and their edit script (scratch copy)"""
import ast, os, pathlib, shutil, subprocess, sys, tempfile
V = pathlib.Path(__file__).resolve().parent.parent
patch, member = sys.argv[1], sys.argv[2]
wt = pathlib.Path(tempfile.mkdtemp(prefix='c20dbg.', dir='/dev/shm'))
shutil.copytree('/repo/excel2pycl', wt / 'excel2pycl', ignore=shutil.ignore_patterns('__pycache__'))
if patch != '-':
    subprocess.run(['patch', '-p1', '-s', '-f', '-i', str(pathlib.Path(patch).resolve())], cwd=wt, check=True)
os.environ['VERIF_REPO'] = str(wt)
sys.path.insert(0, str(V))
from sa.source import get_source
from sa.runtime import get_runtime
from sa.canon import canonical, copy_context, edit_script
from sa.rules.c20 import _keyword_names
src = get_source(); rt = get_runtime(src)
kw = _keyword_names(src, rt).get(member.rsplit('.',1)[-1], set())
cb = canonical(rt.base.members[member], copy_context(rt.base), kw)
ct = canonical(rt.template.members[member], copy_context(rt.template), kw)
print('--- base'); print(ast.unparse(cb)); print('--- template'); print(ast.unparse(ct))
for k, path, xa, xb in edit_script(cb, ct):
    sh = lambda x: ' '.join(ast.unparse(x).split())[:100] if isinstance(x, ast.AST) else repr(x)
    print(k, path, '|', sh(xa), '|', sh(xb))
shutil.rmtree(wt)
