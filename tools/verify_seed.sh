#!/bin/bash
# verify_seed.sh <dir with patch.diff demo.py> : confirms a seeded change in a scratch worktree of /repo HEAD
# (demo exits 0 unpatched; with the patch the 44 tests pass and the demo exits non-zero). Prints one line.
d=$(realpath "$1"); id=$(echo "$d" | sed 's#.*/\(C[0-9]*\)/\([a-z0-9_]*\)$#\1\2#')
wt=/tmp/sv/$id.$$; mkdir -p /tmp/sv
git -C /repo worktree add --detach "$wt" HEAD -q 2>/dev/null || { echo "$id: cannot create worktree"; exit 2; }
cd "$wt"
PYTHONPATH=$wt timeout 600 /venv/bin/python "$d/demo.py" >/tmp/sv/$id.base.log 2>&1; r0=$?
if ! git apply --check "$d/patch.diff" 2>/dev/null; then echo "$id: PATCH-DOES-NOT-APPLY base_demo=$r0"; cd /; git -C /repo worktree remove --force "$wt"; exit 3; fi
git apply "$d/patch.diff"
t=$(PYTHONPATH=$wt /venv/bin/python -m pytest -q -p no:cacheprovider --timeout=900 2>&1 | tail -1)
PYTHONPATH=$wt timeout 600 /venv/bin/python "$d/demo.py" >/tmp/sv/$id.patched.log 2>&1; r1=$?
cd /; git -C /repo worktree remove --force "$wt"
ok=FAIL; [ $r0 -eq 0 ] && [ $r1 -ne 0 ] && echo "$t" | grep -q "^44 passed" && ok=CONFIRMED
echo "$id: $ok base_demo=$r0 patched_demo=$r1 tests='$t'"
