#!/usr/bin/env python3
"""gen_table.py [extra RESULTS json ...]: seeded/TABLE.md from seeded/RESULTS.json (entries of the extra files are merged in first)"""
import json
import re
import sys
from pathlib import Path

V = Path('/verif')
res = json.loads((V / 'seeded' / 'RESULTS.json').read_text())
for extra in sys.argv[1:]:
    res.update(json.loads(Path(extra).read_text()))
(V / 'seeded' / 'RESULTS.json').write_text(json.dumps(res, indent=1, sort_keys=True))
rows = ['# Seeded changes and the checks that catch them', '',
        'Generated from seeded/RESULTS.json (`python3 tools/run_seeds.py --json seeded/RESULTS.json`; `python3 tools/gen_table.py`).', '',
        '| seed | change (abridged) | rules of its own property that fire | other properties that fire |', '|---|---|---|---|']
for sid in sorted(res):
    try:
        meta = json.loads((V / 'seeded' / sid / 'meta.json').read_text())
    except Exception:
        meta = {}
    own = sid[:3]
    fired = res[sid].get('fired', {})
    own_rules = sorted({re.sub(r' \[.*', '', r) for r in fired.get(own, [])})
    others = sorted(p for p in fired if p != own)
    note = ''
    if not own_rules:
        note = 'accepted miss: ' + meta['accepted_miss'][:120] if meta.get('accepted_miss') else \
            ('exit 2 (declined)' if own in res[sid].get('inconclusive', []) else '-- none --')
    summary = (meta.get('summary') or '').replace('\n', ' ').replace('|', '/')[:150]
    rows.append(f'| {sid} | {summary} | {", ".join(own_rules) or note} | {", ".join(others)} |')
(V / 'seeded' / 'TABLE.md').write_text('\n'.join(rows) + '\n')
print(len(res), 'seeds')
