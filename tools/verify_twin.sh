#!/bin/bash
# verify_twin.sh <dir with patch.diff demo.py> : confirms a behaviour-preserving twin in a scratch worktree of /repo HEAD
# (demo output identical before/after, exit 0 both; 44 tests pass with the patch). Prints one line.
d=$(realpath "$1"); id=$(echo "$d" | sed 's#.*/\(T[0-9]*\)/\(r[0-9]*\)$#\1-\2#')
wt=/tmp/tv/$id.$$; mkdir -p /tmp/tv
git -C /repo worktree add --detach "$wt" HEAD -q 2>/dev/null || { echo "$id: cannot create worktree"; exit 2; }
cd "$wt"
PYTHONPATH=$wt PYTHONHASHSEED=0 timeout 900 /venv/bin/python "$d/demo.py" >/tmp/tv/$id.base.out 2>/tmp/tv/$id.base.err; r0=$?
if ! git apply --check "$d/patch.diff" 2>/dev/null; then echo "$id: PATCH-DOES-NOT-APPLY"; cd /; git -C /repo worktree remove --force "$wt"; exit 3; fi
git apply "$d/patch.diff"
t=$(PYTHONPATH=$wt /venv/bin/python -m pytest -q -p no:cacheprovider --timeout=900 2>&1 | tail -1)
PYTHONPATH=$wt PYTHONHASHSEED=0 timeout 900 /venv/bin/python "$d/demo.py" >/tmp/tv/$id.new.out 2>/tmp/tv/$id.new.err; r1=$?
cd /; git -C /repo worktree remove --force "$wt"
same=DIFFERENT; cmp -s /tmp/tv/$id.base.out /tmp/tv/$id.new.out && same=IDENTICAL
ok=FAIL; [ $r0 -eq 0 ] && [ $r1 -eq 0 ] && [ $same = IDENTICAL ] && echo "$t" | grep -q "^44 passed" && ok=CONFIRMED
echo "$id: $ok base_demo=$r0 patched_demo=$r1 output=$same lines=$(wc -l < /tmp/tv/$id.base.out) tests='$t'"
rm -f /tmp/tv/$id.*
