#!/venv/bin/python
"""run_seeds.py [--props C05,C06] [--seeds C05a,C05b] : applies every seeded change to a scratch copy of /repo's working
tree (outside /repo and /verif, removed afterwards) and runs the checks against it. Prints which checks fire."""
import argparse, json, os, pathlib, shutil, subprocess, sys, tempfile
from concurrent.futures import ThreadPoolExecutor
V = pathlib.Path('/verif')
ap = argparse.ArgumentParser()
ap.add_argument('--props', default='')
ap.add_argument('--seeds', default='')
ap.add_argument('--dir', default=str(V / 'seeded'))
ap.add_argument('--tier', default='quick')
ap.add_argument('-v', action='store_true')
ap.add_argument('--json', default='')
a = ap.parse_args()
built = sorted(p.stem.upper() for p in (V / 'sa' / 'rules').glob('c[0-9][0-9].py'))
props = [p for p in a.props.split(',') if p] or built
seeds = sorted(d for d in pathlib.Path(a.dir).iterdir() if d.is_dir() and (d / 'patch.diff').exists())
if a.seeds:
    seeds = [d for d in seeds if d.name in a.seeds.split(',')]
base = pathlib.Path(tempfile.mkdtemp(prefix='seedrun.', dir='/dev/shm' if os.path.isdir('/dev/shm') else None))

def one(d):
    wt = base / d.name
    (wt).mkdir()
    shutil.copytree('/repo/excel2pycl', wt / 'excel2pycl', ignore=shutil.ignore_patterns('__pycache__'))
    r = subprocess.run(['patch', '-p1', '-s', '-i', str(d / 'patch.diff')], cwd=wt, capture_output=True, text=True)
    if r.returncode != 0:
        return d.name, None, 'patch failed: ' + r.stdout[:200]
    res = {}
    env = dict(os.environ, VERIF_REPO=str(wt), VERIF_EVIDENCE_DIR=str(wt / 'ev'))
    for p in props:
        r = subprocess.run([str(V / 'check'), p, '--tier', a.tier], cwd=V, env=env, capture_output=True, text=True)
        diag = [l for l in r.stdout.splitlines() if l.startswith(('DIAGNOSTIC', 'ANALYSIS-ERROR'))]
        res[p] = (r.returncode, diag)
    shutil.rmtree(wt, ignore_errors=True)
    return d.name, res, ''

try:
    with ThreadPoolExecutor(max_workers=14) as ex:
        results = list(ex.map(one, seeds))
finally:
    shutil.rmtree(base, ignore_errors=True)
caught = 0
for name, res, err in results:
    if res is None:
        print(f'{name}: {err}')
        continue
    own = name[:3]
    fired = [p for p, (rc, _) in res.items() if rc == 1]
    errs = [p for p, (rc, _) in res.items() if rc == 2]
    status = 'CAUGHT' if own in fired else ('caught-elsewhere' if fired else ('analysis-error' if errs else ('MISSED' if own in res else 'own-check-not-built')))
    caught += bool(fired)
    print(f'{name}: {status} fired={fired} errors={errs}')
    if a.v:
        for p, (rc, diag) in res.items():
            for l in diag[:3]:
                print(f'      {p}: {l[:260]}')
if a.json:
    import re as _re
    out = {}
    for name, res, err in results:
        if res is None:
            out[name] = {'error': err}
            continue
        out[name] = {'fired': {p: sorted({_re.sub(r'^DIAGNOSTIC: (\S+) .*?\[([^\]]*)\].*$', r'\1 [\2]', l) for l in d if l.startswith('DIAGNOSTIC')})[:6]
                               for p, (rc, d) in res.items() if rc == 1},
                     'inconclusive': [p for p, (rc, d) in res.items() if rc == 2]}
    pathlib.Path(a.json).write_text(json.dumps(out, indent=1))
print(f'{caught}/{len(results)} seeds make at least one check fire; checks run: {props}')
