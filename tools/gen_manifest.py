#!/venv/bin/python
"""Regenerates /verif/MANIFEST.json from tools/claims.json (one entry per claimed property)."""
import json, pathlib
V = pathlib.Path(__file__).resolve().parent.parent
props = [json.loads(l) for l in (V / 'properties.jsonl').read_text().splitlines() if l.strip()]
claims = json.loads((V / 'tools' / 'claims.json').read_text())
checks, na = [], []
for p in props:
    i = p['id']
    c = claims.get(i)
    if c and c.get('claimed'):
        checks.append({
            'property_id': i,
            'quick_cmd': f'./check {i} --tier quick',
            'thorough_cmd': f'./check {i} --tier thorough',
            'evidence_file': f'/verif/evidence/{i}.json',
            'replay_cmd_template': './check --replay {path}',
            'engine': 'sa',
            'level_claimed': {'category': 'other', 'text': c['level_text'], 'design_ref': c.get('design_ref', f'DESIGN.md section 3, {i}')},
            'level_note': c['level_note'],
            'technique': c['technique'],
        })
    else:
        na.append({'property_id': i, 'reason': (c or {}).get('reason', 'check not built yet (build phase in progress; DESIGN.md section 3 lists the planned rules)')})
m = {
    'version': 1,
    'setup_cmd': 'true',
    'hooks': {'guard': 'ESOFT_TECH_PY_BC_EXCEL2PYCL_VERIF',
              'enable': 'no hooks exist: every check is a static analysis of the working tree of /repo (ast / re._parser), nothing is built or run',
              'baseline_off_cmd': 'cd /repo && /venv/bin/python -m pytest -ra -q -p no:cacheprovider --timeout=900 --continue-on-collection-errors',
              'source_commits': [], 'add_only': True},
    'engines': [{'name': 'sa', 'path': '/verif/sa', 'serves_properties': [c['property_id'] for c in checks],
                 'kind_free_text': 'repository-specific static analysis in Python (stdlib ast, re._parser): source/grammar/regex/'
                                   'symbolic-emission/runtime/effect/finite-domain/role engines with one rule module per property'}],
    'checks': checks,
    'not_applicable': na,
    'notes': 'Static-analysis family. The deciding step parses /repo on every run and never imports or executes it. '
             'Exit 0 = holds (KNOWN-FINDING lines for defects listed in known_findings.json), 1 = VIOLATION, 2 = ANALYSIS-ERROR '
             '(anchor vanished / unmodelled construct / instance floor missed). See DESIGN.md.',
}
(V / 'MANIFEST.json').write_text(json.dumps(m, indent=1))
print(f'{len(checks)} claimed, {len(na)} not applicable')
