#!/bin/bash
# with_patch.sh <patch.diff> <command...>: runs the command with VERIF_REPO pointing at a scratch copy of /repo's working tree
# (under /dev/shm, removed afterwards) to which the patch has been applied
set -e
P=$(readlink -f "$1"); shift
D=$(mktemp -d /dev/shm/wp.XXXXXX)
trap 'rm -rf "$D"' EXIT
cp -r /repo/excel2pycl "$D/excel2pycl"
[ -d /repo/test ] && cp -r /repo/test "$D/test"
find "$D" -name __pycache__ -type d -prune -exec rm -rf {} +
(cd "$D" && patch -p1 -s -f -i "$P")
VERIF_REPO="$D" VERIF_EVIDENCE_DIR="$D/ev" WP_DIR="$D" "$@"
