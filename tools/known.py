#!/venv/bin/python
"""known.py add <property> <key> <witness> <description>   |   known.py list   (maintains /verif/known_findings.json by hand)"""
import json, sys, pathlib
P = pathlib.Path('/verif/known_findings.json')
d = json.loads(P.read_text())
if sys.argv[1] == 'add':
    _, _, prop, key, witness, desc = sys.argv
    d['known'] = [k for k in d['known'] if not (k['property'] == prop and k['key'] == key)]
    d['known'].append({'property': prop, 'key': key, 'witness': witness, 'description': desc})
    d['known'].sort(key=lambda k: (k['property'], k['key']))
    P.write_text(json.dumps(d, indent=1, ensure_ascii=False))
elif sys.argv[1] == 'list':
    for k in d['known']:
        print(k['property'], k['key'], '--', k['witness'])
