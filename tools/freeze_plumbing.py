#!/venv/bin/python
"""Prints (or with --write stores) the canonical plumbing of every (Excel function, production) of the current tree.
The stored file is a hand-confirmed reference: read every line against Excel's documented signature before committing."""
import sys, json, collections
sys.path.insert(0, '/verif')
from sa.source import get_source
from sa.emission import get_emission
from sa.runtime import get_runtime
from sa.plumbing import canonical, REF_FILE
from sa.rules.common import excel_name
src = get_source(); em = get_emission(src); rt = get_runtime(src)
ref = collections.OrderedDict()
for (tr, tk) in em.function_pairs():
    name = excel_name(em.g, tk)
    forms = collections.OrderedDict()
    for e in em.pairs[(tr, tk)]:
        if e.outcome.kind != 'return' or em.unreachable(e):
            continue
        text, problems = canonical(em, e, rt)
        key = f'production[{e.production}]'
        forms.setdefault(key, [])
        if text not in forms[key]:
            forms[key].append(text)
    ref[name] = {'token': tk, 'translator': tr, 'forms': forms}
if '--write' in sys.argv:
    old = json.loads(REF_FILE.read_text()) if REF_FILE.exists() else {}
    for k, v in ref.items():
        v['confirmed'] = old.get(k, {}).get('confirmed', '')
    REF_FILE.write_text(json.dumps(ref, indent=1))
    print('written', REF_FILE)
else:
    for k, v in ref.items():
        print(k)
        for p, fs in v['forms'].items():
            for f in fs[:6]:
                print('   ', p, f[:230])
            if len(fs) > 6: print('    ...', len(fs), 'forms')
