#!/venv/bin/python
"""import_seed.py <seedout dir> <result line>: copies a confirmed seeded change into /verif/seeded/<id>/"""
import json, shutil, sys, pathlib, subprocess
src = pathlib.Path(sys.argv[1]); line = sys.argv[2]
prop = src.parent.name; sid = prop + src.name
dst = pathlib.Path('/verif/seeded') / sid
dst.mkdir(parents=True, exist_ok=True)
for f in ('patch.diff', 'demo.py'):
    shutil.copy(src / f, dst / f)
try:
    meta = json.loads((src / 'meta.json').read_text())
except Exception:
    meta = {}
head = subprocess.run(['git', '-C', '/repo', 'rev-parse', '--short', 'HEAD'], capture_output=True, text=True).stdout.strip()
out = {'id': sid, 'breaks_property': meta.get('property', prop), 'summary': meta.get('summary'), 'files': meta.get('files'),
       'mechanism': meta.get('mechanism'), 'needs_to_manifest': meta.get('needs'), 'why_tests_pass': meta.get('why_tests_pass'),
       'copies_changed': meta.get('copies_changed'), 'author': 'independent sub-agent given only the property text and a scratch worktree',
       'author_verified': meta.get('verified'),
       'confirmed_by_me': {'against_repo_commit': head,
                           'what_i_ran': 'tools/verify_seed.sh: scratch worktree of /repo HEAD; demo.py unpatched (exit 0); git apply patch.diff; '
                                         'pytest (44 passed); demo.py patched (exit non-zero); worktree removed',
                           'result': line}}
(dst / 'meta.json').write_text(json.dumps(out, indent=1, ensure_ascii=False))
print('imported', sid)
