#!/bin/bash
# import_round8.sh : verifies and imports every finished, not yet imported seed of /tmp/seedout3 and twin of /tmp/twinout2
cd /verif
for d in /tmp/seedout7/S*/C??o; do
  [ -f "$d/patch.diff" ] && [ -f "$d/demo.py" ] && [ -f "$d/meta.json" ] || continue
  id=$(basename "$d"); [ -d "seeded/$id" ] && continue
  # verify_seed.sh derives the id from .../<Cxx>/<letter>: give it that layout
  tmp=/tmp/imp8/${id:0:3}/${id:3}; mkdir -p "$tmp"; cp "$d"/patch.diff "$d"/demo.py "$d"/meta.json "$tmp"/
  line=$(bash tools/verify_seed.sh "$tmp" 2>&1 | tail -1)
  echo "$line"
  if echo "$line" | grep -q CONFIRMED; then /venv/bin/python tools/import_seed.py "$tmp" "$line"; fi
done
for d in /tmp/twinout6/T??/r?; do
  [ -f "$d/patch.diff" ] && [ -f "$d/demo.py" ] && [ -f "$d/meta.json" ] || continue
  t=$(basename $(dirname "$d")); id=$t-$(basename "$d"); [ -d "selftest/agent_twins/$id" ] && continue
  line=$(bash tools/verify_twin.sh "$d" 2>&1 | tail -1)
  echo "$line"
  if echo "$line" | grep -q CONFIRMED; then
    mkdir -p selftest/agent_twins/$id; cp "$d"/patch.diff "$d"/demo.py selftest/agent_twins/$id/
    /venv/bin/python - "$d" "$id" "$line" <<'PY'
import json,sys,subprocess
d,id_,line=sys.argv[1:4]
try: m=json.load(open(d+'/meta.json'))
except Exception: m={}
head=subprocess.run(['git','-C','/repo','rev-parse','--short','HEAD'],capture_output=True,text=True).stdout.strip()
m['id']=id_; m['author']='independent sub-agent given only the property texts and a scratch worktree'
m['confirmed_by_me']={'against_repo_commit':head,'what_i_ran':'tools/verify_twin.sh: scratch worktree of /repo HEAD; demo.py before and after the patch (identical output, exit 0), pytest (44 passed); worktree removed','result':line}
json.dump(m,open(f'/verif/selftest/agent_twins/{id_}/meta.json','w'),indent=1,ensure_ascii=False)
PY
  fi
done
rm -rf /tmp/imp8
