"""Behaviour-preserving rewrites of /repo ("twins").  A check that raises a VIOLATION on a twin is wrong (a false alarm);
an ANALYSIS-ERROR (exit 2) on a twin is an honest "cannot decide this shape" and is listed, not counted as a false alarm.
Each twin is a list of exact textual replacements (each `old` must occur exactly once in its file; BOTH = both runtime copies)."""

CTX = 'excel2pycl/src/context.py'
ABS = 'excel2pycl/src/utilities/abstract_excel_in_python_class.py'
BOTH = (CTX, ABS)

TWINS = [
    dict(name='T01-operator-table-dict', why='if-chain over operator classes rewritten as a dict lookup', edits=[
        ('excel2pycl/src/translators/operator_sub_token_translator.py',
         """        operator = token.value[0]
        if token.__class__ == NotEqOperatorToken:
            operator = '!='
        elif token.__class__ == EqOperatorToken:
            operator = '=='
        elif token.__class__ == AmpersandToken:
            operator = '+'
        elif token.__class__ == PercentToken:
            operator = '%'

        return operator
""",
         """        operator = token.value[0]
        if token.__class__ is NotEqOperatorToken:
            return '!='
        if token.__class__ is EqOperatorToken:
            return '=='
        if token.__class__ is AmpersandToken:
            return '+'
        if token.__class__ is PercentToken:
            return '%'
        return operator
""")]),
    dict(name='T02-weekday-lt-5', why='weekday() not in [5, 6]  ==  weekday() < 5', edits=[
        (BOTH, "if start.weekday() not in [5, 6] and start not in additional_days:",
               "if start.weekday() < 5 and start not in additional_days:")]),
    dict(name='T03-rename-local-one-copy', why='a local renamed in one runtime copy only (alpha-equivalence)', edits=[
        (ABS, """        result = 0
        range_, sum_range = self._flatten_list(range_), self._flatten_list(sum_range)
        for i in range(len(range_)):
            if i < len(sum_range) and criteria(range_[i]):
                result += sum_range[i] or 0

        return result
""", """        total = 0
        range_, sum_range = self._flatten_list(range_), self._flatten_list(sum_range)
        for i in range(len(range_)):
            if i < len(sum_range) and criteria(range_[i]):
                total += sum_range[i] or 0

        return total
""")]),
    dict(name='T04-guard-demorgan', why='early-return guard of _translate written with one negation', edits=[
        ('excel2pycl/src/utilities/parser.py',
         """        if not self._excel_file_path_has_been_changed and not self._entrypoint_cell_has_been_changed \\
                and not self._safety_check_has_been_changed:
            return self
""",
         """        if not (self._excel_file_path_has_been_changed or self._entrypoint_cell_has_been_changed
                or self._safety_check_has_been_changed):
            return self
""")]),
    dict(name='T05-override-store-update', why='dict merge written as an in-place update (same keys, new over old, order kept)', edits=[
        ('excel2pycl/src/utilities/executor.py',
         "        self._cells = {**self._cells, **{cell.uid: cell for cell in cells}}\n",
         "        self._cells.update({cell.uid: cell for cell in cells})\n")]),
    dict(name='T06-override-miss-try-except', why='membership test replaced by try/except KeyError', edits=[
        (BOTH, """        if cell_uid in self._arguments:
            return self._arguments[cell_uid]
        return method(self) if method else self.EmptyCell()
""", """        try:
            return self._arguments[cell_uid]
        except KeyError:
            pass
        return method(self) if method else self.EmptyCell()
""")]),
    dict(name='T07-left-slice-spelling', why='text[0:n] == text[:n]', edits=[
        (BOTH, "        return text[0:num_chars]\n", "        return text[:num_chars]\n")]),
    dict(name='T08-mid-two-slices', why='text[k-1:k-1+n] == text[k-1:][:n] for n >= 0', edits=[
        (BOTH, "        return text[start_num - 1:start_num + num_chars - 1]\n", "        return text[start_num - 1:][:num_chars]\n")]),
    dict(name='T09-datedif-M-rewritten', why='complete months written with a conditional expression', edits=[
        (BOTH, """                result = 12 * (date_end.year - date_start.year) + (date_end.month - date_start.month)
                if date_start.day > date_end.day:
                    return result - 1
                return result
""", """                result = (date_end.year - date_start.year) * 12 + date_end.month - date_start.month
                return result - 1 if date_end.day < date_start.day else result
""")]),
    dict(name='T10-round-keyword-arguments', why='quantize called with keyword arguments', edits=[
        (BOTH, """        return float(Decimal(format(float(number), '.15g')).quantize(Decimal(1).scaleb(-int(num_digits)), ROUND_HALF_UP,
                                                           DecimalContext(prec=400)))
""", """        return float(Decimal(format(float(number), '.15g')).quantize(Decimal(1).scaleb(-int(num_digits)),
                                                           rounding=ROUND_HALF_UP, context=DecimalContext(prec=400)))
""")]),
    dict(name='T11-criterion-alternation-order', why='alternatives of the criterion operator group reordered (longest still first)', edits=[
        ('excel2pycl/src/translators/lambda_token_translator.py', "(>=|<=|>|<|<>)", "(<>|>=|<=|>|<)")]),
    dict(name='T12-size-check-operands-swapped', why='len(a) != len(b) == len(b) != len(a)', edits=[
        (BOTH, "                if len(sum_range) != len(i):\n", "                if len(i) != len(sum_range):\n")]),
    dict(name='T13-search-casefold', why='casefold() on both sides instead of lower()', edits=[
        (BOTH, "result = within_text.lower().find(find_text.lower(), start_num - 1) + 1",
               "result = within_text.casefold().find(find_text.casefold(), start_num - 1) + 1")]),
    dict(name='T14-ifs-for-loop', why='while loop with stride 2 written as a for loop over range(0, n, 2)', edits=[
        (BOTH, """        index = 0
        while index < len(flatten_list):
            if flatten_list[index]:
                return flatten_list[index + 1]
            index += 2

        return '#N/A'
""", """        for index in range(0, len(flatten_list), 2):
            if flatten_list[index]:
                return flatten_list[index + 1]

        return '#N/A'
""")]),
    dict(name='T15-iferror-except-baseexception', why='bare except == except BaseException', edits=[
        (BOTH, """                return cell
        except:
            return when_error
""", """                return cell
        except BaseException:
            return when_error
""")]),
    dict(name='T16-count-blank-predicate-order', why='or-operands swapped in a side-effect-free predicate', edits=[
        (ABS, "if elem is None or elem == '']", "if elem == '' or elem is None]"),
        (CTX, 'if elem is None or elem == ""]', 'if elem == "" or elem is None]')]),
    dict(name='T17-numeric-filter-tuple', why='type(i) in (int, float)', edits=[
        (BOTH, "if type(i) in [float, int] or", "if type(i) in (int, float) or")]),
    dict(name='T18-get-sheet-isinstance', why='type(sheet) is str -> isinstance(sheet, str)', edits=[
        ('excel2pycl/src/utilities/executor.py', "        if type(sheet) is str:\n", "        if isinstance(sheet, str):\n")]),
    dict(name='T19-comments-and-blank-lines', why='comments and blank lines only (all line numbers move)', edits=[
        (ABS, "import re\nfrom abc import ABC\n", "# runtime base class\n\n\nimport re\nfrom abc import ABC\n"),
        ('excel2pycl/src/excel.py', "class Excel:\n", "# workbook model\n\n\nclass Excel:\n    # reads a workbook into nested lists\n"),
        ('excel2pycl/src/utilities/parser.py', "class Parser:\n", "# facade\n\n\nclass Parser:\n"),
        ('excel2pycl/src/translators/expression_token_translator.py', "class ExpressionTokenTranslator(AbstractTranslator):\n",
         "# prints expressions\n\n\nclass ExpressionTokenTranslator(AbstractTranslator):\n")]),
    dict(name='T20-eomonth-inline', why='days-in-month looked up inline in the constructor call', edits=[
        (BOTH, """        last_day_num = calendar.monthrange(result_date.year, result_date.month)[1]
        return datetime.datetime(result_date.year, result_date.month, last_day_num)
""", """        return datetime.datetime(result_date.year, result_date.month,
                                 calendar.monthrange(result_date.year, result_date.month)[1])
""")]),
    dict(name='T21-handle-cell-order', why='independent normalisation steps reordered (column before title)', edits=[
        ('excel2pycl/src/handle_cell.py', """    if isinstance(cell.title, str):
        if cell.title not in titles:
            raise E2PyclCellException(f'Unknown worksheet title `{cell.title}`')
        cell.title = titles[cell.title]

    if isinstance(cell.column, str):
        cell.column = column_index_from_string(cell.column) - 1
""", """    if isinstance(cell.column, str):
        cell.column = column_index_from_string(cell.column) - 1

    if isinstance(cell.title, str):
        if cell.title not in titles:
            raise E2PyclCellException(f'Unknown worksheet title `{cell.title}`')
        cell.title = titles[cell.title]
""")]),
    dict(name='T22-is-safe-len', why='if self._suspicious_cells  ==  if len(self._suspicious_cells) > 0', edits=[
        ('excel2pycl/src/excel.py', "        if self._suspicious_cells:\n            raise E2PyclSafetyException",
         "        if len(self._suspicious_cells) > 0:\n            raise E2PyclSafetyException")]),
    dict(name='T23-sizes-max-spelling', why='running maximum written with max()', edits=[
        ('excel2pycl/src/excel.py', """                if max_row_len < rows_data_len:
                    max_row_len = rows_data_len
""", """                max_row_len = max(max_row_len, rows_data_len)
""")]),
    dict(name='T24-network-days-augmented-step', why='start = start + timedelta(days=1)  ==  start += timedelta(days=1)', edits=[
        (BOTH, "            start = start + datetime.timedelta(days=1)\n", "            start += datetime.timedelta(days=1)\n")]),
    dict(name='T25-year-window-if', why='year window written with if/elif instead of match', edits=[
        (BOTH, """        match year:
            case year if 0 <= year <= 1899:
                year += 1900
            case year if year < 0 or year > 9999:
                return '#NUM!'
""", """        if 0 <= year <= 1899:
            year += 1900
        elif year < 0 or year > 9999:
            return '#NUM!'
""")]),
    dict(name='T26-matrix-comprehension', why='_get_matrix written as a nested comprehension (rows outer, columns inner)', edits=[
        ('excel2pycl/src/excel.py', """        result = []
        for row in range(first.row, second.row + 1):
            row_data = []
            for column in range(first.column, second.column + 1):
                row_data.append(self._fill_cell(Cell(title=first.title, column=column, row=row)))
            result.append(row_data)

        return result
""", """        return [[self._fill_cell(Cell(title=first.title, column=column, row=row))
                 for column in range(first.column, second.column + 1)]
                for row in range(first.row, second.row + 1)]
""")]),
    dict(name='T27-compare-helper-extracted', why='date lifting of _compare extracted into a nested function', edits=[
        (BOTH, """                    if isinstance(left_operand, datetime.date) and not isinstance(left_operand, datetime.datetime):
                        left_operand = datetime.datetime(left_operand.year, left_operand.month, left_operand.day)
                    
                    if isinstance(right_operand, datetime.date) and not isinstance(right_operand, datetime.datetime):
                        right_operand = datetime.datetime(right_operand.year, right_operand.month, right_operand.day)
                    
                    return self._by_operator(operator, left_operand, right_operand)
""", """                    if isinstance(left_operand, datetime.date) and not isinstance(left_operand, datetime.datetime):
                        left_operand = datetime.datetime(left_operand.year, left_operand.month, left_operand.day)
                    if isinstance(right_operand, datetime.date) and not isinstance(right_operand, datetime.datetime):
                        right_operand = datetime.datetime(right_operand.year, right_operand.month, right_operand.day)
                    return self._by_operator(operator, left_operand, right_operand)
""")]),
    dict(name='T28-write-translation-via-getter', why='write_translation writes get_translation() (same cached text)', edits=[
        ('excel2pycl/src/utilities/parser.py', """        self._translate()

        with open(file_path, 'w', encoding='utf-8') as f:
            f.write(self._translation)
""", """        text = self.get_translation()

        with open(file_path, 'w', encoding='utf-8') as f:
            f.write(text)
""")]),
    dict(name='T29-today-replace', why='midnight via datetime.now().replace(hour=0, ...)', edits=[
        (BOTH, "        return datetime.datetime.combine(datetime.date.today(), datetime.time(0, 0))\n",
               "        return datetime.datetime.now().replace(hour=0, minute=0, second=0, microsecond=0)\n")]),
    dict(name='T30-sum-generator', why='min over a named intermediate list', edits=[
        (BOTH, "        return min(self._only_numeric_list(flatten_list))\n",
               "        numbers = self._only_numeric_list(flatten_list)\n        return min(numbers)\n")]),
]
