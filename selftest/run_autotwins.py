#!/venv/bin/python
"""run_autotwins.py [--kinds rename,polarity,...] [--props C01,..] [--tests]: applies each whole-repository transformation of
autotwins.py to a scratch copy of /repo's working tree (under /dev/shm, removed afterwards), optionally runs the repository's
tests on it (44 collected + test/test.py), and runs the checks: every VIOLATION is a false alarm, every ANALYSIS-ERROR a shape
the rules cannot read."""
import argparse, os, pathlib, shutil, subprocess, sys, tempfile
from concurrent.futures import ThreadPoolExecutor
V = pathlib.Path(__file__).resolve().parent.parent
REPO = pathlib.Path(os.environ.get('VERIF_REPO', '/repo'))
sys.path.insert(0, str(V / 'selftest'))
from autotwins import TRANSFORMS
ap = argparse.ArgumentParser()
ap.add_argument('--kinds', default='')
ap.add_argument('--props', default='')
ap.add_argument('--tests', action='store_true')
ap.add_argument('-v', action='store_true')
a = ap.parse_args()
kinds = [k for k in a.kinds.split(',') if k] or list(TRANSFORMS)
props = [p for p in a.props.split(',') if p] or [f'C{i:02d}' for i in range(1, 21)]
base = pathlib.Path(tempfile.mkdtemp(prefix='autotwins.', dir='/dev/shm' if os.path.isdir('/dev/shm') else None))


def one(kind):
    wt = base / kind
    wt.mkdir()
    shutil.copytree(REPO / 'excel2pycl', wt / 'excel2pycl', ignore=shutil.ignore_patterns('__pycache__'))
    r = subprocess.run(['/venv/bin/python', str(V / 'selftest' / 'autotwins.py'), kind, str(wt)], capture_output=True, text=True)
    if r.returncode != 0:
        return kind, None, 'transformer failed: ' + r.stderr[-400:]
    tests = ''
    if a.tests:
        shutil.copytree(REPO / 'test', wt / 'test', ignore=shutil.ignore_patterns('__pycache__'))
        out = []
        for target in ([], ['test/test.py']):
            rr = subprocess.run(['/venv/bin/python', '-m', 'pytest', '-q', '-p', 'no:cacheprovider', '--timeout=900'] + target, cwd=wt,
                                env=dict(os.environ, PYTHONPATH=str(wt)), capture_output=True, text=True)
            out.append(rr.stdout.strip().splitlines()[-1] if rr.stdout.strip() else 'no output')
        tests = ' | '.join(out)
    env = dict(os.environ, VERIF_REPO=str(wt), VERIF_EVIDENCE_DIR=str(wt / 'ev'))
    res = {}
    for p in props:
        r = subprocess.run([str(V / 'check'), p], cwd=V, env=env, capture_output=True, text=True)
        diag = [l for l in r.stdout.splitlines() if l.startswith(('DIAGNOSTIC', 'ANALYSIS-ERROR', 'UNDECIDED'))]
        res[p] = (r.returncode, diag)
    shutil.rmtree(wt, ignore_errors=True)
    return kind, res, tests


try:
    with ThreadPoolExecutor(max_workers=8) as ex:
        results = list(ex.map(one, kinds))
finally:
    shutil.rmtree(base, ignore_errors=True)
bad = 0
for kind, res, info in results:
    if res is None:
        print(f'{kind}: NOT-APPLICABLE {info}')
        bad += 1
        continue
    fired = [p for p, (rc, _) in res.items() if rc == 1]
    errs = [p for p, (rc, _) in res.items() if rc == 2]
    bad += bool(fired)
    print(f'auto/{kind}: {"FALSE-ALARM" if fired else ("inconclusive" if errs else "silent")} violations={fired} analysis_errors={errs} '
          f'{("tests: " + info) if info else ""}')
    for p, (rc, diag) in res.items():
        if rc or a.v:
            for l in diag[:4]:
                print(f'      {p}: {l[:300]}')
sys.exit(1 if bad else 0)
