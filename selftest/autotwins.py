#!/venv/bin/python
"""autotwins.py <transformation> <tree dir>: rewrites EVERY function of a copy of the repository (the runtime template inside
context.py included) with one behaviour-preserving transformation, in place.  Used by run_twins.py --auto to stress every rule
against spelling changes it must not depend on.  The transformations are semantics-preserving by construction:

  rename     every function-local variable (not parameters, not names declared global/nonlocal) gets the suffix _rn
  polarity   `if c: A else: B`  ->  `if not c: B else: A`   (and conditional expressions likewise)
  guards     a trailing `if c: BODY` (no else) of a function body becomes `if not c: return` + BODY  (functions without a
             value-returning fall-through only: the if is the last statement, so falling through returned None anyway)
  ifexp      `return A if c else B`  ->  `if c: return A` / `return B`
  flip       comparisons between side-effect-free operands are mirrored: a < b -> b > a, a == b -> b == a
  temps      `return <call or operator expression>`  ->  `result_tmp = <expression>; return result_tmp`
  loops      `L = []` + `for x in xs: L.append(e)`  ->  `L = [e for x in xs]`   (body is exactly that append, L not read in e)
  format     nothing but the re-printing that all of the above imply (ast.unparse of every file)
"""
import ast
import copy
import pathlib
import re
import sys

HOLE = '__HOLE_{}__'


def _locals(fn):
    params = {a.arg for a in fn.args.posonlyargs + fn.args.args + fn.args.kwonlyargs}
    if fn.args.vararg:
        params.add(fn.args.vararg.arg)
    if fn.args.kwarg:
        params.add(fn.args.kwarg.arg)
    declared = set()
    stored = set()

    class V(ast.NodeVisitor):
        def visit_FunctionDef(self, n):
            if n is fn:
                self.generic_visit(n)
            else:
                stored.add(n.name)          # nested function name is a local; its body has its own scope

        visit_AsyncFunctionDef = visit_FunctionDef

        def visit_Lambda(self, n):
            pass

        def visit_ClassDef(self, n):
            stored.add(n.name)

        def visit_Global(self, n):
            declared.update(n.names)

        def visit_Nonlocal(self, n):
            declared.update(n.names)

        def visit_Name(self, n):
            if isinstance(n.ctx, (ast.Store, ast.Del)):
                stored.add(n.id)

        def visit_ListComp(self, n):
            pass                              # comprehension variables live in their own scope

        visit_SetComp = visit_DictComp = visit_GeneratorExp = visit_ListComp

        def visit_ExceptHandler(self, n):
            if n.name:
                stored.add(n.name)
            self.generic_visit(n)

        def visit_MatchAs(self, n):
            if n.name:
                stored.add(n.name)
            self.generic_visit(n)

        def visit_Import(self, n):
            pass

        def visit_ImportFrom(self, n):
            pass
    V().visit(fn)
    return {x for x in stored - params - declared if not x.startswith('__')}


class Rename(ast.NodeTransformer):
    """renames the locals of each function (only names whose every binding is inside the function's own scope; names read by
    nested functions / lambdas / comprehensions are renamed there too because those scopes see the enclosing one)"""

    def visit_FunctionDef(self, node):
        # inner functions first (they may close over our locals: handled by renaming free reads below)
        names = _locals(node)
        # do not rename locals that a nested scope re-binds under the same name (keep it simple: skip them)
        for sub in ast.walk(node):
            if sub is not node and isinstance(sub, (ast.FunctionDef, ast.Lambda)):
                a = sub.args
                shadow = {x.arg for x in a.posonlyargs + a.args + a.kwonlyargs}
                if isinstance(sub, ast.FunctionDef):
                    shadow |= _locals(sub)
                names -= shadow
            if sub is not node and isinstance(sub, (ast.ListComp, ast.SetComp, ast.DictComp, ast.GeneratorExp)):
                for g in sub.generators:
                    names -= {x.id for x in ast.walk(g.target) if isinstance(x, ast.Name)}
        mapping = {n: n + '_rn' for n in names}

        class R(ast.NodeTransformer):
            def visit_Name(self, n):
                if n.id in mapping:
                    n.id = mapping[n.id]
                return n

            def visit_FunctionDef(self, n):
                if n is not node and n.name in mapping:
                    n.name = mapping[n.name]
                self.generic_visit(n)
                return n

            def visit_ExceptHandler(self, n):
                if n.name in mapping:
                    n.name = mapping[n.name]
                self.generic_visit(n)
                return n

            def visit_MatchAs(self, n):
                if n.name in mapping:
                    n.name = mapping[n.name]
                self.generic_visit(n)
                return n

            def visit_ClassDef(self, n):
                if n.name in mapping:
                    n.name = mapping[n.name]
                return n                      # (the class body is left alone)
        R().visit(node)
        # now the nested functions' own locals
        for st in node.body:
            self.generic_visit_inner(st)
        return node

    def generic_visit_inner(self, st):
        for sub in ast.iter_child_nodes(st):
            if isinstance(sub, ast.FunctionDef):
                self.visit_FunctionDef(sub)
            else:
                self.generic_visit_inner(sub)


class Polarity(ast.NodeTransformer):
    def visit_If(self, node):
        self.generic_visit(node)
        if node.orelse and not (len(node.orelse) == 1 and isinstance(node.orelse[0], ast.If)):
            return ast.copy_location(ast.If(test=ast.UnaryOp(op=ast.Not(), operand=node.test), body=node.orelse, orelse=node.body), node)
        return node

    def visit_IfExp(self, node):
        self.generic_visit(node)
        return ast.copy_location(ast.IfExp(test=ast.UnaryOp(op=ast.Not(), operand=node.test), body=node.orelse, orelse=node.body), node)


class Guards(ast.NodeTransformer):
    def visit_FunctionDef(self, node):
        self.generic_visit(node)
        if any(isinstance(n, (ast.Yield, ast.YieldFrom)) for n in ast.walk(node)):
            return node
        last = node.body[-1]
        if isinstance(last, ast.If) and not last.orelse and len(node.body) >= 1:
            guard = ast.copy_location(ast.If(test=ast.UnaryOp(op=ast.Not(), operand=last.test),
                                             body=[ast.Return(value=None)], orelse=[]), last)
            node.body = node.body[:-1] + [guard] + last.body
        return node


class IfExpReturn(ast.NodeTransformer):
    def _block(self, stmts):
        out = []
        for st in stmts:
            if isinstance(st, ast.Return) and isinstance(st.value, ast.IfExp):
                e = st.value
                out.append(ast.copy_location(ast.If(test=e.test, body=[ast.Return(value=e.body)], orelse=[]), st))
                out.append(ast.copy_location(ast.Return(value=e.orelse), st))
            else:
                out.append(st)
        return out

    def generic_visit(self, node):
        super().generic_visit(node)
        for fld in ('body', 'orelse', 'finalbody'):
            lst = getattr(node, fld, None)
            if isinstance(lst, list) and lst and isinstance(lst[0], ast.stmt):
                setattr(node, fld, self._block(lst))
        return node


def _pure(e):
    return all(isinstance(n, (ast.Name, ast.Constant, ast.Attribute, ast.Load, ast.Subscript, ast.UnaryOp, ast.USub, ast.UAdd,
                              ast.Tuple)) for n in ast.walk(e))


class Flip(ast.NodeTransformer):
    M = {ast.Lt: ast.Gt, ast.Gt: ast.Lt, ast.LtE: ast.GtE, ast.GtE: ast.LtE, ast.Eq: ast.Eq, ast.NotEq: ast.NotEq}

    def visit_Compare(self, node):
        self.generic_visit(node)
        if len(node.ops) == 1 and type(node.ops[0]) in self.M and _pure(node.left) and _pure(node.comparators[0]) and \
                isinstance(node.left, (ast.Name, ast.Constant)) and isinstance(node.comparators[0], (ast.Name, ast.Constant)):
            # only plain names / constants: the reflected rich comparison of arbitrary objects is not always the mirror image
            if isinstance(node.left, ast.Constant) or isinstance(node.comparators[0], ast.Constant):
                return ast.copy_location(ast.Compare(left=node.comparators[0], ops=[self.M[type(node.ops[0])]()], comparators=[node.left]),
                                         node)
        return node


class Temps(ast.NodeTransformer):
    def generic_visit(self, node):
        super().generic_visit(node)
        for fld in ('body', 'orelse', 'finalbody'):
            lst = getattr(node, fld, None)
            if isinstance(lst, list) and lst and isinstance(lst[0], ast.stmt):
                out = []
                for st in lst:
                    if isinstance(st, ast.Return) and isinstance(st.value, (ast.Call, ast.BinOp, ast.BoolOp, ast.Compare, ast.JoinedStr)):
                        out.append(ast.copy_location(ast.Assign(targets=[ast.Name(id='result_tmp', ctx=ast.Store())], value=st.value), st))
                        out.append(ast.copy_location(ast.Return(value=ast.Name(id='result_tmp', ctx=ast.Load())), st))
                    else:
                        out.append(st)
                setattr(node, fld, out)
        return node


class Loops(ast.NodeTransformer):
    def generic_visit(self, node):
        super().generic_visit(node)
        for fld in ('body', 'orelse', 'finalbody'):
            lst = getattr(node, fld, None)
            if isinstance(lst, list) and lst and isinstance(lst[0], ast.stmt):
                out = []
                i = 0
                while i < len(lst):
                    st = lst[i]
                    nxt = lst[i + 1] if i + 1 < len(lst) else None
                    if isinstance(st, ast.Assign) and len(st.targets) == 1 and isinstance(st.targets[0], ast.Name) and \
                            isinstance(st.value, ast.List) and not st.value.elts and isinstance(nxt, ast.For) and not nxt.orelse and \
                            len(nxt.body) == 1 and isinstance(nxt.body[0], ast.Expr) and isinstance(nxt.body[0].value, ast.Call) and \
                            isinstance(nxt.body[0].value.func, ast.Attribute) and nxt.body[0].value.func.attr == 'append' and \
                            isinstance(nxt.body[0].value.func.value, ast.Name) and nxt.body[0].value.func.value.id == st.targets[0].id \
                            and len(nxt.body[0].value.args) == 1:
                        L = st.targets[0].id
                        elt = nxt.body[0].value.args[0]
                        used = {n.id for n in ast.walk(elt) if isinstance(n, ast.Name)} | {n.id for n in ast.walk(nxt.iter) if isinstance(n, ast.Name)}
                        tnames = {n.id for n in ast.walk(nxt.target) if isinstance(n, ast.Name)}
                        later = {n.id for s2 in lst[i + 2:] for n in ast.walk(s2) if isinstance(n, ast.Name)}
                        if L not in used and not (tnames & later) and not any(isinstance(n, (ast.Yield, ast.Await, ast.NamedExpr)) for n in ast.walk(elt)):
                            comp = ast.ListComp(elt=elt, generators=[ast.comprehension(target=nxt.target, iter=nxt.iter, ifs=[], is_async=0)])
                            out.append(ast.copy_location(ast.Assign(targets=[ast.Name(id=L, ctx=ast.Store())], value=comp), st))
                            i += 2
                            continue
                    out.append(st)
                    i += 1
                setattr(node, fld, out)
        return node


TRANSFORMS = {'rename': Rename, 'polarity': Polarity, 'guards': Guards, 'ifexp': IfExpReturn, 'flip': Flip, 'temps': Temps,
              'loops': Loops, 'format': None}


def transform_tree(tree, kind):
    T = TRANSFORMS[kind]
    if T is not None:
        tree = T().visit(tree)
    ast.fix_missing_locations(tree)
    return tree


def transform_template(text: str, kind: str) -> str:
    holes = sorted(set(re.findall(r'(?<!\{)\{(\w+)\}(?!\})', text)))
    inst = text.format(**{h: HOLE.format(h) for h in holes})
    tree = transform_tree(ast.parse(inst), kind)
    out = ast.unparse(tree) + '\n'
    out = out.replace('{', '{{').replace('}', '}}')
    for h in holes:
        out = out.replace(HOLE.format(h), '{' + h + '}')
    return out


def main(kind, root):
    root = pathlib.Path(root)
    for p in sorted((root / 'excel2pycl').rglob('*.py')):
        src = p.read_text(encoding='utf-8')
        tree = ast.parse(src)
        if p.name == 'context.py':
            # the class template is a string constant returned by a property: transform its text as code
            for n in ast.walk(tree):
                if isinstance(n, ast.Constant) and isinstance(n.value, str) and 'class ExcelInPython' in n.value and len(n.value) > 5000:
                    n.value = transform_template(n.value, kind)
        tree = transform_tree(tree, kind)
        p.write_text(ast.unparse(tree) + '\n', encoding='utf-8')


if __name__ == '__main__':
    main(sys.argv[1], sys.argv[2])
