"""Equivalence demo for r3 (_match in the importable base class and in the emitted runtime).

Calls _match / _xmatch of a trivial subclass of AbstractExcelInPython and of a freshly generated
class with the same (large) set of arguments, checks that the two agree, and prints every
result (value with type, or exception class and message).  Also evaluates MATCH / XMATCH
formulas of a workbook end to end.  Run: PYTHONPATH=<tree> /venv/bin/python demo.py
"""
import datetime
import hashlib
import inspect
import itertools
import os
import shutil
import tempfile
import warnings

warnings.simplefilter('ignore')

from openpyxl import Workbook

from excel2pycl import Parser, Executor, Cell
from excel2pycl.src.object_loader import load_module
from excel2pycl.src.utilities.abstract_excel_in_python_class import AbstractExcelInPython

LINES = []


def out(*parts):
    LINES.append(' '.join(str(p) for p in parts))


def show(value):
    if isinstance(value, float):
        return 'float:' + repr(value)
    if isinstance(value, datetime.datetime):
        return 'dt:' + value.isoformat()
    if isinstance(value, (list, tuple)):
        return type(value).__name__ + ':[' + ', '.join(show(v) for v in value) + ']'
    return type(value).__name__ + ':' + repr(value)


def attempt(fn):
    try:
        return 'OK ' + show(fn())
    except BaseException as exc:  # noqa
        return 'EXC ' + type(exc).__name__ + ' ' + str(exc)


class Hand(AbstractExcelInPython):
    pass


EMPTY = object()   # placeholder replaced by the EmptyCell of the instance under test


class Word(str):
    pass


class NoLower:
    def __eq__(self, other):
        return True

    def __le__(self, other):
        return True

    def __ge__(self, other):
        return False

    __hash__ = None

    def __repr__(self):
        return 'NoLower()'


def materialise(obj, instance):
    if obj is EMPTY:
        return instance.EmptyCell()
    if isinstance(obj, list):
        return [materialise(o, instance) for o in obj]
    if isinstance(obj, tuple):
        return tuple(materialise(o, instance) for o in obj)
    return obj


def column(*keys):
    return [[k] for k in keys]


D = datetime.datetime

ARRAYS = [
    [],
    column(1),
    column(1, 2, 3, 4, 5),
    column(5, 4, 3, 2, 1),
    column(1, 3, 3, 3, 7),
    column(1.0, 2.5, 3, 4.5),
    column(10, 20, EMPTY, 30, 'x', 40),
    column(EMPTY, EMPTY),
    column('apple', 'Banana', 'cherry', 'DATE'),
    column('date', 'Cherry', 'banana', 'APPLE'),
    column('b', 1, 'B', 2, 'c', 3.5, True, None),
    column(True, False, True),
    column(None, None),
    column(D(2020, 1, 1), D(2021, 1, 1), D(2022, 1, 1)),
    column(3, 'three', 3.0, '3', Word('Three')),
    column(1, 5, 2, 9, 0),
    column(-1, -0.0, 0, 1e308, float('inf')),
    column(float('nan'), 1, 2),
    [[1, 'a'], [2, 'b'], [3, 'c']],
    [[1], [], [3]],
    [(2,), (4,), (6,)],
    ['ab', 'cd', 'ef'],
    column(NoLower(), 1, 2),
    column([1], [2]),
    None,
    5,
]

LOOKUPS = [0, 1, 2, 3, 3.0, 2.5, 4.4, 5, 6, -1, 100, 1e308, float('inf'), float('nan'), True, False,
           'apple', 'APPLE', 'banana', 'B', 'c', 'date', 'zzz', '', '3', 'three', Word('three'), Word('B'),
           None, EMPTY, D(2021, 1, 1), D(2021, 6, 1), D(2019, 1, 1), [1], (2,), NoLower()]

MATCH_TYPES = [0, 1, -1, 2, -7, 0.0, 0.5, -0.5, True, False, None, 'a', '1', float('nan'), EMPTY, [0]]


def helper_runs(instances):
    count = 0
    for array_n, array in enumerate(ARRAYS):
        for lookup, match_type in itertools.product(LOOKUPS, MATCH_TYPES):
            results = []
            for instance in instances:
                a, l, m = (materialise(x, instance) for x in (array, lookup, match_type))
                results.append(attempt(lambda: instance._match(l, a, m)))
            assert len(set(results)) == 1, (array, lookup, match_type, results)
            out('M', array_n, show(lookup) if lookup is not EMPTY else 'EMPTY',
                show(match_type) if match_type is not EMPTY else 'EMPTY', results[0])
            count += 1
        for lookup in LOOKUPS:
            results = []
            for instance in instances:
                a, l = (materialise(x, instance) for x in (array, lookup))
                results.append(attempt(lambda: instance._match(l, a)))
                results.append(attempt(lambda: instance._match(lookup_array=a, lookup_value=l, match_type=1)))
            assert results[:2] == results[2:], (array, lookup, results)
            out('Mdefault', array_n, show(lookup) if lookup is not EMPTY else 'EMPTY', results[0], results[1])
            for match_mode, search_mode in itertools.product([0, 1, -1, 2, None], [1, -1, 2, -2, 0, None]):
                results = []
                for instance in instances:
                    a, l = (materialise(x, instance) for x in (array, lookup))
                    results.append(attempt(lambda: instance._xmatch(l, a, match_mode, search_mode)))
                assert len(set(results)) == 1, (array, lookup, match_mode, search_mode, results)
                out('X', array_n, show(lookup) if lookup is not EMPTY else 'EMPTY', match_mode, search_mode, results[0])
                count += 1
    out('helper-cases', count)

    # the rows are consumed lazily and in order, the scan stops at the first row that ends it
    class Row(list):
        log = []

        def __getitem__(self, item):
            Row.log.append((self.tag, item))
            return list.__getitem__(self, item)

    def rows(*keys):
        result = []
        for n, k in enumerate(keys):
            r = Row([k])
            r.tag = n
            result.append(r)
        return result

    for instance in instances:
        for keys, lookup, match_type in (((1, 2, 3, 4), 2, 0), ((1, 2, 3, 4), 2, 1), ((4, 3, 2, 1), 3, -1),
                                         (('a', 1, 'b', 2), 'B', 0), (('a', 1, 'b', 2), 1, 1), ((1, 2), 9, float('nan'))):
            Row.log = []
            res = attempt(lambda: instance._match(lookup, rows(*keys), match_type))
            out('lazy', type(instance).__name__, keys, lookup, match_type, res, 'rows-touched', sorted(set(t for t, _ in Row.log)))

        def gen():
            for k in (1, 2, 3, 1, 5):
                seen.append(k)
                yield [k]
        for match_type in (0, 1, -1):
            seen = []
            res = attempt(lambda: instance._match(2, gen(), match_type))
            out('generator', type(instance).__name__, match_type, res, seen)


def build_workbook(path):
    wb = Workbook()
    ws = wb.active
    ws.title = 'Main'
    rows = [
        [10, 'apple', 9, '=MATCH(30,A1:A6,0)', '=MATCH(35,A1:A6,1)', '=MATCH(5,C1:C6,-1)'],
        [20, 'Banana', 7, '=MATCH("banana",B1:B6,0)', '=MATCH("c",B1:B6,1)', '=MATCH("zz",B1:B6,0)'],
        [30, 'cherry', 5, '=MATCH(30,A1:A6)', '=MATCH(5,A1:A6,1)', '=MATCH(100,C1:C6,-1)'],
        [40, 'date', 3, '=XMATCH(30,A1:A6,0,1)', '=XMATCH(35,A1:A6,-1,2)', '=XMATCH(35,A1:A6,1,2)'],
        [50, None, 1, '=XMATCH(5,C1:C6,0,-1)', '=XMATCH(4,C1:C6,1,-2)', '=XMATCH(25,A1:A6,-1,1)'],
        [None, 'fig', None, '=MATCH(20.0,A1:A6,0)', '=MATCH(G1,A1:A6,1)', '=MATCH(G2,B1:B6,0)'],
    ]
    for r in rows:
        ws.append(r)
    ws['G1'] = 45.5
    ws['G2'] = 'FIG'
    wb.save(path)


def main():
    tmp = tempfile.mkdtemp(prefix='t48r3_')
    try:
        xlsx = os.path.join(tmp, 'book.xlsx')
        py = os.path.join(tmp, 'book.py')
        build_workbook(xlsx)
        Parser().set_excel_file_path(xlsx).write_translation(py)
        generated = load_module(py).ExcelInPython()
        hand = Hand()

        def helpers(cls):
            return sorted(n for n, v in vars(cls).items() if n.startswith('_') and not n.startswith('__')
                          and not n[1:2].isdigit() and n != '_abc_impl')

        out('helpers-equal', helpers(AbstractExcelInPython) == helpers(type(generated)), len(helpers(type(generated))))
        out('match-signature', str(inspect.signature(hand._match)), str(inspect.signature(generated._match)))
        helper_runs([hand, generated])

        ex = Executor().set_executed_class(class_file=py)
        for r in range(6):
            for c in range(3, 6):
                out('cell', c, r, attempt(lambda: ex.get_cell(Cell(0, c, r)).value))
        ex.set_cells([Cell('Main', 'G', '1', value=10), Cell('Main', 'G', '2', value='nope'), Cell('Main', 'A', '3', value=31)])
        for r in range(6):
            for c in range(3, 6):
                out('cell-ov', c, r, attempt(lambda: ex.get_cell(Cell(0, c, r)).value))
    finally:
        shutil.rmtree(tmp, ignore_errors=True)

    text = '\n'.join(LINES)
    shown = [l for l in LINES if not l.startswith(('M ', 'X ', 'Mdefault '))]
    print('\n'.join(shown))
    for prefix in ('M ', 'X ', 'Mdefault '):
        part = [l for l in LINES if l.startswith(prefix)]
        kinds = {}
        for l in part:
            key = ' '.join(l.split(' ')[-1:]) if ' OK ' in l else 'EXC ' + l.split(' EXC ')[1].split(' ')[0]
            kinds[key] = kinds.get(key, 0) + 1
        print(prefix.strip(), len(part), hashlib.sha256('\n'.join(part).encode()).hexdigest(), sorted(kinds.items()))
    print('LINES', len(LINES))
    print('DIGEST', hashlib.sha256(text.encode()).hexdigest())


if __name__ == '__main__':
    main()
