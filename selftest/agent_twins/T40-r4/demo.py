"""Equivalence demonstration for r4 (MATCH runtime helper `_match`, both runtime copies; XMATCH goes through it).

Run as: PYTHONPATH=<tree> /venv/bin/python demo.py
Prints a deterministic digest of every result (values, exception class names, emitted call sites);
the output must be identical on the unchanged and the refactored tree.
"""
import datetime
import decimal
import hashlib
import itertools
import os
import shutil
import sys
import tempfile

import openpyxl

from excel2pycl import Parser, Executor, Cell
from excel2pycl.src.object_loader import load_module
from excel2pycl.src.utilities.abstract_excel_in_python_class import AbstractExcelInPython


class HandWritten(AbstractExcelInPython):
    pass


def show(value):
    return '%s:%r' % (type(value).__name__, value)


def call(function, *args):
    try:
        return show(function(*args))
    except BaseException as error:  # the class name of whatever is raised is part of the digest
        return 'raises ' + type(error).__name__


LINES = []


def emit(line):
    LINES.append(line)
    print(line)


D = datetime.datetime

COLUMN_A = [1, 3, 5, 5.0, 7, 9.5, 12]                       # ascending numbers
COLUMN_B = ['apple', 'Banana', 'cherry', 'CHERRY', 'fig']     # ascending text, mixed case
COLUMN_C = [50, 40, 30.5, 30, 10, 5]                         # descending numbers
COLUMN_D = [3, 'x', None, 2.5, 'X', D(2024, 1, 1), True, 4]  # mixed kinds with a blank
FORMULAS = [
    '=MATCH(5,A1:A7,0)', '=MATCH(5,A1:A7,1)', '=MATCH(5,A1:A7)', '=MATCH(6,A1:A7,1)', '=MATCH(0,A1:A7,1)',
    '=MATCH(100,A1:A7,1)', '=MATCH(9.5,A1:A7,0)', '=MATCH(4,A1:A7,0)', '=MATCH(5,A1:A7,-1)',
    '=MATCH("CHERRY",B1:B5,0)', '=MATCH("banana",B1:B5,0)', '=MATCH("c",B1:B5,1)', '=MATCH("zzz",B1:B5,1)',
    '=MATCH("a",B1:B5,1)', '=MATCH("kiwi",B1:B5,0)', '=MATCH(30,C1:C6,-1)', '=MATCH(35,C1:C6,-1)',
    '=MATCH(60,C1:C6,-1)', '=MATCH(1,C1:C6,-1)', '=MATCH(30,C1:C6,0)', '=MATCH("x",D1:D8,0)', '=MATCH(2.5,D1:D8,0)',
    '=MATCH(4,D1:D8,0)', '=MATCH(3,D1:D8,1)', '=MATCH(F1,A1:A7,0)', '=MATCH(F2,B1:B5,0)', '=MATCH(F3,A1:A7,1)',
    '=MATCH(5,B1:B5,0)', '=MATCH("apple",A1:A7,0)', '=XMATCH(5,A1:A7)', '=XMATCH(5,A1:A7,0,-1)',
    '=XMATCH(6,A1:A7,-1)', '=XMATCH(6,A1:A7,1)', '=XMATCH("fig",B1:B5,0,1)', '=XMATCH(30,C1:C6,0,-1)',
    '=INDEX(B1:B5,MATCH(7,A1:A7,0)-2)', '=MATCH(5,A1:A7,0)+MATCH(5,A1:A7,1)', '=MATCH(5,A1:A7,F4)',
]


def build_workbook(path):
    book = openpyxl.Workbook()
    sheet = book.active
    sheet.title = 'Lookup'
    for column_index, values in enumerate((COLUMN_A, COLUMN_B, COLUMN_C, COLUMN_D), start=1):
        for row_index, value in enumerate(values, start=1):
            if value is not None:
                sheet.cell(row=row_index, column=column_index, value=value)
    for row_index, value in enumerate((7, 'FIG', 8, 0), start=1):
        sheet.cell(row=row_index, column=6, value=value)
    for row_index, formula in enumerate(FORMULAS, start=1):
        sheet.cell(row=row_index, column=8, value=formula)
    book.save(path)


class Row:
    """A row object that records how often its first item is read."""

    def __init__(self, item, log):
        self.item, self.log = item, log

    def __getitem__(self, index):
        if index != 0:
            raise IndexError(index)
        self.log.append('read')
        return self.item


def main():
    workdir = tempfile.mkdtemp(prefix='r4_demo_')
    try:
        xlsx = os.path.join(workdir, 'lookup.xlsx')
        out_py = os.path.join(workdir, 'lookup_class.py')
        build_workbook(xlsx)
        parser = Parser().set_excel_file_path(xlsx)
        translation = parser.get_translation()
        parser.write_translation(out_py)

        emit('== emitted call sites ==')
        sites = sorted(line.strip() for line in translation.split('\n')
                       if line.lstrip().startswith('return') and ('_match(' in line or '_xmatch(' in line))
        emit('%d call sites, sha256 %s' % (len(sites), hashlib.sha256('\n'.join(sites).encode()).hexdigest()))
        for site in sites[:8]:
            emit(site)

        emit('== workbook through the Executor ==')
        executor = Executor().set_executed_class(class_file=out_py)
        for row_index, formula in enumerate(FORMULAS):
            emit('%-40s -> %s' % (formula, call(lambda: executor.get_cell(Cell(0, 7, row_index)).value)))

        emit('== overrides through the Executor ==')
        for lookup, kind in [(1, 0), (12, 0), (5.0, 0), (5, 1), (5, -1), (5, 2), (5, -7), (5, 0.0), (5, True), (5, False),
                             (5, None), (5, '1'), ('5', 0), (None, 0), (None, 1), (2, 1), (D(2024, 1, 1), 0)]:
            executor.set_cells([Cell('Lookup', 'F', '1', value=lookup), Cell('Lookup', 'F', '3', value=lookup),
                                Cell('Lookup', 'F', '4', value=kind)])
            emit('F1=F3=%r F4=%r -> %s | %s | %s' % (
                lookup, kind, call(lambda: executor.get_cell(Cell('Lookup', 'H', '25')).value),
                call(lambda: executor.get_cell(Cell('Lookup', 'H', '27')).value),
                call(lambda: executor.get_cell(Cell('Lookup', 'H', '38')).value)))
        executor.set_cells([Cell('Lookup', 'A', '3', value='five'), Cell('Lookup', 'A', '4', value=None),
                            Cell('Lookup', 'F', '1', value=7), Cell('Lookup', 'F', '4', value=1)])
        for address in ('1', '2', '4', '9', '25', '30', '31', '38'):
            emit('A3 text, A4 blank: H%s -> %s' % (address, call(lambda: executor.get_cell(Cell('Lookup', 'H', address)).value)))

        emit('== direct calls, both runtime copies ==')
        generated = load_module(out_py).ExcelInPython()
        hand_written = HandWritten()
        per_copy = {}
        for label, instance in (('base', hand_written), ('generated', generated)):
            empty = instance.EmptyCell()

            def column(values):
                return [[value] for value in values]

            arrays = [
                column(COLUMN_A), column(COLUMN_B), column(COLUMN_C), column(COLUMN_D), [],
                column([empty, empty, 2, empty, 4]), column([1, 'a', 2, 'B', 3.5, None, 'c', True, 4]),
                column(['b', 'B', 'a', 'A']), column([D(2023, 1, 1), D(2024, 1, 1), D(2025, 1, 1)]),
                column([0, 0.0, -0.0, False, empty]), column([3, 2, 2.0, 1]), column([float('nan'), 1.0, 2.0]),
                column(['', ' ', 'a']), [[1, 'ignored'], [2, 'ignored'], [3, 'ignored']], column([None, None]),
                column([decimal.Decimal(1), decimal.Decimal(2)]), column([True, False, True]),
                column([[1], [2]]), [(1,), (2,), (3,)],
            ]
            lookups = [0, 1, 2, 2.0, 2.5, 3, 5, 30, 100, -1, 0.0, True, False, None, empty, '', 'a', 'A', 'b', 'B',
                       'cherry', 'Cherry', 'zzz', ' ', D(2024, 1, 1), D(2024, 6, 1), datetime.date(2024, 1, 1),
                       float('nan'), float('inf'), decimal.Decimal(2), [1], (1,), b'a']
            match_types = [0, 1, -1, 2, -2, 0.0, 0.5, -0.5, True, False, float('nan'), float('inf'),
                           decimal.Decimal(0), decimal.Decimal(-1), None, '0', '1', [0]]
            digest = hashlib.sha256()
            results = []
            for match_type in match_types:
                for lookup, array in itertools.product(lookups, arrays):
                    result = call(instance._match, lookup, array, match_type)
                    results.append(result)
                    digest.update(('%r %r %r -> %s\n' % (lookup, array, match_type, result)).encode())
            for lookup, array in itertools.product(lookups, arrays):
                result = call(instance._match, lookup, array)  # default match type
                results.append(result)
                digest.update(('%r %r -> %s\n' % (lookup, array, result)).encode())
                for match_mode, search_mode in itertools.product((0, -1, 1, 2), (1, -1, 2, -2, 0, None)):
                    result = call(instance._xmatch, lookup, array, match_mode, search_mode)
                    results.append(result)
                    digest.update(('x %r %r %r %r -> %s\n' % (lookup, array, match_mode, search_mode, result)).encode())
            per_copy[label] = results
            emit('%s: %d calls, sha256 %s' % (label, len(results), digest.hexdigest()))

            emit('-- %s: boundary samples --' % label)
            samples = [
                (5, column(COLUMN_A), 0), (5, column(COLUMN_A), 1), (5, column(COLUMN_A), -1), (5.0, column(COLUMN_A), 0),
                (6, column(COLUMN_A), 1), (0, column(COLUMN_A), 1), (13, column(COLUMN_A), 1), (13, column(COLUMN_A), -1),
                ('CHERRY', column(COLUMN_B), 0), ('cherry', column(COLUMN_B), 1), ('a', column(COLUMN_B), 1),
                ('zzz', column(COLUMN_B), -1), (30, column(COLUMN_C), -1), (31, column(COLUMN_C), -1),
                (60, column(COLUMN_C), -1), ('x', column(COLUMN_D), 0), ('X', column(COLUMN_D), 1), (True, column(COLUMN_D), 0),
                (empty, column([empty, 0, 1]), 0), (empty, column([empty, 0, 1]), 1), (0, column([empty, 0]), 0),
                (1, [], 0), (1, [], 1), (1, [], -1), (1, [], float('nan')), (1, None, float('nan')), (1, None, 0),
                (1, 5, 1), (1, [[]], 0), (1, [5], 0), (1, [[1]], None), (1, [[1]], 'x'), (1, [[1]], [0]),
                (object(), column(['a']), 0), (None, column([None, 1]), 0), (None, column([None, None]), 1),
                ([1], column([[1], [2]]), 0), ([1], column([[1], [0]]), 1), (float('nan'), column([1.0, 2.0]), 1),
                (2, column([1, 'a', 2, 'b', 3]), 1), ('b', column([1, 'a', 2, 'b', 3]), 1), (2, column([1, 3, 2]), 1),
                (2, column([3, 1, 2]), -1),
            ]
            for lookup, array, match_type in samples:
                text = '%r' % (lookup,) if not type(lookup) is object else '<object>'
                emit('%s _match(%s, %r, %r) -> %s' % (label, text, array, match_type,
                                                      call(instance._match, lookup, array, match_type)))

            emit('-- %s: rows are read lazily, in order and equally often --' % label)
            for match_type in (0, 1, -1, float('nan')):
                for lookup in (2, 9, 0):
                    log = []
                    rows = [Row(item, log) for item in (1, 2, 3, 2, 1)]
                    result = call(instance._match, lookup, rows, match_type)
                    emit('%s lookup %r type %r -> %s, first items read %d times' % (label, lookup, match_type, result, len(log)))

            emit('-- %s: a lookup array given as a one-shot iterator --' % label)
            for match_type in (0, 1, -1):
                iterator = iter(column([1, 2, 3, 4]))
                result = call(instance._match, 2, iterator, match_type)
                emit('%s type %r -> %s, rows left %d' % (label, match_type, result, len(list(iterator))))

        emit('== agreement of the two copies ==')
        emit('copies agree on every direct call: %s' % (per_copy['base'] == per_copy['generated']))
    finally:
        shutil.rmtree(workdir, ignore_errors=True)

    total = hashlib.sha256('\n'.join(LINES).encode()).hexdigest()
    print('TOTAL %d lines, sha256 %s' % (len(LINES), total))
    return 0


if __name__ == '__main__':
    sys.exit(main())
