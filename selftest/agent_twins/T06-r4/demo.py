"""Equivalence demo for r4: the criterion-literal parsing of LambdaTokenTranslator (precompiled regex + match object,
nested if/else flattened into a helper with early returns)."""
import datetime
import hashlib
import os
import re
import tempfile
import warnings

warnings.simplefilter('ignore')  # the project's template contains '\*' in a non-raw string (SyntaxWarning noise)

from openpyxl import Workbook

from excel2pycl import Parser, Executor, Cell
from excel2pycl.src.context import Context
from excel2pycl.src.translators.lambda_token_translator import LambdaTokenTranslator


def show(value):
    return type(value).__name__ + ':' + repr(value)


def attempt(label, function):
    try:
        result = show(function())
    except BaseException as error:  # noqa
        message = str(error)
        result = 'RAISED ' + type(error).__name__ + ': ' + (message if len(message) < 300 else message[:300] + '...')
    print(label, '=>', result)


CRITERIA = [
    '">2"', '">=2"', '"<2"', '"<=2"', '"<>2"', '"=2"', '"2"', '2', '2.5', '">2.5"', '"<=2.50"', '">1e0"', '"<1e1"',
    '">=25e-1"', '"<>3.0"', '">007"', '">"', '"<>"', '"<="', '"="', '""', '"a"', '"A"', '"<>a"', '">a"', '"=a"',
    '"a*"', '"*a"', '"?"', '"??"', '"~*"', '"a~*"', '"*"', '"<>a*"', '">2*"', '"> 2"', '">2 "', '">-1"', '">+1"',
    '">1."', '">.5"', '">1e"', '">1e+1"', '">1,5"', '"=>2"', '"><2"', '"<<2"', '">2<"', '">=<2"', '"2>"',
    'A3', 'B1', 'C1', 'G1', 'TRUE', 'FALSE', '">"&A2', '">="&A2', '"<"&A4', '"<="&A4', '"<>"&A3', '"<>"&B1', '"="&A3',
    '""&A3', '"a"&"b"', '">"&B1', '">"&G1', '">2"&A1', '"<>2"&"5"', '">"&A2+1', '">"&2', '">"&"2"', '"<>"&""',
    '">=2024-01-01"', '"2024-01-01"', '">"&F7', 'F7', '"it\'s"', '">it\'s"', '"<>"&"it\'s"', '">" & A2', '"é"', '">٣"',
]


def formulas():
    result = []
    for criterion in CRITERIA:
        result.append(f'=SUMIF(A1:A8, {criterion}, D1:D8)')
        result.append(f'=SUMIFS(D1:D8, A1:A8, {criterion})')
        result.append(f'=COUNTIFS(B1:B8, {criterion})')
        result.append(f'=COUNTIFS(A1:A8, {criterion}, B1:B8, {criterion})')
        result.append(f'=AVERAGEIFS(D1:D8, F1:F8, {criterion})')
        result.append(f'=SUMIFS(D1:D8, A1:A8, ">0", B1:B8, {criterion})')
    return result


def build_workbook(path, selected):
    wb = Workbook()
    ws = wb.active
    ws.title = 'Data'
    rows = [
        [1, 'a', True, 10, 1, 1, None],
        [2, 'b', False, 20, 2, 2.5, None],
        [3, 'A', True, 30.5, 3, 3, 0],
        [4, 'ab', False, 40, 4, 25, ''],
        [5, 'a*', True, 50, 5, 2, None],
        [3, '*', False, 60, 6, 6.5, 0],
        [0, "it's", True, 70, 7, datetime.datetime(2024, 1, 1), None],
        [-1, 'aa', False, 80, 8, 8, None],
    ]
    for row in rows:
        ws.append(row)
    for index, formula in enumerate(selected):
        ws.cell(row=index + 1, column=10, value=formula)
    wb.save(path)


def generated_functions(text):
    return text[re.search(r'\n    def _\d+_', text).start():]


class FakeLambdaToken:
    """a criterion made of a literal only (no & expression), as the translator sees it"""
    expression = None

    def __init__(self, literal):
        self.literal = literal
        self.in_cell = Cell(0, 0, 0)


def literal_only():
    literals = [
        None, '', "''", "'>'", "'<'", "'>='", "'<='", "'<>'", "'='", "'=='", "'!='", "'>5'", "'>=5'", "'<5'", "'<=5'",
        "'<>5'", "'=5'", "'>05'", "'>5.5'", "'>5.50'", "'>5.'", "'>.5'", "'>5e3'", "'>5e-3'", "'>5e+3'", "'>5E3'",
        "'>5.5e2'", "'>5.e2'", "'>5e'", "'>5e-'", "'>1e999'", "'>1e-999'", "'>0'", "'>00'", "'>0.0'", "'>-5'",
        "'> 5'", "'>5 '", "' >5'", "'>5'\n", "'>5\n'", "\n'>5'", "'>5''", "''>5'", '">5"', '">"', "'>5", ">5'", '>5',
        "'>٣'", "'>５'", "'>5٣'", "'><5'", "'<<5'", "'=>5'", "'>=<5'", "'>5<'", "'<>=5'", "'<>>5'", "'>>'", "'abc'",
        "'>abc'", "'>5abc'", "'5'", '5', '5.5', 'True', 'False', "'a*'", "'>*'", "'>' + '5'", "'>" + '9' * 30 + "'",
        "'>" + '9' * 400 + ".5'", "'>" + '9' * 5000 + "'", "'>1e" + '9' * 5000 + "'", "'<>" + '0' * 50 + "7'",
        "'>5'" * 2, "'>=5.5e-2'", "'<=12345678901234567890'", "'<>0.1'", "'>1_0'", "'>0x10'", "'>5j'",
    ]
    for literal in literals:
        context = Context()

        def translate():
            reference = LambdaTokenTranslator.translate(FakeLambdaToken(literal), None, context)
            return reference, context._sub_cell_translations

        label = repr(literal) if literal is None or len(literal) < 80 else repr(literal[:40]) + f'...({len(literal)})'
        attempt('literal ' + label, translate)


def main():
    literal_only()

    tmp = tempfile.mkdtemp()
    everything = formulas()
    # formulas the lexer/parser rejects would abort the whole file, so translate one formula per workbook first
    accepted = []
    for index, formula in enumerate(everything):
        xlsx = os.path.join(tmp, f'one{index}.xlsx')
        build_workbook(xlsx, [formula])
        try:
            text = Parser().set_excel_file_path(xlsx).get_translation()
        except BaseException as error:  # noqa
            print('rejected', formula, type(error).__name__, str(error)[:200])
            continue
        accepted.append(formula)
        print('translated', formula, hashlib.sha256(generated_functions(text).encode()).hexdigest())
        for line in generated_functions(text).splitlines():
            if 'lambda' in line:
                print('   ', line.strip())

    xlsx, out = os.path.join(tmp, 'book.xlsx'), os.path.join(tmp, 'book.py')
    build_workbook(xlsx, accepted)
    Parser().set_excel_file_path(xlsx).write_translation(out)
    text = open(out, encoding='utf-8').read()
    print('whole class sha256', hashlib.sha256(text.encode()).hexdigest())
    executor = Executor().set_executed_class(class_file=out)
    for index, formula in enumerate(accepted):
        attempt('cell ' + formula, lambda i=index: executor.get_cell(Cell(0, 9, i)).value)
    overrides = [
        [Cell('Data', 'A', '2', value=2.5), Cell('Data', 'A', '3', value='a'), Cell('Data', 'B', '1', value='A*')],
        [Cell('Data', 'A', '3', value=3), Cell('Data', 'A', '4', value=None), Cell('Data', 'G', '1', value=2),
         Cell('Data', 'F', '7', value=2)],
    ]
    for number, cells in enumerate(overrides):
        executor.set_cells(cells)
        for index, formula in enumerate(accepted):
            attempt(f'override{number} ' + formula, lambda i=index: executor.get_cell(Cell(0, 9, i)).value)


main()
