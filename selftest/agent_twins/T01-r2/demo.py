"""Equivalence demo for r2 (_compare: nested try/except flattened into a coercion loop + date helper).

Drives _compare of BOTH copies of the runtime helper class (the class in abstract_excel_in_python_class.py
and the class printed from the template in context.py) on a large operand matrix, with tracing operands that
record the order of every conversion/comparison, and evaluates comparison formulas of a translated workbook
with workbook values and with overrides.
"""
import datetime
import decimal
import fractions
import hashlib
import itertools
import os
import sys
import tempfile
import warnings

warnings.filterwarnings('ignore')

from openpyxl import Workbook

from excel2pycl import Parser, Executor, Cell
from excel2pycl.src.utilities.abstract_excel_in_python_class import AbstractExcelInPython

OUT = []


def emit(*parts):
    OUT.append(' | '.join(str(p) for p in parts))


def show(value):
    return f'{type(value).__name__}:{value!r}'


tmp = tempfile.mkdtemp()

# ---------------------------------------------------------------- workbook with comparison formulas
values = [5, 2.5, -3, 0, 'txt', 'TXT', '10', '2.5', '', None, True, False,
          datetime.datetime(2024, 2, 29), datetime.datetime(2024, 2, 29, 13, 30), datetime.datetime(1999, 12, 31),
          1e308, 0.1 + 0.2, 0.3, 45351, ' 7 ']
ops = ['=', '<>', '<', '<=', '>', '>=']
wb = Workbook()
ws = wb.active
ws.title = 'Cmp'
for i, v in enumerate(values, start=1):
    ws.cell(row=i, column=1, value=v)
formulas = []
for op in ops:
    for i, j in itertools.product(range(1, len(values) + 1), repeat=2):
        formulas.append(f'=A{i}{op}A{j}')
formulas += ['=A1>3', '=A1>"3"', '="a"<"B"', '=A13>DATE(2024;2;28)', '=DATE(2024;2;29)=A13', '=A13<DATE(2024;3;1)',
             '=A14>DATE(2024;2;29)', '=A10<DATE(2000;1;1)', '=A10>DATE(2000;1;1)', '=DATE(2000;1;1)>A5',
             '=DATE(2000;1;1)<A5', '=A5>DATE(2000;1;1)', '=A1+A2>=7.5', '=A17=A18', '=A17-A18=0', '=A3<-2',
             '=A1<>A1', '=A11=1', '=A12=0', '=A11>A12', '=A11="True"', '=Z50=0', '=Z50=""', '=Z50<A13', '=Z50>A3',
             '=IF(A1>=A2;"ge";"lt")', '=IF(A5<A6;1;0)', '=A13=45351', '=A19=A13', '=A13>=A19', '=A20=7', '=A20>6']
for i, f in enumerate(formulas, start=1):
    ws.cell(row=i, column=3, value=f)
xlsx = os.path.join(tmp, 'cmp.xlsx')
py = os.path.join(tmp, 'cmp.py')
wb.save(xlsx)
Parser().set_excel_file_path(xlsx).write_translation(py)


def evaluate(executor, tag):
    for i, f in enumerate(formulas):
        try:
            emit(tag, f, show(executor.get_cell(Cell(0, 2, i)).value))
        except Exception as e:  # noqa
            emit(tag, f, 'EXC ' + type(e).__name__)


executor = Executor().set_executed_class(class_file=py)
evaluate(executor, 'wb')
generated = executor.get_executed_class()
for n, overrides in enumerate([
    [Cell('Cmp', 'A', '1', value=datetime.date(2024, 2, 29)), Cell('Cmp', 'A', '2', value='2024-02-29')],
    [Cell('Cmp', 'A', '5', value=None), Cell('Cmp', 'A', '13', value=datetime.date(2024, 2, 29)),
     Cell('Cmp', 'A', '10', value=0)],
    [Cell('Cmp', 'A', '1', value='5'), Cell('Cmp', 'A', '2', value=float('nan')), Cell('Cmp', 'A', '3', value=[1]),
     Cell('Cmp', 'Z', '50', value=datetime.datetime(2024, 1, 1))],
]):
    ex = Executor().set_executed_class(class_file=py)
    ex.set_cells(overrides)
    evaluate(ex, f'ov{n}')


# ---------------------------------------------------------------- direct calls on both copies
class Direct(AbstractExcelInPython):
    pass


class Tracer:
    """Operand that records every conversion / comparison applied to it."""

    def __init__(self, name, log, int_result, float_result, cmp_result, text):
        self.name, self.log = name, log
        self.int_result, self.float_result, self.cmp_result, self.text = int_result, float_result, cmp_result, text

    def _answer(self, kind, result):
        self.log.append(f'{self.name}.{kind}')
        if isinstance(result, type) and issubclass(result, BaseException):
            raise result(f'{self.name} {kind}')
        return result

    def __int__(self):
        return self._answer('int', self.int_result)

    def __float__(self):
        return self._answer('float', self.float_result)

    def __str__(self):
        return self._answer('str', self.text)

    def __repr__(self):
        return f'Tracer({self.name})'

    def _cmp(self, kind, other):
        return self._answer(kind + '(' + (other.name if isinstance(other, Tracer) else type(other).__name__) + ')',
                            self.cmp_result)

    def __eq__(self, other): return self._cmp('eq', other)
    def __ne__(self, other): return self._cmp('ne', other)
    def __lt__(self, other): return self._cmp('lt', other)
    def __le__(self, other): return self._cmp('le', other)
    def __gt__(self, other): return self._cmp('gt', other)
    def __ge__(self, other): return self._cmp('ge', other)
    __hash__ = None


class OddDate(datetime.date):
    """A date whose conversion to datetime fails (month attribute out of range)."""
    @property
    def month(self):
        return 13


def operand_pool(instance):
    return [
        0, 1, -1, 7, 10 ** 30, True, False, 0.0, -0.0, 2.5, 0.1 + 0.2, 0.3, float('nan'), float('inf'), -float('inf'),
        1e308, None, '', ' ', 'abc', 'ABC', '10', '010', '9', ' 7 ', '1.5', '1e3', 'nan', 'inf', '-0', '1_0', '٣',
        '2024-02-29', '2024-02-29 00:00:00',
        datetime.date(2024, 2, 29), datetime.datetime(2024, 2, 29), datetime.datetime(2024, 2, 29, 0, 0, 1),
        datetime.date(1, 1, 1), datetime.date(9999, 12, 31), datetime.time(1, 2), datetime.timedelta(days=1),
        OddDate(2024, 2, 29),
        instance.EmptyCell(), [], [1], [[]], (1,), {}, b'1', bytearray(b'2'), decimal.Decimal('1.5'),
        fractions.Fraction(1, 3), 1 + 0j, object, len,
    ]


instances = [('class', Direct()), ('template', generated)]
emit('helper present', [hasattr(inst, '_compare') and hasattr(inst, '_by_operator') for _, inst in instances])
for label, inst in instances:
    pool = operand_pool(inst)
    for op in ['==', '!=', '<', '<=', '>', '>=']:
        for left, right in itertools.product(pool, pool):
            try:
                res = show(inst._compare(op, left, right))
            except Exception as e:  # noqa
                res = 'EXC ' + type(e).__name__ + ' ' + str(e)[:60]
            emit(label, op, repr(left)[:40], repr(right)[:40], res)
    # operators outside the table
    for op in ['=', '<>', '', 'x', None, 5, '=>', ' ==']:
        for left, right in [(1, 2), ('a', 'b'), (datetime.date(2020, 1, 1), 'a'), (None, None), (1.5, '1.5')]:
            try:
                res = show(inst._compare(op, left, right))
            except Exception as e:  # noqa
                res = 'EXC ' + type(e).__name__ + ' ' + str(e)[:60]
            emit(label, 'badop', repr(op), repr(left), repr(right), res)
    # tracing operands: the exact sequence of conversions and comparisons
    outcomes = [3, 2.5, ValueError, TypeError, KeyError]
    for op in ['==', '<', '>=']:
        for li, lf, ri, rf in itertools.product(outcomes, repeat=4):
            for lc, rc in [(True, False), (NotImplemented, NotImplemented), (TypeError, True), (NotImplemented, ValueError),
                           (ZeroDivisionError, True)]:
                log = []
                left = Tracer('L', log, li, lf, lc, 'left')
                right = Tracer('R', log, ri, rf, rc, 'right')
                try:
                    res = show(inst._compare(op, left, right))
                except Exception as e:  # noqa
                    res = 'EXC ' + type(e).__name__ + ' ' + str(e)[:60]
                emit(label, 'trace', op, [getattr(x, '__name__', x) for x in (li, lf, ri, rf, lc, rc)], res,
                     '>'.join(log))

digest = hashlib.sha256('\n'.join(OUT).encode()).hexdigest()
print('\n'.join(OUT))
print('lines', len(OUT), 'digest', digest)
sys.exit(0)
