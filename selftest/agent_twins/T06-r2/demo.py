"""Equivalence demo for r2: AND/OR translators call the shared get_flatten_list helper (helper itself reshaped)."""
import datetime
import hashlib
import os
import re
import tempfile
import warnings

warnings.simplefilter('ignore')  # the project's template contains '\*' in a non-raw string (SyntaxWarning noise)

from openpyxl import Workbook

from excel2pycl import Parser, Executor, Cell


def show(value):
    return type(value).__name__ + ':' + repr(value)


def attempt(label, function):
    try:
        result = show(function())
    except BaseException as error:  # noqa
        result = 'RAISED ' + type(error).__name__ + ': ' + str(error)
    print(label, '=>', result)


FORMULAS = [
    '=AND(A1)', '=AND(A1, A2)', '=AND(A1:A4)', '=AND(A1:C4)', '=AND(A1:A2, B1:B2, 1)', '=AND(A1>0, B1<5, C1)',
    '=AND(TRUE, TRUE())', '=AND(FALSE)', '=AND(1, 2, 3)', '=AND(0)', '=AND(A5)', '=AND(A5:C5)', '=AND(D1:D4)',
    '=AND(Other!A1:B2)', '=AND(Other!A1, A1)', '=AND(A:A)', '=AND(AND(A1, B1), OR(C1, C2))',
    '=AND(SUM(A1:A4)>5, COUNT(A1:A4)=4)', '=AND(A1, "x")', '=AND("")', '=AND(E1:E3)', '=AND(A1:A2)=AND(A1,A2)',
    '=OR(A1)', '=OR(A1, A2)', '=OR(A1:A4)', '=OR(A1:C4)', '=OR(A5:C5)', '=OR(A5)', '=OR(FALSE, 0)', '=OR(FALSE, 0, C3)',
    '=OR(A1>10, B1>10, C1)', '=OR(D1:D4)', '=OR(Other!A1:B2)', '=OR(Other!B2, A5)', '=OR(C:C)',
    '=OR(AND(A1, 0), AND(B1, B2))', '=OR(A5:C5, Other!B2)', '=OR(E1:E3)', '=OR(A1:A2)=OR(A1,A2)',
    '=IF(AND(A1, OR(B5, C1)), "yes", "no")', '=IF(OR(A5, AND(B1, B2)), 1, 2)',
    '=AND(A1, A1)', '=OR(A5, A5)', '=AND(A1,A2)+OR(A1,A2)', '=AND(F1)', '=OR(F1, A1)', '=OR(A1, F1)',
    # the other users of the helper
    '=SUM(A1:C4)', '=SUM(A1:A4, Other!A1:B2, 5)', '=SUM(A1:A2)+SUM(A3:A4)', '=SUM(A1:A4)', '=AVERAGE(A1:C4)',
    '=AVERAGE(A1:A2, B1:B2, 10)', '=MIN(A1:C4)', '=MIN(A1:A4, -3.5)', '=MAX(A1:C4)', '=MAX(Other!A1:B2, A1)',
    '=COUNT(A1:C5, 5, "7", TRUE)', '=COUNTBLANK(A1:C5)', '=COUNTBLANK(A5:C5, D1:D4)', '=SUM(A:A)', '=MAX(D1:D4)',
    '=SUM(5)', '=SUM(1, 2, "3")', '=MIN(E1:E3)', '=SUM(F1)', '=AVERAGE(D1:D4)',
]


def build_workbook(path):
    wb = Workbook()
    ws = wb.active
    ws.title = 'Data'
    rows = [
        [1, 2, True, 'text', '#N/A', '=1/0'],
        [2, 0, False, '', 3],
        [3.5, -1, 1, 'b', '#VALUE!'],
        [4, 7, '=A1>0', None],
        [None, None, None, None],
    ]
    for row in rows:
        ws.append(row)
    other = wb.create_sheet('Other')
    other.append([100, True])
    other.append([0.5, False])
    for index, formula in enumerate(FORMULAS):
        ws.cell(row=index + 1, column=9, value=formula)
    wb.save(path)


def generated_functions(text):
    return text[re.search(r'\n    def _\d+_', text).start():]


def main():
    tmp = tempfile.mkdtemp()
    xlsx, out = os.path.join(tmp, 'book.xlsx'), os.path.join(tmp, 'book.py')
    build_workbook(xlsx)
    parser = Parser().set_excel_file_path(xlsx)
    parser.write_translation(out)
    text = open(out, encoding='utf-8').read()
    print('whole class sha256', hashlib.sha256(text.encode()).hexdigest())
    print(generated_functions(text))

    # translating again (fresh parser, one entry point at a time) gives the same sub-cell numbering
    for index in (0, 16, 40, 48):
        single = Parser().set_excel_file_path(xlsx).set_entrypoint_cell(Cell(0, 8, index)).get_translation()
        print('entry point', FORMULAS[index], hashlib.sha256(single.encode()).hexdigest())
        print(generated_functions(single))

    executor = Executor().set_executed_class(class_file=out)
    for index, formula in enumerate(FORMULAS):
        attempt('cell ' + formula, lambda i=index: executor.get_cell(Cell(0, 8, i)).value)

    overrides = [
        [Cell('Data', 'A', '1', value=0)],
        [Cell('Data', 'A', '5', value=True), Cell('Data', 'C', '2', value='yes')],
        [Cell('Data', 'B', '2', value=datetime.datetime(2024, 1, 1)), Cell('Other', 'B', '2', value=1)],
        [Cell('Data', 'A', '1', value=None), Cell('Data', 'A', '9', value=-100), Cell('Data', 'D', '4', value=0.0)],
    ]
    for number, cells in enumerate(overrides):
        executor.set_cells(cells)
        for index, formula in enumerate(FORMULAS):
            attempt(f'override{number} ' + formula, lambda i=index: executor.get_cell(Cell(0, 8, i)).value)


main()
