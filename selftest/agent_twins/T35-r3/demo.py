"""
Equivalence demonstration for r3 (runtime helper _compare, both copies: the pyramid of nested try/except blocks became
a loop over the ways of bringing both operands to one kind - whole numbers, floats, dates at midnight - with the
texts as the last resort).

Run as: PYTHONPATH=<tree> /venv/bin/python demo.py
Prints the same text on the unchanged tree and on the refactored tree.
"""
import datetime
import hashlib
import os
import re
import shutil
import sys
import tempfile
from decimal import Decimal
from fractions import Fraction

from openpyxl import Workbook

from excel2pycl import Parser, Executor, Cell
from excel2pycl.src.object_loader import load_module
from excel2pycl.src.utilities.abstract_excel_in_python_class import AbstractExcelInPython

LINES = []
SCRATCH = []


def out(line: str):
    line = re.sub(r' at 0x[0-9a-fA-F]+', ' at 0x?', line)
    for directory in SCRATCH:
        line = line.replace(directory, '<scratch>')
    LINES.append(line)
    print(line)


def describe_exception(e: BaseException) -> str:
    return f'!{e.__class__.__name__}{e.args!r}'


class Runtime(AbstractExcelInPython):
    pass


class Named:
    """An operand of a foreign kind with a fixed text"""

    def __init__(self, text):
        self.text = text

    def __str__(self):
        return self.text

    def __repr__(self):
        return f'Named({self.text!r})'


class Quantity:
    """An operand that can be brought to a number, but not to a whole one without loss"""

    def __init__(self, number):
        self.number = number

    def __float__(self):
        return float(self.number)

    def __int__(self):
        return int(self.number)

    def __str__(self):
        return f'{self.number} pcs'

    def __repr__(self):
        return f'Quantity({self.number!r})'


class OnlyFloat:
    def __float__(self):
        return 2.5

    def __repr__(self):
        return 'OnlyFloat()'

    __str__ = __repr__


OPERATORS = ['<', '<=', '==', '!=', '>=', '>', '=', '<>', '', 'x']


def operands(runtime_class):
    blank = runtime_class.EmptyCell
    return [
        0, 1, -1, 2, 10, 9, 2.5, -2.5, 0.0, -0.0, 0.1 + 0.2, 0.3, 2.0, 1e308, 5e-324, float('inf'), float('-inf'),
        float('nan'), 10 ** 20, 10 ** 20 + 1, float(10 ** 20), 10 ** 400, -(10 ** 400), 2 ** 53, 2 ** 53 + 1,
        float(2 ** 53), True, False, Decimal('1.5'), Decimal('2'), Decimal('NaN'), Decimal('Infinity'),
        Fraction(5, 2), Fraction(1, 3), 1 + 0j,
        '', ' ', 'a', 'A', 'b', 'apple', 'Apple', '10', '9', '2.5', '-2.5', ' 3 ', '1e3', '1_0', 'nan', 'inf', '0x10',
        '٣', '2024-01-01', '2024-01-01 00:00:00', 'TRUE', 'True', 'None', '0', '0.0', '#N/A', '#DIV/0!',
        datetime.date(2024, 1, 1), datetime.datetime(2024, 1, 1), datetime.datetime(2024, 1, 1, 0, 0, 0, 1),
        datetime.datetime(2024, 1, 1, 1, 10, 10), datetime.date(2023, 12, 31), datetime.date(1, 1, 1),
        datetime.date(9999, 12, 31), datetime.datetime(9999, 12, 31, 23, 59, 59),
        datetime.datetime(2024, 1, 1, tzinfo=datetime.timezone.utc), datetime.time(1, 2, 3),
        datetime.timedelta(days=1),
        blank(), blank(5), None, [], [1], [blank()], (), (1, 2), {}, b'1', b'', bytearray(b'7'),
        Named('a'), Named('10'), Named(''), Quantity(2.5), Quantity(3), Quantity(float('nan')), OnlyFloat(),
    ]


def shown(value) -> str:
    return f'{type(value).__name__}:{value!r}'


def compare_directly(label: str, instance):
    out(f'== {label}: _compare on every pair of operands with every operator {OPERATORS}')
    values = operands(instance.__class__)
    digest = hashlib.sha256()
    for left in values:
        for right in values:
            cells = []
            for operator in OPERATORS:
                left_before, right_before = repr(left), repr(right)
                try:
                    result = instance._compare(operator, left, right)
                    cells.append(f'{type(result).__name__}:{result!r}')
                except Exception as e:
                    cells.append(describe_exception(e))
                if (repr(left), repr(right)) != (left_before, right_before):
                    cells.append('OPERAND CHANGED')
            line = f'{label} {shown(left)} ? {shown(right)} -> {" | ".join(cells)}'
            digest.update((line + '\n').encode())
            out(line)
    out(f'{label}: pairs={len(values) ** 2} digest={digest.hexdigest()}')

    out(f'== {label}: keyword arguments, missing arguments and _by_operator on its own')
    calls = [
        lambda: instance._compare(operator='<', left_operand=1, right_operand='a'),
        lambda: instance._compare(right_operand=datetime.date(2024, 1, 1), operator='==',
                                  left_operand=datetime.datetime(2024, 1, 1)),
        lambda: instance._compare('<', 1),
        lambda: instance._compare('<'),
        lambda: instance._compare('<', 1, 2, 3),
        lambda: instance._by_operator('<', 1, 'a'),
        lambda: instance._by_operator('==', datetime.date(2024, 1, 1), datetime.datetime(2024, 1, 1)),
        lambda: instance._by_operator('?', 1, 2),
    ]
    for number, call in enumerate(calls):
        try:
            result = call()
            out(f'{label} call {number} -> {type(result).__name__}:{result!r}')
        except Exception as e:
            out(f'{label} call {number} -> !{e.__class__.__name__}')


STORED = [
    0, 1, -1, 2.5, -2.5, 0.3, 10, 9, 1e20, True, False, None, '', 'a', 'A', 'b', 'apple', 'Apple', '10', '9', '2.5',
    ' 3 ', 'abc', datetime.date(2024, 1, 1), datetime.datetime(2024, 1, 1), datetime.datetime(2024, 1, 1, 1, 10, 10),
    datetime.date(2023, 12, 31),
]
SIGNS = ['<', '<=', '=', '<>', '>=', '>']


def build_workbook(path: str):
    wb = Workbook()
    ws = wb.active
    ws.title = 'Pairs'
    row = 0
    pairs = []
    for left in STORED:
        for right in STORED:
            row += 1
            ws.cell(row=row, column=1, value=left)
            ws.cell(row=row, column=2, value=right)
            for offset, sign in enumerate(SIGNS):
                ws.cell(row=row, column=3 + offset, value=f'=A{row}{sign}B{row}')
            pairs.append((left, right))
    # comparisons with literals, of expressions, inside functions, between sheets
    extra = wb.create_sheet('Extra')
    extra['A1'] = 5
    extra['A2'] = None
    extra['A3'] = 'text'
    extra['A4'] = datetime.date(2024, 2, 29)
    formulas = [
        '=A1>4', '=A1>4.5', '=A1=5', '=A1<>5', '=A1<="5"', '=A1="5"', '=A2=0', '=A2=""', '=A2=FALSE', '=A2<1', '=A2<-1',
        '=A2<"a"', '=A2<A4', '=A2>A4', '=A2>=A2', '=A2<>A2', '=A3="TEXT"', '=A3="text"', '=A3>"tex"', '=A3<5',
        '=A4=DATE(2024;2;29)', '=A4>DATE(2024;2;28)', '=A4<DATE(2024;3;1)', '=A1+1>A1', '=(A1>4)=(A1<6)', '=A1*2>=10',
        '=IF(A1>=5;"ge";"lt")', '=IF(A2=0;"blank is zero";"no")', '=AND(A1>1;A1<10;A3<>"")', '=OR(A1<1;A2>0)',
        '=Pairs!A2>Pairs!B1', '=1<2', '=2<1', '=1.5=1.5', '="a"<"b"', '="a"="A"', '=TRUE=TRUE', '=TRUE>FALSE',
        '=0.1+0.2=0.3', '=1e20=100000000000000000000', '=A1>A3', '=A3>A1', '=A4>A1', '=A4>A3', '=10>9', '="10">"9"',
        '=-A1<0', '=50%<1', '=A1&""="5"', '=LEFT(A3;1)="t"', '=SUM(A1;1)>5', '=A1 >= 5', '=A1<>  5',
    ]
    for index, formula in enumerate(formulas):
        extra.cell(row=index + 1, column=3, value=formula)
    wb.save(path)
    return pairs, formulas


def end_to_end(directory: str):
    out('== a translated workbook: every pair of stored values with every comparison sign')
    xlsx = os.path.join(directory, 'pairs.xlsx')
    class_file = os.path.join(directory, 'pairs.py')
    pairs, formulas = build_workbook(xlsx)
    translation = Parser().set_excel_file_path(xlsx).write_translation(class_file).get_translation()
    lines = translation.splitlines()
    first_cell_function = next(i for i, line in enumerate(lines) if re.match(r'    def _\d+_\d+_\d+\(self\)', line))
    cell_functions = '\n'.join(lines[first_cell_function:])
    out(f'cell functions: lines={len(lines) - first_cell_function} '
        f'with _compare={sum("self._compare(" in line for line in lines[first_cell_function:])} '
        f'digest={hashlib.sha256(cell_functions.encode()).hexdigest()}')
    executor = Executor().set_executed_class(class_file=class_file)
    for row, (left, right) in enumerate(pairs):
        cells = []
        for offset, sign in enumerate(SIGNS):
            try:
                value = executor.get_cell(Cell(0, 2 + offset, row)).value
                cells.append(f'{sign} {type(value).__name__}:{value!r}')
            except Exception as e:
                cells.append(f'{sign} {describe_exception(e)}')
        out(f'Pairs row {row + 1}: {shown(left)} ? {shown(right)} -> {" | ".join(cells)}')
    for index, formula in enumerate(formulas):
        try:
            value = executor.get_cell(Cell('Extra', 'C', str(index + 1))).value
            out(f'Extra C{index + 1} {formula!r} -> {type(value).__name__}:{value!r}')
        except Exception as e:
            out(f'Extra C{index + 1} {formula!r} -> {describe_exception(e)}')

    out('== the same class with overridden cells')
    overrides = [3, 3.0, '3', 'three', None, '', True, datetime.date(2024, 1, 1), datetime.datetime(2024, 1, 1, 12),
                 [1], 1e400, -0.0]
    for left in overrides:
        for right in overrides:
            executor = Executor().set_executed_class(class_file=class_file)
            executor.set_cells([Cell(0, 0, 0, value=left), Cell('Pairs', 'B', '1', value=right)])
            cells = []
            for offset, sign in enumerate(SIGNS):
                try:
                    value = executor.get_cell(Cell(0, 2 + offset, 0)).value
                    cells.append(f'{sign} {type(value).__name__}:{value!r}')
                except Exception as e:
                    cells.append(f'{sign} {describe_exception(e)}')
            out(f'override {shown(left)} ? {shown(right)} -> {" | ".join(cells)}')

    out('== the helper of the generated class called directly')
    generated = load_module(class_file).ExcelInPython()
    compare_directly('generated', generated)


def main():
    directory = tempfile.mkdtemp(prefix='r3_demo_')
    SCRATCH.append(directory)
    try:
        compare_directly('library', Runtime())
        end_to_end(directory)
    finally:
        shutil.rmtree(directory, ignore_errors=True)
    print('TOTAL lines=%d digest=%s' % (len(LINES), hashlib.sha256('\n'.join(LINES).encode()).hexdigest()))


if __name__ == '__main__':
    main()
    sys.exit(0)
