"""Equivalence demo for r1 (Excel reader: cell / range / matrix access).

Exercises Excel._fill_cell, fill_cell, get_range, get_matrix, get_similar_second,
get_cells and the title table on hand-built sheets and on parsed workbooks, and then
translates and executes workbooks whose formulas use every reference form.
Prints a deterministic digest; must be identical before and after the refactoring.
"""
import hashlib
import itertools
import os
import shutil
import sys
import tempfile

from openpyxl import Workbook

from excel2pycl import Cell, Executor, Parser
from excel2pycl.src.excel import Excel

LINES = []


def out(*parts):
    LINES.append(' '.join(str(p) for p in parts))


def show_cell(c):
    return f'({c.title!r},{c.column!r},{c.row!r},{c.value!r},{c.has_handled_identifiers()})'


def show(value):
    if isinstance(value, Cell):
        return show_cell(value)
    if isinstance(value, (list, tuple)):
        return '[' + ','.join(show(v) for v in value) + ']'
    return repr(value)


def attempt(label, fn):
    try:
        out(label, '=>', show(fn()))
    except Exception as e:  # noqa
        out(label, '=> EXC', type(e).__name__, str(e))


def build_excel():
    data = [
        # sheet 0: ragged rows
        [[1, 2, 3, 4], ['a', None, 'c'], [], [None, None, None, None, 'tail'], [10.5]],
        # sheet 1: rectangular
        [[f'r{r}c{c}' for c in range(3)] for r in range(4)],
        # sheet 2: empty sheet
        [],
        # sheet 3: one cell
        [['only']],
    ]
    return Excel({
        'data': data,
        'titles': ['First', 'Second sheet', 'Empty', 'One'],
        'suspicious_cells': {},
        'sheets_size': [{'last_column': 5, 'last_row': 5}, {'last_column': 3, 'last_row': 4},
                        {'last_column': 0, 'last_row': 0}, {'last_column': 1, 'last_row': 1}],
    })


def direct_part():
    excel = build_excel()
    out('titles', excel.get_titles(), list(excel.get_titles().items()))
    out('sizes', excel.get_sheets_size())

    # _fill_cell: every combination around the boundaries
    coords = [-2, -1, 0, 1, 2, 3, 4, 5, 6]
    for title in [-1, 0, 1, 2, 3, 4]:
        for row, column in itertools.product(coords, coords):
            attempt(f'_fill {title},{column},{row}', lambda: excel._fill_cell(Cell(title, column, row)))
    # odd identifiers
    for title, column, row in [(0, 0, None), (0, None, 0), (None, 0, 0), ('First', 0, 0), (0, 'A', 0), (0, 0, '1'),
                               (0, 1.0, 1), (True, 0, 0)]:
        attempt(f'_fill odd {title!r},{column!r},{row!r}', lambda: excel._fill_cell(Cell(title, column, row)))

    # fill_cell with every identifier style
    for title in ['First', 'Second sheet', 'Empty', 'One', 'Missing', '', 0, 1, 3, 7, -1]:
        for column in ['A', 'B', 'E', 'F', 'XFD', 'XFE', 'a', '', 0, 2, 9]:
            for row in ['1', '2', '5', '6', '0', '', '1048576', None, 0, 3, 8]:
                attempt(f'fill {title!r},{column!r},{row!r}', lambda: excel.fill_cell(Cell(title, column, row)))

    # get_range / get_matrix / get_similar_second over many corner pairs
    ends = [('A', '1'), ('A', '5'), ('A', '9'), ('C', '1'), ('C', '2'), ('E', '4'), ('F', '1'), ('A', ''), ('C', ''),
            ('F', ''), ('B', '3'), (0, 0), (2, 3), (1, None)]
    for t1, t2 in [('First', 'First'), ('Second sheet', 'Second sheet'), ('Empty', 'Empty'), ('One', 'One'),
                   ('First', 'One'), (0, 0), (1, 'Second sheet'), ('Nope', 'First'), ('First', 'Nope')]:
        for (c1, r1), (c2, r2) in itertools.product(ends, ends):
            tag = f'{t1!r}!{c1!r}{r1!r}:{t2!r}!{c2!r}{r2!r}'
            attempt('range ' + tag, lambda: excel.get_range(Cell(t1, c1, r1), Cell(t2, c2, r2)))
            attempt('matrix ' + tag, lambda: excel.get_matrix(Cell(t1, c1, r1), Cell(t2, c2, r2)))
    for (c1, r1), (c2, r2) in itertools.product(ends, ends):
        attempt(f'similar {c1!r}{r1!r}:{c2!r}{r2!r}',
                lambda: excel.get_similar_second(Cell('One', 'B', '2'), Cell('First', c1, r1), Cell('First', c2, r2)))

    # private helpers called directly
    for title in [0, 1, 2, 3]:
        for a, b in [((0, 0), (0, 3)), ((1, 1), (1, 1)), ((0, None), (0, None)), ((2, 2), (2, 0)), ((4, 0), (4, 9)),
                     ((0, 1), (3, 1)), ((3, 1), (0, 1)), ((0, 0), (0, None)), ((0, None), (0, 2))]:
            f, s = Cell(title, a[0], a[1]), Cell(title, b[0], b[1])
            attempt(f'vert {title} {a}->{b}', lambda: excel._get_vertical_range(f, s))
            attempt(f'horiz {title} {a}->{b}', lambda: excel._get_horizontal_range(f, s))
            attempt(f'_matrix {title} {a}->{b}', lambda: excel._get_matrix(f, s))
    attempt('_matrix cross', lambda: excel._get_matrix(Cell(0, 0, 0), Cell(1, 1, 1)))

    attempt('get_cells', excel.get_cells)

    # titles with duplicates / empty
    for titles in [[], ['A'], ['A', 'B', 'A'], ['x', 'y', 'z', 'y', 'x']]:
        e = Excel({'data': [[] for _ in titles], 'titles': titles, 'suspicious_cells': {}, 'sheets_size': []})
        out('title-table', titles, list(e.get_titles().items()))


def make_workbook(path):
    wb = Workbook()
    ws = wb.active
    ws.title = 'Data'
    for r in range(1, 7):
        for c in range(1, 6):
            if (r + c) % 4 != 0:  # leave holes (blank cells)
                ws.cell(row=r, column=c, value=r * 10 + c)
    ws['H1'] = 'far'
    other = wb.create_sheet('Other Sheet')
    for r in range(1, 5):
        other.cell(row=r, column=1, value=r)
        other.cell(row=r, column=2, value=f't{r}')
        other.cell(row=r, column=3, value=r * 1.5)
    other['AA7'] = 77
    wb.create_sheet('Blank')
    calc = wb.create_sheet('Calc')
    formulas = [
        '=Data!A1', "='Other Sheet'!B2", '=SUM(Data!A1:A6)', '=SUM(Data!A1:E1)', '=SUM(Data!$A$1:$E$6)',
        "=SUM('Other Sheet'!A:A)", "=SUM('Other Sheet'!A:C)", '=SUM(Data!B:B)', '=SUM(Blank!A:A)',
        '=SUM(Blank!A1:C3)', '=COUNT(Data!A1:E6)', '=MAX(Data!A:E)', '=MIN(Data!C3:E6)',
        "=VLOOKUP(3,'Other Sheet'!A1:C4,2,0)", "=VLOOKUP(2,'Other Sheet'!A:C,3,0)",
        "=INDEX('Other Sheet'!A1:C4,2,2)", "=SUMIF('Other Sheet'!A1:A4,\">1\",'Other Sheet'!C1:C4)",
        "=SUM('Other Sheet'!$A1:A$4)", '=Data!$H$1', '=Data!Z99', "='Other Sheet'!AA7", '=SUM(Data!F1:J1)',
        '=AVERAGE(Data!A2:E2)', "=MATCH(3,'Other Sheet'!A1:A4,0)", '=SUM(A1:A3)', '=A1+Data!A2',
        '=COUNTBLANK(Data!A1:E6)', "=SUM('Other Sheet'!A1:C4)", '=SUM(Data!A1:A6,Data!E1:E6)',
    ]
    for i, f in enumerate(formulas, start=1):
        calc.cell(row=i, column=1, value=f)
    wb.save(path)
    return len(formulas)


def workbook_part(tmp):
    xlsx = os.path.join(tmp, 'book.xlsx')
    n = make_workbook(xlsx)
    excel = Excel.parse(xlsx)
    out('parsed titles', list(excel.get_titles().items()))
    out('parsed sizes', excel.get_sheets_size())
    attempt('parsed get_cells', lambda: [c for c in excel.get_cells() if c.title != 3])
    for t in ['Data', 'Other Sheet', 'Blank', 'Calc']:
        attempt(f'parsed matrix {t} A:C', lambda: excel.get_matrix(Cell(t, 'A', ''), Cell(t, 'C', '')))
        attempt(f'parsed matrix {t} B:B', lambda: excel.get_matrix(Cell(t, 'B', ''), Cell(t, 'B', '')))
        attempt(f'parsed matrix {t} C:A', lambda: excel.get_matrix(Cell(t, 'C', ''), Cell(t, 'A', '')))
        attempt(f'parsed matrix {t} A1:J9', lambda: excel.get_matrix(Cell(t, 'A', '1'), Cell(t, 'J', '9')))
        attempt(f'parsed range {t} A:A', lambda: excel.get_range(Cell(t, 'A', ''), Cell(t, 'A', '')))
        attempt(f'parsed range {t} A2:J2', lambda: excel.get_range(Cell(t, 'A', '2'), Cell(t, 'J', '2')))
        attempt(f'parsed range {t} A1:A', lambda: excel.get_range(Cell(t, 'A', '1'), Cell(t, 'A', '')))
        attempt(f'parsed range {t} A1:B2', lambda: excel.get_range(Cell(t, 'A', '1'), Cell(t, 'B', '2')))

    out_py = os.path.join(tmp, 'book_translation.py')
    text = Parser().set_excel_file_path(xlsx).get_translation()
    Parser().set_excel_file_path(xlsx).write_translation(out_py)
    out('translation sha', hashlib.sha256(text.encode()).hexdigest(), len(text))
    with open(out_py, encoding='utf-8') as f:
        out('written equals returned', f.read() == text)
    executor = Executor().set_executed_class(class_file=out_py)
    for row in range(n):
        attempt(f'Calc!A{row + 1}', lambda: executor.get_cell(Cell('Calc', 0, row)).value)
    executor.set_cells([Cell('Data', 'A', '1', value=1000), Cell('Other Sheet', 'A', '3', value=30),
                        Cell('Blank', 'B', '2', value=5)])
    for row in range(n):
        attempt(f'after set Calc!A{row + 1}', lambda: executor.get_cell(Cell('Calc', 0, row)).value)

    # formulas whose references must be rejected
    for i, formula in enumerate(['=Missing!A1', "='No Such'!A1:A3", '=SUM(Data!A1:B2:C3)', '=SUM(Data!A1:Other!B2)',
                                 '=SUM(Nope!A:A)', '=Data!A1:A', '=SUM(Data!A1:A)', '=SUM(Data!A:A1)']):
        wb = Workbook()
        wb.active.title = 'Data'
        wb.active['A1'] = 1
        wb.create_sheet('Other')
        wb.active['B1'] = formula
        bad = os.path.join(tmp, f'bad{i}.xlsx')
        wb.save(bad)
        attempt(f'reject {formula}', lambda: hashlib.sha256(
            Parser().set_excel_file_path(bad).get_translation().encode()).hexdigest())


def main():
    tmp = tempfile.mkdtemp(prefix='t28r1_')
    try:
        direct_part()
        workbook_part(tmp)
    finally:
        shutil.rmtree(tmp, ignore_errors=True)
    body = '\n'.join(LINES)
    # keep the printed output readable: the first lines verbatim, then a digest of everything
    for line in LINES[:40]:
        print(line)
    for line in LINES:
        if line.startswith(('Calc!', 'after set', 'reject', 'parsed', 'translation', 'written', 'title-table')):
            print(line)
    print('lines', len(LINES))
    print('digest', hashlib.sha256(body.encode()).hexdigest())
    return 0


if __name__ == '__main__':
    sys.exit(main())
