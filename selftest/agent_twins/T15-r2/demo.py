"""Equivalence demo for r2 (Excel.parse: per-worksheet reading extracted into a helper).

Builds workbooks with ragged rows, empty sheets, gaps, many value types, array formulas and
suspicious cells, and prints everything Excel.parse produces (data, titles, sizes, suspicious
cells, in their iteration order) plus the sha256 of the full translation and the exception
classes for unreadable inputs.
"""
import datetime
import hashlib
import os
import shutil
import tempfile

from openpyxl import Workbook
from openpyxl.worksheet.formula import ArrayFormula

from excel2pycl import Parser, Executor, Cell
from excel2pycl.src.excel import Excel


def sha(text):
    return hashlib.sha256(text.encode('utf-8')).hexdigest()[:16]


def book_plain(path):
    wb = Workbook()
    ws = wb.active
    ws.title = 'Numbers'
    ws.append([1, 2.5, -3, 0, 0.0, True, False, None, 'x'])
    ws.append([None, None, '=A1+B1'])
    ws.append([])
    ws.append(['=SUM(A1:C1)', '', ' ', 'tail', None, None])
    ws2 = wb.create_sheet('Dates & Text')
    ws2.append([datetime.date(2024, 2, 29), datetime.datetime(2024, 2, 29, 13, 5, 7), datetime.time(1, 2, 3)])
    ws2.append(['=A1<B1', "='Numbers'!A1=1", '=A1&"z"', '=50%', '="a"<>"b"'])
    ws2['H7'] = 'far away'
    wb.create_sheet('Empty')
    ws4 = wb.create_sheet('Single')
    ws4['A1'] = 42
    ws5 = wb.create_sheet('Gap')
    ws5['C3'] = 'c3'
    ws5['A5'] = 5
    wb.save(path)


def book_ragged(path):
    wb = Workbook()
    ws = wb.active
    ws.title = 'R'
    for length in [5, 1, 0, 9, 3, 9, 2]:
        ws.append(list(range(length)))
    ws2 = wb.create_sheet('Wide')
    ws2.append([None] * 40 + ['end'])
    ws2.append(['start'])
    ws3 = wb.create_sheet('Tall')
    for i in range(60):
        ws3.append([i, f'=A{i + 1}*2'])
    wb.save(path)


def book_array(path):
    wb = Workbook()
    ws = wb.active
    ws.append([1, 2, 3])
    ws['A2'] = ArrayFormula('A2:A2', '=SUM(A1:C1)  ')
    ws['B2'] = ArrayFormula('B2:B2', '=MAX(A1:C1)\n ')
    ws['C2'] = '=A2+B2'
    wb.save(path)


def book_suspicious(path):
    wb = Workbook()
    ws = wb.active
    ws.title = 'S1'
    ws.append(['os.system("rm")', 1, 'SUM(A1)', 'eval(x) and exec(y)', '=SUM(B1:B1)', 'print()'])
    ws.append([None, '__import__(1)', 'a(b(c))', 'MAX(1) min(2)', 12.5, 'f_1(2)'])
    ws2 = wb.create_sheet('S 2')
    ws2.append(['ok', 'open(f).read()', '=IF(A1="ok";1;2)'])
    ws2['E9'] = 'z9(1)'
    wb.save(path)


def dump_excel(label, path, out):
    try:
        excel = Excel.parse(path)
    except BaseException as exc:  # noqa
        out.append(f'{label}: parse raised {type(exc).__name__}')
        return
    out.append(f'{label}: titles={list(excel.get_titles().items())!r}')
    out.append(f'{label}: sizes={excel.get_sheets_size()!r}')
    out.append(f'{label}: suspicious={list(excel._suspicious_cells.items())!r}')
    for sheet_number, sheet in enumerate(excel._data):
        out.append(f'{label}: sheet {sheet_number} rows={len(sheet)} lens={[len(row) for row in sheet]!r}')
        for row_number, row in enumerate(sheet):
            out.append(f'{label}:   {sheet_number}/{row_number}: {[(type(v).__name__, v) for v in row]!r}')
    try:
        excel.is_safe()
        out.append(f'{label}: is_safe ok')
    except BaseException as exc:  # noqa
        out.append(f'{label}: is_safe raised {type(exc).__name__}: {exc}')
    out.append(f'{label}: cells={len(excel.get_cells())}')
    # two reads of the same file give equal, independent results
    again = Excel.parse(path)
    out.append(f'{label}: reread equal={again._data == excel._data and again._sheets_size == excel._sheets_size}'
               f' independent={again._data is not excel._data}')


def main():
    tmp = tempfile.mkdtemp(prefix='e2p_demo_r2_')
    out = []
    try:
        builders = {'plain': book_plain, 'ragged': book_ragged, 'array': book_array, 'suspicious': book_suspicious}
        paths = {}
        for name, builder in builders.items():
            paths[name] = os.path.join(tmp, f'{name}.xlsx')
            builder(paths[name])
            dump_excel(name, paths[name], out)

        not_xlsx = os.path.join(tmp, 'text.xlsx')
        with open(not_xlsx, 'w') as f:
            f.write('this is not a workbook')
        dump_excel('not a workbook', not_xlsx, out)
        dump_excel('missing', os.path.join(tmp, 'missing.xlsx'), out)
        dump_excel('directory', tmp, out)

        for name in builders:
            parser = Parser().set_excel_file_path(paths[name]).disable_safety_check()
            try:
                text = parser.get_translation()
                out.append(f'{name}: translation {sha(text)} len={len(text)}')
            except BaseException as exc:  # noqa
                out.append(f'{name}: translation raised {type(exc).__name__}')
                continue
            try:
                Parser().set_excel_file_path(paths[name]).get_translation()
                out.append(f'{name}: safe')
            except BaseException as exc:  # noqa
                out.append(f'{name}: safety raised {type(exc).__name__}')
            py = os.path.join(tmp, f'{name}.py')
            parser.write_translation(py)
            executor = Executor().set_executed_class(class_file=py)
            out.append(f'{name}: executor sizes={executor._sheets_size!r} titles={executor._titles!r}')
            for sheet in range(len(executor._sheets_size)):
                values = []
                for row in executor.get_sheet(sheet):
                    for cell in row:
                        values.append(repr(cell.value))
                out.append(f'{name}: sheet {sheet} values {sha("|".join(values))} n={len(values)} '
                           f'head={values[:12]!r}')
    finally:
        shutil.rmtree(tmp, ignore_errors=True)

    text = '\n'.join(out)
    print(text)
    print('DIGEST', hashlib.sha256(text.encode('utf-8')).hexdigest())


if __name__ == '__main__':
    main()
