"""Equivalence demo for r1 (C05): the lexer loop and CompositeBaseToken.get (token-set matcher).

Exercises Lexer.parse + AstBuilder.parse directly on many formula texts (complete, truncated,
with trailing junk, with wrong argument lists, with whitespace / separator variations) and also
translates + executes a workbook end to end.  Prints a deterministic digest.
"""
import hashlib
import os
import shutil
import sys
import tempfile

from openpyxl import Workbook

from excel2pycl import Parser, Executor, Cell
from excel2pycl.src.ast_builder import AstBuilder
from excel2pycl.src.lexer import Lexer
from excel2pycl.src.tokens import (CompositeBaseToken, ControlConstructionCompositeBaseToken, EntryPointToken,
                                   ExpressionToken, OperandToken, IterableExpressionToken, LambdaToken,
                                   SumControlConstructionToken, IfControlConstructionToken,
                                   RoundUpControlConstructionToken, TodayControlConstructionToken)

FORMULAS = [
    # plain, complete
    '=1', '=1+2', '=A1', '=A1+B2*3', '=-A1', '=+A1', '=--1', '=(1+2)*3', '=((1))', '=(1+2)', '=1%', '=A1%+2',
    '=50%*A1', '="a"&"b"', '="a"&A1&"c"', '=TRUE', '=FALSE()', '=1.5e3', '=1e-2', '=""', '="x y"', '=A1>=B1',
    '=A1<>B1', '=A1<=B1', '=A1<B1', '=A1>B1', '=A1=B1', '=1/2', '=A1:A3', '=A1:C1', '=A1:C3', "='My sheet'!A1",
    '=Sheet1!A1', '=Sheet1!A1:A5', '=$A$1', '=$A1+A$1',
    # functions, complete
    '=SUM(A1:A3)', '=SUM(A1,B1,C1)', '=SUM(A1;B1;C1)', '=SUM(A1:A3,5)', '=IF(A1>1,2,3)', '=IF(A1>1;2;3)',
    '=IF(A1>1,2)', '=IF(A1>1,"y","n")', '=IF(AND(A1>1,B1<2),1,0)', '=IF(OR(A1>1;B1<2);1;0)',
    '=IFERROR(A1/B1,0)', '=IFERROR(A1/B1;"err")', '=ROUND(A1,2)', '=ROUND(A1;0)', '=ROUNDUP(A1,1)', '=ROUNDUP(A1,)',
    '=ROUNDDOWN(A1,1)', '=ROUNDDOWN(A1;)', '=MIN(A1:A3)', '=MAX(A1,B1)', '=AVERAGE(A1:A3)', '=AVERAGE(A1,2,3)',
    '=VLOOKUP(A1,A1:C3,2,FALSE)', '=VLOOKUP(A1,A1:C3,2)', '=VLOOKUP(A1;A1:C3;2;TRUE)', '=SUMIF(A1:A3,">1",B1:B3)',
    '=SUMIF(A1:A3,">1")', '=SUMIF(A1:A3;">"&B1;B1:B3)', '=SUMIFS(A1:A3,B1:B3,">1")',
    '=SUMIFS(A1:A3,B1:B3,">1",C1:C3,"<5")', '=COUNTIFS(A1:A3,">1")', '=COUNTIFS(A1:A3,"a*")',
    '=COUNTIFS(A1:A3,">1",B1:B3,"<3")', '=AVERAGEIFS(A1:A3,B1:B3,">1")', '=COUNT(A1:A3)', '=COUNT(A1,B1,3)',
    '=COUNTBLANK(A1:A3)', '=DATE(2020,1,2)', '=DATE(2020;1;2)', '=DATEDIF(A1,B1,"d")', '=EOMONTH(A1,1)',
    '=EDATE(A1,1)', '=DAY(A1)', '=MONTH(A1)', '=YEAR(A1)', '=TODAY()', '=LEFT("abc",2)', '=LEFT("abc")',
    '=RIGHT("abc",2)', '=RIGHT("abc")', '=MID("abcdef",2,3)', '=SEARCH("b","abc")', '=SEARCH("b","abc",1)',
    '=SEARCH("b*","abc")', '=MATCH(1,A1:A3,0)', '=MATCH(1,A1:A3)', '=XMATCH(1,A1:A3)', '=XMATCH(1,A1:A3,0)',
    '=INDEX(A1:C3,1,2)', '=INDEX(A1:C3,2)', '=ADDRESS(1,2)', '=ADDRESS(1,2,4)', '=COLUMN(B1)', '=COLUMN()',
    '=NETWORKDAYS(A1,B1)', '=NETWORKDAYS(A1,B1,C1:C3)', '=IFS(A1>1,1,A1>2,2)', '=IFS(A1>1;1)', '=VALUE("12")',
    '=TEXT(A1,"0.00")', '=CONCATENATE("a","b",A1)', '=CONCATENATE("a")', '=SUM(IF(A1>1,2,3),MAX(A1:A3))',
    '=IF(SUM(A1:A3)>3,ROUND(A1/3,2),IFERROR(1/0,"x"))', '=SUM(A1:A3)+MAX(B1:B3)*2', '=-SUM(A1:A3)',
    '=(SUM(A1:A3))', '=SUM((A1+1),(B1))', '=SUM(A1:A3)%',
    # whitespace variations
    '= 1 + 2', '=  SUM( A1 , B1 ;C1 )', '=IF ( A1 > 1 , 2 , 3 )', '=\tA1\n+\tB1', '=SUM(A1:A3) ', '= 1', '=1 ',
    ' =1', '=  ', '= ', '=\n', '=A1 B1', '=1 2', '=SUM(A1 B1)', '=SUM (A1)', '=S UM(A1)',
    # truncated / trailing junk / unbalanced
    '=', '=1+', '=1+2)', '=(1+2', '=1+2))', '=)', '=(', '=()', '=1,2', '=1;2', '=A1,', '=A1:',
    '=SUM(A1:A3', '=SUM(A1:A3))', '=SUM(A1:A3)1', '=SUM(A1:A3)A1', '=SUM(A1:A3)(', '=SUM(A1:A3),', '=SUM()',
    '=SUM(', '=SUM', '=SUM)', '=SUM(,)', '=SUM(A1,)', '=SUM(,A1)', '=SUM(A1,,B1)', '=1+SUM(A1', '=1+2 3',
    '="abc', '="abc"def"', '=1.', '=1..2', '=.5', '=1e', '=A1:B', '=A:A', '=A:C', '=1 1', '=A1A1', '=A1(', '=1(',
    '=1 SUM(A1)', '=SUM(A1) SUM(B1)', '=SUM(A1)SUM(B1)', '=SUM(A1)+', '=SUM(A1)+)', '=+', '=-', '=*1', '=/1',
    '=1*', '=1**2', '=1+-2', '=1-+2', '=1+*2', '=&"a"', '="a"&', '=%', '=1%%', '=%1', '=1%2', '=>1', '=1>',
    '=1<>', '=<>1', '=1==2', '=1=>2', '=1=<2',
    # wrong argument lists for supported functions
    '=IF()', '=IF(A1)', '=IF(A1,)', '=IF(A1,1,2,3)', '=IF(,1,2)', '=IF(A1>1,2,3', '=IF(A1>1,2,3))', '=IF A1',
    '=IFERROR()', '=IFERROR(A1)', '=IFERROR(A1,1,2)', '=ROUND()', '=ROUND(A1)', '=ROUND(A1,)', '=ROUND(A1,1,2)',
    '=ROUNDUP()', '=ROUNDUP(A1)', '=ROUNDUP(A1,1,2)', '=ROUNDDOWN(A1)', '=ROUNDDOWN(A1,1,2)', '=MIN()', '=MAX()',
    '=MAX(,)', '=AVERAGE()', '=VLOOKUP()', '=VLOOKUP(A1)', '=VLOOKUP(A1,A1:C3)', '=VLOOKUP(A1,A1:C3,2,FALSE,1)',
    '=SUMIF()', '=SUMIF(A1:A3)', '=SUMIF(A1:A3,">1",B1:B3,1)', '=SUMIFS(A1:A3)', '=SUMIFS(A1:A3,B1:B3)',
    '=SUMIFS(A1:A3,B1:B3,">1",C1:C3)', '=COUNTIFS()', '=COUNTIFS(A1:A3)', '=COUNTIFS(A1:A3,">1",B1:B3)',
    '=AVERAGEIFS(A1:A3)', '=AVERAGEIFS(A1:A3,B1:B3)', '=COUNT()', '=COUNTBLANK()', '=COUNTBLANK(A1:A3,B1:B3)',
    '=DATE()', '=DATE(2020)', '=DATE(2020,1)', '=DATE(2020,1,2,3)', '=DATEDIF(A1,B1)', '=DATEDIF(A1,B1,"d",1)',
    '=EOMONTH(A1)', '=EOMONTH(A1,1,2)', '=EDATE(A1)', '=EDATE(A1,1,2)', '=DAY()', '=DAY(A1,B1)', '=MONTH()',
    '=MONTH(A1,B1)', '=YEAR()', '=YEAR(A1,B1)', '=TODAY(1)', '=TODAY', '=TODAY(', '=TODAY())', '=LEFT()',
    '=LEFT("abc",1,2)', '=RIGHT()', '=RIGHT("abc",1,2)', '=MID("abc")', '=MID("abc",1)', '=MID("abc",1,2,3)',
    '=SEARCH("a")', '=SEARCH()', '=SEARCH("a","b",1,2)', '=MATCH()', '=MATCH(1)', '=MATCH(1,A1:A3,0,1)',
    '=XMATCH()', '=XMATCH(1)', '=INDEX()', '=INDEX(A1:C3)', '=INDEX(A1:C3,1,2,3)', '=ADDRESS()', '=ADDRESS(1)',
    '=COLUMN(A1,B1)', '=COLUMN(1)', '=NETWORKDAYS()', '=NETWORKDAYS(A1)', '=NETWORKDAYS(A1,B1,C1:C3,1)', '=IFS()',
    '=IFS(A1>1)', '=IFS(A1>1,1,A1>2)', '=VALUE()', '=VALUE("1","2")', '=TEXT()', '=TEXT(A1)', '=TEXT(A1,"0",1)',
    '=CONCATENATE()', '=AND()', '=OR()', '=AND(', '=OR)', '=AND(A1>1', '=OR(A1>1,)',
    # nested failures
    '=SUM(IF(A1))', '=IF(SUM(),1,2)', '=1+IF(A1,)', '=SUM(A1,MAX())', '=IF(A1>1,SUM(A1:A3,2,3)',
    '=IFERROR(ROUND(A1),0)', '=SUM(A1:A3)+MAX(', '=(IF(A1))', '=-IF()',
    # unsupported names / python-like / lower case
    '=FOO(A1)', '=sum(A1)', '=Sum(A1)', '=eval("1")', '=os.system("x")', '=A1.B1', '=A1!B1', '=#REF!', '=@A1',
    '=A1^2', '={1,2}', '=[1]', '=a1', '=SUMX(A1)', '=SUMIFX(A1)', '=IFSUM(A1)', '=SUMIF', '=IFS', '=IFERROR',
    '=ROUNDUPDOWN(A1,1)', '=TRUEFALSE', '=TRUE1', '=1TRUE', '=TRUE()()', '=TRUE(', '=FALSE)',
    # separators
    '=SUM(A1~B1)', '=SUM(A1;B1,C1)', '=IF(A1>1;2,3)', '=SUM(A1;;B1)', '=SUM(;)', '=;', '=,', '=~',
]

# also feed the parser with texts not starting with '=' (AstBuilder must reject or behave identically)
NON_FORMULAS = ['1', 'SUM(A1)', '', ' ', 'A1', '"x"', '(1)', '1+2']


def describe(value):
    return str(value)


def run_direct(text):
    cell = Cell(0, 0, 0, value=text, _handled_identifiers=True)
    try:
        tokens = Lexer.parse(text, in_cell=cell)
    except Exception as e:
        return 'LEXER-EXC %s %r' % (type(e).__name__, tuple(str(a) for a in e.args))
    try:
        ast = AstBuilder.parse(tokens, in_cell=cell)
    except Exception as e:
        return 'TOKENS %s | PARSER-EXC %s %r' % (describe(tokens), type(e).__name__,
                                                 tuple(str(a) for a in e.args))
    return 'TOKENS %s | AST %s' % (describe(tokens), describe(ast))


def run_partial(token_class, text):
    """Calls <token_class>.get directly on the lexed text: exposes (token, rest) incl. partial consumption."""
    cell = Cell(0, 0, 0, value=text, _handled_identifiers=True)
    try:
        tokens = Lexer.parse(text, in_cell=cell)
    except Exception as e:
        return 'LEXER-EXC %s' % type(e).__name__
    before = list(tokens)
    try:
        token, rest = token_class.get(tokens, cell)
    except Exception as e:
        return 'EXC %s %r' % (type(e).__name__, tuple(str(a) for a in e.args))
    untouched = tokens == before and all(a is b for a, b in zip(tokens, before))
    return 'TOKEN %s | REST %s | input untouched %s | rest is input %s' % (describe(token), describe(rest),
                                                                          untouched, rest is tokens)


def build_workbook(path, formulas):
    wb = Workbook()
    ws = wb.active
    ws.title = 'Sheet1'
    data = [[1, 2, 3], [4, 5.5, 6], [7, 'abc', 9]]
    for r, row in enumerate(data, start=1):
        for c, v in enumerate(row, start=1):
            ws.cell(row=r, column=c, value=v)
    for i, f in enumerate(formulas, start=1):
        ws.cell(row=i, column=5, value=f)
    wb.save(path)
    wb.close()


def run_workbook(tmp, name, formulas):
    lines = []
    xlsx = os.path.join(tmp, name + '.xlsx')
    out_py = os.path.join(tmp, name + '.py')
    build_workbook(xlsx, formulas)
    try:
        translation = Parser().set_excel_file_path(xlsx).disable_safety_check().get_translation()
        Parser().set_excel_file_path(xlsx).disable_safety_check().write_translation(out_py)
    except Exception as e:
        lines.append('%s: TRANSLATE-EXC %s %r' % (name, type(e).__name__, tuple(str(a) for a in e.args)))
        return lines
    lines.append('%s: translation sha %s len %d' % (name, hashlib.sha256(translation.encode()).hexdigest(),
                                                   len(translation)))
    executor = Executor().set_executed_class(class_file=out_py)
    for i, f in enumerate(formulas):
        try:
            value = executor.get_cell(Cell(0, 4, i)).value
            lines.append('%s E%d %r -> %r %s' % (name, i + 1, f, value, type(value).__name__))
        except Exception as e:
            lines.append('%s E%d %r -> EXC %s' % (name, i + 1, f, type(e).__name__))
    return lines


GOOD_FOR_WORKBOOK = [
    '=1+2', '= 1 + 2', '=SUM(A1:A3)', '=SUM( A1:A3 )', '=SUM(A1,B1,C1)',
    '=SUM(A1;B1;C1)', '=SUM( A1 ; B1 , C1 )', '=IF(A1>1,2,3)', '=IF(A1>1;2;3)', '=IF ( A1 > 1 ; 2 , 3 )',
    '=IF(A1>1,2)', '=ROUND(B2/3,2)', '=ROUND(B2/3;2)', '=ROUNDUP(B2/3,)', '=ROUNDDOWN(B2/3;1)', '=MAX(A1:C1)',
    '=MIN(A1,B2,C3)', '=AVERAGE(A1:A3)', '=VLOOKUP(4,A1:C3,3,FALSE)', '=VLOOKUP(4;A1:C3;3)',
    '=SUMIF(A1:A3,">1",C1:C3)', '=SUMIF(A1:A3;">1")', '=COUNTIFS(A1:A3,">1")', '=COUNT(A1:C3)',
    '=LEFT(B3,2)', '=LEFT(B3)', '=RIGHT(B3;2)', '=MID(B3,2,2)', '=SEARCH("b",B3)', '=MATCH(4,A1:A3,0)',
    '=INDEX(A1:C3,2,3)', '=IFERROR(A1/0,"err")', '=IFERROR(A1/0;-1)', '=CONCATENATE("a",B3,"c")',
    '="x"&B3', '=(A1+B1)*C1', '=-A1+10%', '=AND(A1>0,B1>1)', '=OR(A1>5;B1>5)', '=IFS(A1>1,1,A1>0,2)',
    '=COLUMN(B1)', '=ADDRESS(1,2)', '=VALUE("12")+1', '=TEXT(B2,"0.00")', '=SUM(A1:A3)+MAX(B1:B3)*2',
    '=DATE(2020,1,2)', '=YEAR(DATE(2020,1,2))', '=COUNTBLANK(A1:D3)', '=SUM(IF(A1>1,2,3),MAX(A1:A3))',
]

BAD_FOR_WORKBOOK = ['=1+', '=SUM(A1:A3', '=SUM(A1:A3))', '=IF(A1)', '=IF(A1,1,2,3)', '=ROUND(A1)', '=1 2',
                    '=SUM(A1:A3)1', '=TODAY(1)', '=FOO(A1)', '= ', '=MID("abc",1)', '=LEFT()', '=SUM(A1,)',
                    '=1+2)', '=(1+2', '=sum(A1)', '=A1^2']


def main():
    lines = []
    for text in FORMULAS + NON_FORMULAS:
        lines.append('DIRECT %r -> %s' % (text, run_direct(text)))

    partial_classes = [EntryPointToken, ExpressionToken, OperandToken, IterableExpressionToken, LambdaToken,
                       SumControlConstructionToken, IfControlConstructionToken, RoundUpControlConstructionToken,
                       TodayControlConstructionToken, ControlConstructionCompositeBaseToken, CompositeBaseToken]
    partial_texts = ['=1+2', '1+2', '1+2)', 'SUM(A1)', 'SUM(A1)+1', 'SUM(A1', 'SUM A1', 'IF(A1,1,2)', 'IF(A1)',
                     'ROUNDUP(A1,)', 'ROUNDUP(A1,2)', 'ROUNDUP(A1)', 'TODAY()', 'TODAY(1)', 'TODAY', '', '(',
                     '1,2,3', '1;2;', '">1"', '">"&A1', 'A1:A3,">1"', '"a"&', '1%', '1%+', '-1', '-',
                     '(1)+', '(1', 'A1 B1', 'MAX(A1)MIN(A1)']
    for token_class in partial_classes:
        for text in partial_texts:
            lines.append('PARTIAL %s %r -> %s' % (token_class.__name__, text, run_partial(token_class, text)))

    tmp = tempfile.mkdtemp(prefix='t55r1_')
    try:
        lines.extend(run_workbook(tmp, 'good', GOOD_FOR_WORKBOOK))
        for i, bad in enumerate(BAD_FOR_WORKBOOK):
            lines.extend(run_workbook(tmp, 'bad%02d' % i, ['=1+2', bad, '=SUM(A1:A3)']))
    finally:
        shutil.rmtree(tmp, ignore_errors=True)
        sys.modules.pop('good', None)

    for line in lines:
        print(line)
    print('LINES', len(lines))
    print('DIGEST', hashlib.sha256('\n'.join(lines).encode()).hexdigest())


if __name__ == '__main__':
    main()
