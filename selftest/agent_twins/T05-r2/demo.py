"""Equivalence demo for r2 (Context: numbering of sub-expressions and assembly of the class text).

Part 1 drives Context directly: many set_cell / set_sub_cell calls (repeated codes, repeated
cells, equal codes in different cells, empty code, cells given with string identifiers that
were never resolved -> exception), then prints every returned reference, the internal maps,
the divided sub-cell map and the digest + function list of build_class().
Part 2 translates real workbooks (whole file and from entry cells, in several orders and from
several threads) and prints digests, the order of generated functions and computed values.
The output must be identical before and after the refactoring.
"""
import warnings
warnings.simplefilter("ignore")
import hashlib
import os
import re
import tempfile
import threading
import datetime

from openpyxl import Workbook

from excel2pycl import Parser, Executor, Cell
from excel2pycl.src.context import Context

OUT = []


def emit(*parts):
    OUT.append(' '.join(str(p) for p in parts))


def digest(text):
    return hashlib.sha256(text.encode('utf-8')).hexdigest()[:20] + ':' + str(len(text))


def functions_of(text):
    """names of the generated per-cell functions, in order of appearance"""
    return re.findall(r'^    def (_\d+_\w+)\(self\):$', text, re.M)


def bodies_of(text):
    return re.findall(r'^    def (_\d+_\w+)\(self\):\n        return (.*)$', text, re.M)


def attempt(label, action):
    try:
        emit(label, '->', repr(action()))
    except Exception as exc:  # noqa
        emit(label, '-> EXC', type(exc).__name__, str(exc)[:120])


def part1():
    ctx = Context()
    ctx._titles = {'main': 0, 'b': 1}
    ctx._sheets_size = [{'last_column': 3, 'last_row': 3}, {'last_column': 1, 'last_row': 1}]
    emit('empty build', digest(ctx.build_class()), functions_of(ctx.build_class()))
    emit('empty divided', ctx._get_divided_sub_cell_translations())

    cells = [Cell(0, 0, 0), Cell(0, 1, 0), Cell(1, 0, 0), Cell(0, 0, 1), Cell(0, 10, 11), Cell(0, 1, None)]
    codes = ['self._sum([1, 2])', 'self._max([1])', 'self._sum([1, 2])', '', 'lambda x: x', '', 'self._max([1])',
             "'text'", '1', '1.0', 'self._sum([1, 2]) ', 'self._sum([1, 2])']
    attempt('get unknown', lambda: ctx.get_cell(cells[0]))
    # interleave cells and codes in a fixed pseudo-random order
    state = 12345
    for n in range(120):
        state = (state * 1103515245 + 12345) % (2 ** 31)
        cell = cells[state % len(cells)]
        state = (state * 1103515245 + 12345) % (2 ** 31)
        code = codes[state % len(codes)]
        if n % 7 == 3:
            attempt(f'{n:03d} set_cell {cell.uid} {code!r}', lambda: ctx.set_cell(cell, code))
        else:
            attempt(f'{n:03d} set_sub_cell {cell.uid} {code!r}', lambda: ctx.set_sub_cell(cell, code))
    attempt('unresolved cell sub', lambda: ctx.set_sub_cell(Cell('main', 'A', '1'), 'x'))
    attempt('unresolved cell set', lambda: ctx.set_cell(Cell('main', 'A', '1'), 'x'))
    attempt('unresolved cell get', lambda: ctx.get_cell(Cell('main', 'A', '1')))
    emit('cell map', list(ctx._cell_translations.items()))
    emit('sub map', list(ctx._sub_cell_translations.items()))
    divided = ctx._get_divided_sub_cell_translations()
    emit('divided', list(divided.items()))
    emit('divided type', type(divided).__name__, len(divided))
    text = ctx.build_class()
    emit('build', digest(text))
    emit('functions', functions_of(text))
    emit('bodies', bodies_of(text))
    emit('build again identical', ctx.build_class() == text)
    emit('maps untouched by build', list(ctx._cell_translations) == [k for k in ctx._cell_translations],
         len(ctx._cell_translations), sum(len(v) for v in ctx._sub_cell_translations.values()))
    # a cell function whose name coincides with a sub-cell name keeps its first position, last value
    ctx2 = Context()
    ctx2.set_cell(Cell(0, 0, 0), "'cell'")
    ctx2._cell_translations['_0_0_0_0'] = "'planted'"
    ctx2.set_cell(Cell(0, 1, 0), "'after'")
    emit('sub ref', ctx2.set_sub_cell(Cell(0, 0, 0), "'sub'"))
    emit('clash bodies', bodies_of(ctx2.build_class()))
    # an existing but empty list is reused/replaced without visible difference
    ctx3 = Context()
    ctx3._sub_cell_translations['_0_0_0'] = []
    emit('empty list', ctx3.set_sub_cell(Cell(0, 0, 0), 'a'), ctx3.set_sub_cell(Cell(0, 0, 0), 'b'),
         ctx3.set_sub_cell(Cell(0, 0, 0), 'a'), ctx3._sub_cell_translations)
    # circular bookkeeping is untouched
    ctx4 = Context()
    name = ctx4.start_cell_translation(Cell(0, 0, 0))
    attempt('circular', lambda: ctx4.start_cell_translation(Cell(0, 0, 0)))
    ctx4.finish_cell_translation(name)
    attempt('after finish', lambda: ctx4.start_cell_translation(Cell(0, 0, 0)))


def book(path):
    wb = Workbook()
    ws = wb.active
    ws.title = 'main'
    ws.append([1, 2, 3, '=SUM(A1:C1)+SUM(A1:C1)', '=SUM(A1:C1)*MAX(A1:C1)-MIN(A1:C1)+SUM(A1:B1)'])
    ws.append([4, None, 6, '=SUMIF(A1:A3, ">1")+SUMIF(A1:A3, ">1")', '=COUNTBLANK(A1:C3)'])
    ws.append([7, 'x', 9, '=VLOOKUP(7, A1:C3, 3, FALSE())', '=MATCH(4, A1:A3, 0)+MATCH(4, A1:A3, 0)'])
    ws.append(['=IF(AND(A1>0, B1>0), SUM(A1:A3), MAX(A1:A3))', '=OR(A1>5, A2>5)', '=D1+E1', '=A4+C4', '=INDEX(A1:C3, 2, 3)'])
    ws.append(['=AVERAGEIFS(C1:C3, A1:A3, ">1")', '=SUMIFS(C1:C3, A1:A3, ">1", C1:C3, "<9")', '=COUNTIFS(A1:A3, ">1")',
               '=IFS(A1>1, "a", A1>0, "b")', '=XMATCH(6, C1:C3, 0, 1)'])
    second = wb.create_sheet('second')
    second.append(['=SUM(main!A1:A3)', '=main!D4*2', '=SUM(main!A1:A3)+A1', datetime.date(2024, 2, 29)])
    second.append(['=A1=main!A3', '=D1>main!A1', '=COLUMN()', '=MIN(main!A1:C1)&"x"'])
    wb.save(path)


def part2():
    tmp = tempfile.mkdtemp(prefix='r2demo')
    path = os.path.join(tmp, 'book.xlsx')
    book(path)
    whole = Parser().set_excel_file_path(path).get_translation()
    emit('whole', digest(whole))
    emit('whole functions', functions_of(whole))
    for name, body in bodies_of(whole):
        emit('  ', name, '=', body)
    emit('whole again (new parser)', Parser().set_excel_file_path(path).get_translation() == whole)
    entries = [Cell('main', 'D', '4'), Cell('second', 'C', '1'), Cell(0, 4, 0), Cell(1, 3, 1), Cell('main', 'B', '5'),
               Cell('main', 'Z', '99')]
    texts = {}
    for i, entry in enumerate(entries):
        try:
            t = Parser().set_excel_file_path(path).set_entrypoint_cell(entry).get_translation()
            texts[i] = t
            emit('entry', i, digest(t), functions_of(t))
        except Exception as exc:  # noqa
            emit('entry', i, 'EXC', type(exc).__name__, str(exc)[:120])
    # same parser object reused for every entry, in reverse order: same texts
    p = Parser().set_excel_file_path(path)
    for i in reversed(range(len(entries))):
        try:
            emit('reused entry', i, p.set_entrypoint_cell(Cell(*[(0, 3, 3), (1, 2, 0), (0, 4, 0), (1, 3, 1), (0, 1, 4),
                                                                 (0, 25, 98)][i])).get_translation() == texts.get(i))
        except Exception as exc:  # noqa
            emit('reused entry', i, 'EXC', type(exc).__name__)
    results = {}

    def work(i):
        results[i] = Parser().set_excel_file_path(path).get_translation() == whole

    threads = [threading.Thread(target=work, args=(i,)) for i in range(6)]
    [t.start() for t in threads]
    [t.join() for t in threads]
    emit('threads', sorted(results.items()))
    out = os.path.join(tmp, 'out.py')
    Parser().set_excel_file_path(path).write_translation(out)
    with open(out, encoding='utf-8') as f:
        emit('file equals text', f.read() == whole)
    ex = Executor().set_executed_class(class_file=out)
    for sheet, rows, cols in ((0, 5, 5), (1, 2, 4)):
        for r in range(rows):
            vals = []
            for c in range(cols):
                try:
                    vals.append(repr(ex.get_cell(Cell(sheet, c, r)).value))
                except Exception as exc:  # noqa
                    vals.append('EXC ' + type(exc).__name__)
            emit('values', sheet, r, vals)
    ex.set_cells([Cell('main', 'A', '1', value=100), Cell('main', 'B', '2', value=5)])
    emit('after override', [repr(ex.get_cell(Cell(0, c, 0)).value) for c in range(5)],
         [repr(ex.get_cell(Cell(1, c, 0)).value) for c in range(4)])


if __name__ == '__main__':
    part1()
    part2()
    print('\n'.join(OUT))
    print('DIGEST', hashlib.sha256('\n'.join(OUT).encode()).hexdigest())
