"""Equivalence demo for the runtime clean-up of set_arguments / _cell_preprocessor (C08: a cell's value does
not depend on query history, overrides are not changed by querying).

Exercises BOTH copies of the runtime helper: the AbstractExcelInPython class (subclassed here) and the class
text generated from the template (loaded from a translated workbook). Prints a deterministic digest.
"""
import warnings
warnings.simplefilter("ignore")

import hashlib
import itertools
import os
import random
import re
import shutil
import tempfile

from openpyxl import Workbook

from excel2pycl import Parser, Executor, Cell
from excel2pycl.src.object_loader import load_module
from excel2pycl.src.utilities.abstract_excel_in_python_class import AbstractExcelInPython

TMP = tempfile.mkdtemp(prefix='t33r4_')


def h(text):
    return hashlib.sha256(text.encode('utf-8')).hexdigest()[:16]


def show(value):
    return f'{type(value).__name__}:{value!r}'


def run(label, fn):
    try:
        print(label, 'OK', show(fn()))
    except BaseException as e:  # noqa
        print(label, 'EXC', type(e).__name__, str(e).replace(TMP, '<tmp>')[:160])


def functions_of(text):
    return dict(re.findall(r'^    def (_\d+_\d+_\d+(?:_\d+)?)\(self\):\n        return (.*)$', text, re.M))


# ---------------------------------------------------------------- a generated class (template copy)
wb = Workbook()
ws = wb.active
ws.title = 'main'
for row in [
    [1, '=A1+1', '=SUM(A1:A4)', '=SUM(A1:B3)', "=other!A1*2"],
    [2, '=B1*A2', '=SUM(A1:D1)', '=VLOOKUP(3, A1:B4, 2, FALSE())', '=other!B2+E1'],
    [3, '=IF(A3>2, B2, A1)', '=SUMIF(A1:A4, ">1")', '=MAX(A:A)', '=SUM(other!A1:A2)'],
    [4, 'text', '=COUNT(A1:B4)', '=AVERAGE(A1:A4)', '=IF(A5=0, "empty", "full")'],
    [None, '=A5', '=G9', '=MIN(B1:B3)+C1', '=E1+E2+E3'],
]:
    ws.append(row)
ws2 = wb.create_sheet('other')
for row in [[10, '=A1+main!A1'], ['=B1+1', '=SUM(main!A1:A4)+A2']]:
    ws2.append(row)
xlsx = os.path.join(TMP, 'book.xlsx')
wb.save(xlsx)
wb.close()
text = Parser().set_excel_file_path(xlsx).get_translation()
print('cell functions', len(functions_of(text)), h(repr(sorted(functions_of(text).items()))))
out_py = os.path.join(TMP, 'book.py')
with open(out_py, 'w', encoding='utf-8') as f:
    f.write(text)
Generated = load_module(out_py).ExcelInPython


# ---------------------------------------------------------------- a hand-written subclass (class copy)
class Hand(AbstractExcelInPython):
    calls = []

    def _0_0_0(self):
        Hand.calls.append('_0_0_0')
        return 5

    def _0_1_0(self):
        Hand.calls.append('_0_1_0')
        return self._cell_preprocessor('_0_0_0') * 2

    def _0_2_0(self):
        return self._cell_preprocessor('_0_1_0') + self._cell_preprocessor('_0_9_9')

    def _0_3_0(self):
        return [self._cell_preprocessor('_0_0_0'), self._cell_preprocessor('_0_3_1')]

    def _0_3_1(self):
        raise ZeroDivisionError('boom')

    def _0_4_0(self):
        return None

    _0_5_0 = 0
    _0_6_0 = 'not callable'
    _0_7_0 = staticmethod(lambda: 1)


UIDS = ['_0_0_0', '_0_1_0', '_0_2_0', '_0_3_0', '_0_3_1', '_0_4_0', '_0_5_0', '_0_6_0', '_0_7_0', '_0_9_9',
        '_1_0_0', '_1_1_1', '_0_4_4', '_0_2_4', '', 'x', '_titles', '_arguments', '_sheets_size', '_sum', '_today',
        'get_titles', 'set_arguments', '_cell_preprocessor', 'exec_function_in', 'EmptyCell', '__init__', '__doc__',
        '__module__', 'calls', None, 0, ('a',), ['unhashable'], {'un': 'hashable'}]

ARGUMENT_SETS = [
    ('none', []),
    ('one', [{'uid': '_0_0_0', 'value': 100}]),
    ('falsy', [{'uid': '_0_0_0', 'value': 0}, {'uid': '_0_1_0', 'value': ''}, {'uid': '_0_4_0', 'value': False},
               {'uid': '_1_0_0', 'value': None}]),
    ('unknown cells', [{'uid': '_0_9_9', 'value': 7}, {'uid': 'x', 'value': 'ex'}, {'uid': None, 'value': 'none-key'}]),
    ('duplicates last wins', [{'uid': '_0_0_0', 'value': 1}, {'uid': '_0_0_0', 'value': 2}]),
    ('helper names', [{'uid': '_sum', 'value': 's'}, {'uid': '_titles', 'value': 't'}]),
    ('extra keys', [{'uid': '_0_0_0', 'value': 9, 'title': 0, 'column': 0, 'row': 0}]),
    ('callable value', [{'uid': '_0_0_0', 'value': len}]),
]
BAD_ARGUMENTS = [
    ('missing both', [{'uid': '_0_0_0', 'value': 1}, {}]),
    ('missing value', [{'uid': '_0_1_0', 'value': 1}, {'uid': '_0_0_0'}]),
    ('missing uid', [{'value': 3}]),
    ('unhashable uid', [{'uid': '_0_1_0', 'value': 1}, {'uid': [], 'value': 1}]),
    ('not dicts', [1, 2]),
    ('tuples', [('uid', 'value')]),
    ('None', None),
    ('int', 5),
    ('string', 'ab'),
    ('dict', {'uid': '_0_0_0', 'value': 1}),
]


def args_repr(inst):
    return sorted(((repr(k), show(v)) for k, v in inst._arguments.items()))


for cls in (Hand, Generated):
    name = cls.__name__
    print('=====', name)
    run(f'{name} ctor default', lambda: args_repr(cls()))
    run(f'{name} ctor None', lambda: args_repr(cls(None)))
    run(f'{name} ctor list', lambda: args_repr(cls([{'uid': 'a', 'value': 1}])))
    run(f'{name} ctor bad', lambda: args_repr(cls([{}])))
    run(f'{name} ctor gen', lambda: args_repr(cls({'uid': str(i), 'value': i} for i in range(3))))
    for label, arguments in ARGUMENT_SETS:
        inst = cls()
        Hand.calls.clear()
        before = inst._arguments
        res = inst.set_arguments(arguments)
        print(f'{name} set {label}:', res, 'new dict', before is not inst._arguments, 'old untouched', before == {},
              args_repr(inst))
        snapshot = args_repr(inst)
        for round_ in range(2):
            for uid in UIDS:
                run(f'{name} [{label}] pre {uid!r}', lambda: inst._cell_preprocessor(uid))
                run(f'{name} [{label}] exec {uid!r}', lambda: inst.exec_function_in(uid))
        print(f'{name} [{label}] overrides unchanged by queries', snapshot == args_repr(inst),
              'sizes', inst.get_sheets_size(), 'titles', inst.get_titles(), 'calls', h(repr(Hand.calls)), len(Hand.calls))
        # instance attributes shadow class functions, falsy ones mean "empty"
        inst.__dict__['_0_1_0'] = lambda self: 'from instance'
        inst.__dict__['_0_2_0'] = 0
        inst.__dict__['_0_8_8'] = lambda self: self._cell_preprocessor('_0_0_0')
        inst.__dict__['_0_0_1'] = None
        for uid in ['_0_1_0', '_0_2_0', '_0_8_8', '_0_0_1', '_0_0_0', '_0_3_0']:
            run(f'{name} [{label}] shadow {uid!r}', lambda: inst._cell_preprocessor(uid))
    # accumulation over several calls; failing calls leave the overrides as they were
    inst = cls()
    seen = [inst._arguments]
    for label, arguments in ARGUMENT_SETS + BAD_ARGUMENTS + ARGUMENT_SETS[1:3]:
        before_obj, before = inst._arguments, args_repr(inst)
        run(f'{name} accumulate {label}', lambda: inst.set_arguments(arguments))
        print('   ->', args_repr(inst), 'replaced', inst._arguments is not before_obj,
              'old kept', args_repr(type('S', (), {'_arguments': before_obj})) == before)
        seen.append(inst._arguments)
        run(f'{name} accumulate {label} value', lambda: [inst.exec_function_in(u) for u in ('_0_0_0', '_0_1_0', '_0_2_0')])
    print(name, 'distinct dict objects', len({id(d) for d in seen}) == len(seen))

# ---------------------------------------------------------------- through the Executor facade: orders and histories
base = Executor().set_executed_class(class_file=out_py)
reference = {(t, c, r): show(base.get_cell(Cell(t, c, r)).value) for t in range(2) for r in range(7) for c in range(7)}
print('reference', h(repr(sorted(reference.items()))))
overrides = [Cell('main', 'A', '1', value=50), Cell('other', 'A', '1', value=0.5), Cell(0, 6, 8, value='far'),
             Cell(0, 0, 4, value=0), Cell(0, 1, 3, value=None)]
for seed in range(6):
    ex = Executor().set_executed_class(class_object=Generated)
    rnd = random.Random(seed)
    keys = sorted(reference)
    rnd.shuffle(keys)
    ok = all(show(ex.get_cell(Cell(*k)).value) == reference[k] for k in keys[:40])
    ex.set_cells([Cell(c.title, c.column, c.row, value=c.value) for c in overrides])
    first = {k: show(ex.get_cell(Cell(*k)).value) for k in keys}
    rnd.shuffle(keys)
    second = {k: show(ex.get_cell(Cell(*k)).value) for k in keys}
    grid0, grid1 = ex.get_sheet(0), ex.get_sheet('other')
    third = {(c.title, c.column, c.row): show(c.value) for g in (grid0, grid1) for row in g for c in row}
    listed = {(c.title, c.column, c.row): show(c.value) for c in ex.get_cells([Cell(*k) for k in keys])}
    print('history', seed, ok, first == second, all(third[k] == first[k] for k in third if k in first), listed == first,
          h(repr(sorted(first.items()))), len(grid0), len(grid0[0]), len(grid1), len(grid1[0]),
          sorted(ex.get_executed_class()._arguments.items(), key=repr), ex._sheets_size)

shutil.rmtree(TMP)
print('tmp removed', not os.path.exists(TMP))
