"""Equivalence demo for r2 (_by_operator dispatch table, _compare as a pipeline of casts).

Calls _by_operator and _compare of BOTH runtime copies (the AbstractExcelInPython class and a class
generated from the template in context.py) on a large product of operand values and operators, and
evaluates comparison formulas of a translated workbook with and without overrides.
"""
import datetime
import decimal
import fractions
import hashlib
import itertools
import os
import shutil
import sys
import tempfile

from openpyxl import Workbook

from excel2pycl import Parser, Executor, Cell
from excel2pycl.src.object_loader import load_module
from excel2pycl.src.utilities.abstract_excel_in_python_class import AbstractExcelInPython


class Runtime(AbstractExcelInPython):
    pass


class OddDate(datetime.date):
    """A date subclass, still not a datetime."""


class Textual:
    def __str__(self):
        return 'abc'

    def __repr__(self):
        return 'Textual()'


def describe(value):
    return f'{type(value).__name__}:{value!r}'


def call(function, *args):
    try:
        return describe(function(*args))
    except BaseException as exception:  # noqa
        return f'!{type(exception).__name__}:{exception}'


def values_for(instance):
    return [
        0, 1, -1, 2, 7, 10 ** 18, 10 ** 400, -10 ** 400,
        0.0, -0.0, 0.5, 1.0, 1.5, 2.5, -2.5, 1e308, float('inf'), float('-inf'), float('nan'),
        True, False, None, instance.EmptyCell(), instance.EmptyCell(3),
        '', ' ', 'abc', 'ABC', 'abd', '0', '1', '12', '012', ' 12 ', '1.5', '1,5', '1e3', '-1', '+2', 'nan', 'inf',
        'True', '2024-02-29', '2024-02-29 00:00:00', '١٢', '1_000',
        datetime.date(2024, 2, 29), datetime.date(2024, 3, 1), datetime.date(1, 1, 1), OddDate(2024, 2, 29),
        datetime.datetime(2024, 2, 29), datetime.datetime(2024, 2, 29, 12, 30), datetime.datetime(9999, 12, 31),
        datetime.time(1, 2), datetime.timedelta(days=1),
        decimal.Decimal('1.5'), decimal.Decimal('NaN'), decimal.Decimal('Infinity'), fractions.Fraction(3, 2),
        1 + 2j, b'12', bytearray(b'7'), [], [1], [1, 2], (), (1,), {}, {1}, Textual(), object,
    ]


OPERATORS = ['>=', '>', '<=', '<', '==', '!=']
ODD_OPERATORS = ['=', '<>', '', ' ==', '=>', 'x', None, 0, 5, 1.5, True, ('>',), ['>='], {'>': 1}, b'>']


def exercise(tag, instance, lines):
    values = values_for(instance)
    for operator in OPERATORS:
        for left, right in itertools.product(values, repeat=2):
            lines.append(f'{tag} C {operator} {describe(left)} {describe(right)} -> '
                         f'{call(instance._compare, operator, left, right)}')
    sample = values[::3]
    for operator in OPERATORS:
        for left, right in itertools.product(sample, repeat=2):
            lines.append(f'{tag} B {operator} {describe(left)} {describe(right)} -> '
                         f'{call(instance._by_operator, operator, left, right)}')
    for operator in ODD_OPERATORS:
        for left, right in [(1, 2), ('a', 1), (None, None), (datetime.date(2024, 1, 1), 'x'), ([], 1.5)]:
            lines.append(f'{tag} C? {operator!r} {describe(left)} {describe(right)} -> '
                         f'{call(instance._compare, operator, left, right)}')
            lines.append(f'{tag} B? {operator!r} {describe(left)} {describe(right)} -> '
                         f'{call(instance._by_operator, operator, left, right)}')
    # the operands are not changed by a comparison
    probe = [datetime.date(2024, 2, 29), 'x']
    call(instance._compare, '>=', probe[0], probe[1])
    lines.append(f'{tag} operands afterwards {describe(probe)}')


FORMULAS = [
    '=A1=A2', '=A1<>A2', '=A1<A2', '=A1>A2', '=A1<=A2', '=A1>=A2', '=A1=B1', '=B1=B2', '=B1<B2', '=B1>=B2',
    '=C1=0', '=C1=""', '=C1<>""', '=C1<A1', '=C1>=A3', '=C1=C2', '=D1=1', '=D1>D2', '=D1=TRUE', '=D3>A1', '=D3=D3',
    '=D3<E3', '=D3>=E3', '=D3<>B1', '=D3<B3', '=E1=E2', '=E1<E2', '=E2=0.3', '=E1+E1+E1=E2', '=A1>A2=TRUE',
    '=A1=4=TRUE', '=(A1>A2)=(A2<A1)', '=A1*2>=A2+5.5', '=A1&""="4"', '=B2=12', '=B2>11.5', '=B2<"2"', '="a"<"B"',
    '="a"="A"', '="10"<"9"', '=10<9', '=1.5>1', '=1>1.5', '=1.5=1.5', '=10%<0.2', '=-A1<-A2', '=A3<0', '=A3<C1',
    '=IF(A1>=A2,"ge","lt")', '=IF(C1="","blank","filled")', '=IF(D3>E3,1,0)+IF(B1<>B2,10,20)', '=SUM(A1:A3)>=3.5',
    '=MAX(A1:A3)=A1', '=DATE(2024,2,29)=D3', '=DATE(2024,3,1)>D3', '=D3<DATE(2024,2,29)',
]


def fill(ws):
    ws['A1'] = 4
    ws['A2'] = 2.5
    ws['A3'] = -3
    ws['B1'] = 'abc'
    ws['B2'] = '12'
    ws['B3'] = '2024-03-01'
    ws['D1'] = True
    ws['D2'] = False
    ws['D3'] = datetime.datetime(2024, 2, 29)
    ws['E1'] = 0.1
    ws['E2'] = 0.3
    ws['E3'] = datetime.datetime(2024, 2, 29, 6, 0)
    for index, formula in enumerate(FORMULAS):
        ws.cell(row=index + 1, column=7, value=formula)


def main():
    directory = tempfile.mkdtemp(prefix='r2demo')
    lines = []
    try:
        book_path = os.path.join(directory, 'book.xlsx')
        wb = Workbook()
        ws = wb.active
        ws.title = 'Sheet1'
        fill(ws)
        wb.save(book_path)
        class_path = os.path.join(directory, 'book.py')
        Parser().set_excel_file_path(book_path).write_translation(class_path)

        exercise('abstract', Runtime(), lines)
        exercise('generated', load_module(class_path).ExcelInPython(), lines)

        overrides_list = [
            [],
            [Cell('Sheet1', 'A', '1', value=2.5), Cell('Sheet1', 'C', '1', value='')],
            [Cell(0, 0, 0, value='4'), Cell(0, 1, 0, value=12), Cell(0, 2, 0, value=datetime.datetime(2030, 1, 1))],
            [Cell(0, 3, 2, value=datetime.date(2024, 2, 29)), Cell(0, 4, 2, value='2024-02-29 00:00:00'),
             Cell(0, 0, 2, value=None), Cell(0, 4, 0, value=0.30000000000000004)],
            [Cell(0, 0, 0, value=[1]), Cell(0, 0, 1, value=10 ** 400), Cell(0, 1, 1, value=float('nan'))],
        ]
        for number, overrides in enumerate(overrides_list):
            executor = Executor().set_executed_class(class_file=class_path)
            if overrides:
                executor.set_cells(overrides)
            for index, formula in enumerate(FORMULAS):
                result = call(lambda: executor.get_cell(Cell(0, 6, index)).value)
                lines.append(f'E{number} {formula} => {result}')
    finally:
        shutil.rmtree(directory, ignore_errors=True)

    for index, line in enumerate(lines):
        if index % 97 == 0 or line.startswith('E') or '?' in line.split(' ')[1] or 'afterwards' in line:
            print(line)
    print('LINES', len(lines))
    print('DIGEST', hashlib.sha256('\n'.join(lines).encode('utf-8')).hexdigest())
    return 0


if __name__ == '__main__':
    sys.exit(main())
