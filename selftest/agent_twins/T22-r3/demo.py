"""Equivalence demo for r3: runtime aggregate helpers (C11).

_flatten_list / _find_error_in_list / _count / _min / _max / _count_blank (and the helpers
built on them) are called directly on both copies of the runtime class with many inputs,
then a workbook full of aggregates over every kind of area is translated and evaluated.
"""
import warnings
warnings.simplefilter('ignore')

import datetime
import hashlib
import itertools
import os
import random
import shutil
import tempfile

from openpyxl import Workbook

from excel2pycl import Parser, Executor, Cell, load_module
from excel2pycl.src.utilities.abstract_excel_in_python_class import AbstractExcelInPython

LINES = []


def out(*parts):
    line = ' '.join(str(p) for p in parts)
    LINES.append(line)
    print(line)


def show(value):
    if isinstance(value, datetime.datetime):
        return 'dt:' + value.isoformat()
    if isinstance(value, list):
        return '[' + ', '.join(show(v) for v in value) + ']'
    if isinstance(value, tuple):
        return '(' + ', '.join(show(v) for v in value) + ')'
    return f'{type(value).__name__}:{value!r}'


def call(fn, *args, **kwargs):
    try:
        return show(fn(*args, **kwargs))
    except Exception as exc:  # noqa
        return f'EXC:{type(exc).__name__}:{exc}'


class Hand(AbstractExcelInPython):
    pass


class Odd:
    """Equal to an error marker, yet falsy."""

    def __eq__(self, other):
        return other == '#N/A'

    def __bool__(self):
        return False

    def __repr__(self):
        return 'Odd()'


def atoms(rt):
    E = rt.EmptyCell
    return [0, 1, -1, 2.5, -0.0, 1e308, 10 ** 30, True, False, None, '', ' ', 'abc', '12', '-3', '4.5', '٣',
            E(), '#NUM!', '#DIV/0!', '#N/A', '#NAME?', '#NULL!', '#REF!', '#VALUE!', '#ERROR!', '#DIV0!', '#n/a',
            datetime.datetime(2024, 2, 29), datetime.date(2020, 1, 1), float('inf'), 3 + 0j, b'#N/A', Odd()]


def direct(rt, label):
    A = atoms(rt)
    E = rt.EmptyCell

    # _flatten_list
    nests = [
        [], [[]], [[], []], [1, [2, [3, [4, [5]]]]], [[1, 2], [3, 4]], [[[1]], [[2]], 3], [(1, [2]), [3]],
        ([1], [2, [3]]), [[E(), None], ['', [True]]], [A], [A, [A[:5], [A[5:9]]]], 'ab', [['ab', ['cd']]],
        (i for i in [[1], 2]), {1: 2}, [range(3)], 5, None, [[[[[[[[[[7]]]]]]]]]],
    ]
    for n, nest in enumerate(nests):
        out(label, 'flatten', n, call(rt._flatten_list, nest))
    deep = []
    for _ in range(200):
        deep = [deep, 1]
    out(label, 'flatten deep', call(lambda: len(rt._flatten_list(deep))))
    shared = [1, 2]
    subject = [shared, [shared]]
    flat = rt._flatten_list(subject)
    flat.append(9)
    out(label, 'flatten fresh', subject, shared, flat)

    # _find_error_in_list
    for n, a in enumerate(A):
        out(label, 'finderr1', n, call(rt._find_error_in_list, [a]), call(rt._find_error_in_list, [0, 'x', a, '#REF!']))
    for n, lst in enumerate([[], ['#REF!', '#NUM!'], ['#NUM!', '#REF!'], ('a', '#N/A'), iter(['#NULL!']), '#N/A',
                             ['#N/A '], [['#N/A']], None, 5, [Odd(), '#NUM!'], {'#NUM!': 1}]):
        out(label, 'finderr', n, call(rt._find_error_in_list, lst))

    # _min / _max / _count_blank / _sum / _average / _and / _or / _ifs / _iferror on many lists
    rnd = random.Random(11)
    lists = [[], [1], [1.5, 2], [True, False], ['1', 2], [None, ''], [E()], [E(), 3], [0, -0.0], [-0.0, 0],
             [2, 2.0], [2.0, 2], ['#N/A', 1], [1, '#N/A', '#NUM!'], [Odd(), 1, 5], [Odd()], ['', '', None, E(), 0],
             [float('nan'), 1], [1, float('nan')], [10 ** 30, 1e30], (3, 1, 2), [datetime.datetime(2020, 1, 1)],
             [[1, 2]], ['a', 'b'], [b'', ''], None, 7]
    for _ in range(120):
        lists.append([rnd.choice(A) for _ in range(rnd.randint(0, 7))])
    for n, lst in enumerate(lists):
        out(label, 'agg', n, 'min', call(rt._min, lst), 'max', call(rt._max, lst), 'blank', call(rt._count_blank, lst),
            'sum', call(rt._sum, lst), 'avg', call(rt._average, lst), 'and', call(rt._and, lst),
            'or', call(rt._or, lst), 'ifs', call(rt._ifs, lst),
            'iferror', call(rt._iferror, lambda: lst[0], 'fallback'))
    out(label, 'gen', call(rt._min, iter([3, 1])), call(rt._max, iter([3, 1])), call(rt._count_blank, iter(['', 1])))

    # _count
    pools = [[], [1], [1, 'a', True], ['5', '5.5', ' 6', '٣'], [True, False], [E(), None, ''],
             [datetime.datetime(2020, 1, 1), 2], A]
    matrices = [[], [[]], [[1, 2], [3, 'x']], [[[1, E()]], [[True, '7']]], [[A]], [[datetime.datetime(2021, 1, 1)]]]
    n = 0
    for m, a, c in itertools.product(matrices, pools, pools):
        out(label, 'count', n, call(rt._count, m, a, c))
        n += 1
    for bad in [(None, [], []), ([], None, []), ([], [], None), ([], (1, 2), []), ([], [], (1, 2)),
                ([[1]], (True, '3'), [2]), ((), [], []), ([1, [2]], [], []), (5, [], [])]:
        out(label, 'count bad', call(rt._count, *bad))
    for _ in range(60):
        m = [[[rnd.choice(A) for _ in range(rnd.randint(0, 3))] for _ in range(rnd.randint(0, 3))]
             for _ in range(rnd.randint(0, 3))]
        a = [rnd.choice(A) for _ in range(rnd.randint(0, 4))]
        c = [rnd.choice(A) for _ in range(rnd.randint(0, 4))]
        out(label, 'count rnd', call(rt._count, m, a, c))


def build_workbook(path):
    wb = Workbook()
    ws = wb.active
    ws.title = 'Data'
    grid = [
        [1, 2.5, 'text', True, None, -4],
        [10, None, '7', False, '', 0.5],
        ['x', 3, 4, None, 100, -0.25],
        [None, None, None, None, None, None],
        [5, '', 6, 7, 8, 9],
    ]
    for row in grid:
        ws.append(row)
    f = wb.create_sheet('F')
    areas = {
        'row': 'Data!A1:F1', 'col': 'Data!A1:A5', 'rect': 'Data!B2:E5', 'whole': 'Data!C:C', 'whole2': 'Data!A:B',
        'single': 'Data!F3:F3', 'blankrow': 'Data!A4:F4', 'all': 'Data!A1:F5',
    }
    formulas = []
    for fn in ('SUM', 'AVERAGE', 'MIN', 'MAX', 'COUNT', 'COUNTBLANK', 'AND', 'OR'):
        for name, area in areas.items():
            formulas.append((f'{fn} {name}', f'={fn}({area})'))
        formulas.append((f'{fn} multi', f'={fn}(Data!A1:F1, Data!A2:F2, Data!A3:F5)'))
        formulas.append((f'{fn} twice', f'={fn}(Data!A1:C3, Data!A1:C3)'))
        formulas.append((f'{fn} scalars', f'={fn}(Data!A1:C3, 5, Data!F1, 2.5)'))
        formulas.append((f'{fn} local', f'={fn}(H1:H3, H5)'))
        formulas.append((f'{fn} nested', f'={fn}(SUM(Data!A1:A2), MAX(Data!F1:F5), 1)'))
    formulas += [
        ('split1', '=SUM(Data!A1:F5)-SUM(Data!A1:C5)-SUM(Data!D1:F5)'),
        ('split2', '=SUM(Data!A1:F2, Data!A3:F5)-SUM(Data!A1:F5)'),
        ('split3', '=COUNT(Data!A1:F5)-COUNT(Data!A1:F2)-COUNT(Data!A3:F5)'),
        ('literals', '=COUNT(1, "2", "x", TRUE, Data!A1)'),
        ('minerr', '=MIN(H1:H6)'), ('maxerr', '=MAX(H1:H6)'), ('blankerr', '=COUNTBLANK(H1:H6)'),
        ('minempty', '=MIN(Data!A4:F4)'), ('avgempty', '=AVERAGE(Data!A4:F4)'),
        ('iferr', '=IFERROR(MIN(H1:H6), "caught")'),
    ]
    for n, (name, formula) in enumerate(formulas):
        f.cell(row=n + 1, column=1, value=name)
        f.cell(row=n + 1, column=2, value=formula)
    for n, v in enumerate([3, 'n', 4.5, None, -2, '#N/A']):
        f.cell(row=n + 1, column=8, value=v)
    wb.save(path)
    wb.close()
    return [name for name, _ in formulas]


def main():
    tmp = tempfile.mkdtemp(prefix='r3demo')
    try:
        direct(Hand(), 'hand')

        xlsx = os.path.join(tmp, 'book.xlsx')
        out_py = os.path.join(tmp, 'book.py')
        names = build_workbook(xlsx)
        text = Parser().set_excel_file_path(xlsx).get_translation()
        functions = text[text.rindex("return '#VALUE!'"):]
        out('functions', hashlib.sha256(functions.encode()).hexdigest(), len(functions))
        with open(out_py, 'w', encoding='utf-8') as fh:
            fh.write(text)
        direct(load_module(out_py).ExcelInPython(), 'gen')

        ex = Executor().set_executed_class(class_file=out_py)

        def table(label):
            for n, name in enumerate(names):
                out(label, name, call(lambda: ex.get_cell(Cell('F', 1, n)).value))

        table('book')
        ex.set_cells([Cell('Data', 'A', '4', value=1000), Cell('Data', 'C', '9', value=-7), Cell('F', 'H', '6', value=0),
                      Cell('Data', 'C', '1', value=None), Cell('Data', 'E', '1', value='')])
        table('book2')
        ex.set_cells([Cell('Data', 'B', '2', value='#REF!'), Cell('F', 'H', '4', value=True)])
        table('book3')

        out('DIGEST', hashlib.sha256('\n'.join(LINES).encode()).hexdigest())
    finally:
        shutil.rmtree(tmp, ignore_errors=True)


if __name__ == '__main__':
    main()
