"""Equivalence demo for SEARCH (the _search runtime helper, both copies).

(a) SEARCH formulas in a translated workbook (values before and after cell overrides, with MID/LEFT/& around them);
(b) direct calls of _search on the generated class and on the AbstractExcelInPython copy: every searched text of up
    to 3 characters over an alphabet with the wildcard, escape and regex characters, against several texts and every
    start position including the boundary and ill-typed ones.
"""
import sys
sys.dont_write_bytecode = True

import hashlib
import itertools
import os
import shutil
import tempfile
import warnings

warnings.simplefilter('ignore')

from openpyxl import Workbook

from excel2pycl import Parser, Executor, Cell
from excel2pycl.src.object_loader import load_module
from excel2pycl.src.utilities.abstract_excel_in_python_class import AbstractExcelInPython


class Direct(AbstractExcelInPython):
    pass


def show(value):
    if isinstance(value, float):
        return 'float:' + repr(value)
    return type(value).__name__ + ':' + repr(value)


def attempt(function, *args, **kwargs):
    try:
        return show(function(*args, **kwargs))
    except BaseException as error:
        return 'raised ' + type(error).__name__ + ': ' + str(error)


def cell_functions(text):
    marker = "        return '#VALUE!'\n\n"
    return text[text.rindex(marker) + len(marker):]


PAIRS = [
    ('р', 'имбирь'), ('и', 'имбирь'), ('и*ь', 'ИМБИРЬ'), ('МБ?РЬ', 'имбирь'), ('Река', 'Имбирь'), ('м', 'имбирь'),
    (r'\d+', '12356'), ('?ткрыт*р', 'эти открытые двери'), ('п?чему же~?', 'Почему, почему же?'),
    ('П*очему', 'Почему, почему же?'), ('П?очему', 'почему'), (r'П?че\dу', 'поче5у'), ('?мбирь', 'имбирь'),
    ('* ?мбирь', 'консервированный имбирь'), ('a', 'banana'), ('A', 'banana'), ('an', 'bANana'), ('n?n', 'banana'),
    ('a*a', 'banana'), ('*', 'banana'), ('?', 'banana'), ('~?', 'what? why?'), ('~*', '2*3*4'), ('~~', 'a~b'),
    ('~', 'a~b'), ('a~?b', 'a?b'), ('a~*b', 'xa*b'), ('a.c', 'abc a.c'), ('a.?', 'abc a.c'), ('(', 'f(x)'),
    ('(?', 'f(x)'), ('[a]?', 'x[a]y'), ('+', '1+1'), ('+*', '1+1'), ('a|b', 'xb'), ('a|?', 'xb'), ('', 'abc'),
    ('abc', ''), ('abc', 'abc'), ('abcd', 'abc'), ('c', 'abc'), ('?c', 'abc'), ('*c', 'abc'), ('c*', 'abc'),
    ('c?', 'abc'), ('??', 'ab'), ('???', 'ab'), ('a\nb', 'xa\nb'), ('a?b', 'a\nb'), ('a*b', 'a\n\nb'),
    ('İ', 'i̇stanbul İ'), ('ß', 'STRASSE ß'), ('ss?', 'STRASSE'), ('$', 'cost $5'), ('$?', 'cost $5'), ('^', 'a^b'),
    ('^*', 'a^b'), (' ', 'a b'), (' *', 'a b c'), ('~?*', 'is it? yes'), ('*~?', 'is it? yes'), ('?~*', 'a* b*'),
    ('~a', '~a a'), ('~a?', '~ab a'), ('\\', 'a\\b'), ('\\?', 'a\\b'), ('{2}?', 'a{2}b'), ('a{2}?', 'aab'),
]


def build_workbook(path):
    workbook = Workbook()
    sheet = workbook.active
    rows = 0
    for find_text, within_text in PAIRS:
        for start in (None, 1, 2, 3):
            rows += 1
            sheet.cell(row=rows, column=1, value=find_text)
            sheet.cell(row=rows, column=2, value=within_text)
            if start is None:
                sheet.cell(row=rows, column=4, value=f'=SEARCH(A{rows},B{rows})')
            else:
                sheet.cell(row=rows, column=3, value=start)
                sheet.cell(row=rows, column=4, value=f'=SEARCH(A{rows},B{rows},C{rows})')
    extra = ['=SEARCH("na","banana")', '=SEARCH("NA","banana",4)', '=SEARCH("n*","banana",1+2)', '=SEARCH("?a","banana",7)',
             '=SEARCH("a","banana",0)', '=SEARCH("a","banana",6)', '=SEARCH("a","banana",7)',
             '=MID("banana",SEARCH("n","banana"),3)', '=LEFT("banana",SEARCH("n","banana")-1)',
             '=SEARCH("b"&"?","abc")', '=SEARCH(LEFT("nab",2),"banana")&"!"', '=SEARCH("x","banana")',
             '=IFERROR(SEARCH("x","banana"),0)', '=SEARCH(1,"a1b")', '=SEARCH("1",12315,2)', '=SEARCH(A1,A2)',
             '=SEARCH("a","banana",2.5)', '=SEARCH("a*","banana",2.5)', '=SEARCH("a","banana",TRUE)',
             '=SEARCH("a","banana","2")', '=SEARCH("?","")', '=SEARCH("","")', '=SEARCH("a",F1)', '=SEARCH(F1,"abc")']
    for index, formula in enumerate(extra, start=1):
        sheet.cell(row=index, column=5, value=formula)
    workbook.save(path)
    return rows, len(extra)


def direct_calls(instance, lines, label):
    alphabet = ['a', 'B', '?', '*', '~', '.', '(', '\\']
    texts = ['', 'a', 'ab', 'aBa', 'a?b', 'a*b~', 'ba.a(', 'A\\b?', 'b\na', 'x~?*']
    starts = [None, 0, 1, 2, 3, 4, 5, 6, -1, 1.0, 2.5, float('nan'), float('inf'), True, False,
              instance.EmptyCell(), '2', [1]]
    results = []
    for length in range(0, 4):
        for letters in itertools.product(alphabet, repeat=length):
            find_text = ''.join(letters)
            for within_text in texts:
                for start in (starts if length < 3 else starts[:8]):
                    results.append(f'{find_text!r} in {within_text!r} from {show(start)} -> ' + attempt(
                        instance._search, find_text, within_text, start))
    lines.append(f'{label} enumeration count {len(results)} sha256 ' + hashlib.sha256(
        '\n'.join(results).encode()).hexdigest())
    # a sample of the enumeration in clear
    lines.extend(f'{label} {result}' for result in results[::211])
    for find_text, within_text in PAIRS:
        for start in (None, 0, 1, 2, 5, len(within_text), len(within_text) + 1):
            lines.append(f'{label} {find_text!r} in {within_text!r} from {start} -> ' + attempt(
                instance._search, find_text, within_text, start))
    odd = [(1, 'a1', None), ('a', 11, None), (None, 'abc', None), ('a', None, 1), (b'a', 'abc', None),
           ('a', b'abc', None), ('a*', b'abc', None), (b'a*', 'abc', None), ('a', ['a', 'b'], None),
           ('a*', ['a', 'b'], 1), (instance.EmptyCell(), 'abc', None), ('a', instance.EmptyCell(), None),
           ('*(', 'abc', None), ('?)', 'abc', None), ('[*', 'abc', None), ('a{1,*', 'aaa', None),
           ('(?P<n>a)?', 'xab', None), ('(a)|?', 'xb', None), ('*' * 30, 'a' * 30, None), ('?' * 40, 'b' * 39, 1)]
    for find_text, within_text, start in odd:
        lines.append(f'{label} odd {find_text!r} in {within_text!r} from {start} -> ' + attempt(
            instance._search, find_text, within_text, start))


def main():
    lines = []
    directory = tempfile.mkdtemp(prefix='e2p_demo_')
    try:
        workbook_path = os.path.join(directory, 'search.xlsx')
        class_path = os.path.join(directory, 'search_class.py')
        rows, extra = build_workbook(workbook_path)
        Parser().set_excel_file_path(workbook_path).disable_safety_check().write_translation(class_path)
        text = open(class_path, encoding='utf-8').read()
        lines.append('cell functions sha256 ' + hashlib.sha256(cell_functions(text).encode()).hexdigest())
        executor = Executor().set_executed_class(class_file=class_path)
        for row in range(rows):
            lines.append(f'D{row + 1} -> ' + attempt(lambda: executor.get_cell(Cell(0, 3, row)).value))
        for row in range(extra):
            lines.append(f'E{row + 1} -> ' + attempt(lambda: executor.get_cell(Cell(0, 4, row)).value))
        executor.set_cells([Cell(0, 0, 0, value='*Ь'), Cell(0, 1, 5, value='Мимоза'), Cell(0, 2, 1, value=6),
                            Cell(0, 2, 2, value=7), Cell(0, 2, 3, value=0), Cell(0, 0, 60, value='~'),
                            Cell(0, 5, 0, value='b?')])
        for row in range(rows):
            lines.append(f'D{row + 1} after override -> ' + attempt(lambda: executor.get_cell(Cell(0, 3, row)).value))
        for row in range(extra):
            lines.append(f'E{row + 1} after override -> ' + attempt(lambda: executor.get_cell(Cell(0, 4, row)).value))
        direct_calls(load_module(class_path).ExcelInPython(), lines, 'generated')
        direct_calls(Direct(), lines, 'abstract')
    finally:
        shutil.rmtree(directory, ignore_errors=True)
    for line in lines:
        print(line)
    print('lines', len(lines))
    print('digest', hashlib.sha256('\n'.join(lines).encode()).hexdigest())


if __name__ == '__main__':
    main()
