"""
Equivalence demonstration for r4 (_cell_preprocessor of the runtime class, both copies: the str.format template in
context.py and AbstractExcelInPython; look-up order of independent steps changed, dict.get with a default replaced
by an explicit test / try-except, conditional expression replaced by if statements).

1. AbstractExcelInPython subclasses used directly: cell functions on the class, on the instance, set through
   set_arguments; every kind of uid (existing, missing, shadowed, None-valued, helper names, unhashable ...).
2. The same questions asked to a GENERATED class (translated workbook), loaded from the written file and as a class
   object, before and after set_cells.
3. The longest runtime dependency chain that still evaluates (same number of frames per level).
Prints a deterministic digest.
"""
import datetime
import hashlib
import os
import re
import tempfile

from openpyxl import Workbook

from excel2pycl import Parser, Executor, Cell, Context, Excel, CellTranslator, load_module
from excel2pycl.src.utilities.abstract_excel_in_python_class import AbstractExcelInPython

LINES = []
VOLATILE = []  # temporary directory names, replaced in the output


def out(*parts):
    line = ' | '.join(str(p) for p in parts)
    for text in VOLATILE:
        line = line.replace(text, '<tmp>')
    LINES.append(re.sub(r' at 0x[0-9a-fA-F]+', ' at 0x?', line))


def describe(call):
    try:
        return 'ok', call()
    except BaseException as e:  # noqa
        return 'exc', f'{type(e).__module__}.{type(e).__name__}:{e.args!r}'


def show(value):
    return f'{type(value).__name__}:{value!r}'


class NeverTrue:
    """a callable cell function that claims to be false"""

    def __bool__(self):
        return False

    def __call__(self, instance):
        return 'called NeverTrue'


class BoolRaises:
    def __bool__(self):
        raise RuntimeError('no truth value')

    def __call__(self, instance):
        return 'called BoolRaises'


UIDS = ['_0_0_0', '_0_1_0', '_0_2_0', '_0_3_0', '_0_4_0', '_0_5_0', '_0_6_0', '_0_7_0', '_0_8_0', '_0_9_9', '_1_0_0',
        '_0_0_0_0', '', '_', 'x', '_arguments', '_titles', '_sheets_size', '_sum', '_today', '_cell_preprocessor',
        'exec_function_in', 'EmptyCell', 'ExcelInPythonException', '__init__', '__dict__', '__doc__', '__module__',
        'set_arguments', '_instance_lambda', '_instance_none', '_instance_zero', '_instance_text', '_never_true',
        '_bool_raises', '_class_none', '_class_number', '_raises_key_error', '_raises_type_error', '_reads_other',
        '_reads_missing', '_reads_overridden', 5, None, 1.5, True, ('t', 1), ['list'], {'d': 1}, {'set'}]


def make_direct_class():
    class Direct(AbstractExcelInPython):
        def _0_0_0(self):
            return 1

        def _0_1_0(self):
            return self._cell_preprocessor('_0_0_0') + 1

        def _0_2_0(self):
            return 'text'

        def _0_3_0(self):
            return None

        def _0_4_0(self):
            return self.EmptyCell()

        def _0_5_0(self):
            return [self._cell_preprocessor('_0_0_0'), self._cell_preprocessor('_0_9_9')]

        _0_6_0 = staticmethod(lambda: 'static')
        _0_7_0 = classmethod(lambda cls: 'classmethod')
        _0_8_0 = property(lambda self: 'property')
        _class_none = None
        _class_number = 7
        _never_true = NeverTrue()
        _bool_raises = BoolRaises()
        _instance_none = staticmethod(lambda self: 'class level, shadowed by an instance attribute that is None')
        _instance_zero = staticmethod(lambda self: 'class level, shadowed by an instance attribute that is 0')

        def _raises_key_error(self):
            return {}['missing key']

        def _raises_type_error(self):
            return 1 + 'a'

        def _reads_other(self):
            return self.exec_function_in('_0_1_0') * 10

        def _reads_missing(self):
            return self._cell_preprocessor('_nowhere')

        def _reads_overridden(self):
            return ('seen', self._cell_preprocessor('_0_0_0'))

    return Direct


def ask(instance, label):
    for uid in UIDS:
        for method_name in ('_cell_preprocessor', 'exec_function_in'):
            kind, result = describe(lambda: getattr(instance, method_name)(uid))
            if kind == 'ok':
                if isinstance(result, datetime.datetime) and uid == '_today':
                    result = 'a datetime'
                result = show(result)
            out(label, method_name, repr(uid), kind, result)


def direct():
    Direct = make_direct_class()

    instance = Direct()
    ask(instance, 'direct/fresh')

    instance = Direct()
    instance._instance_lambda = lambda self: ('instance lambda', self._cell_preprocessor('_0_1_0'))
    instance._instance_none = None
    instance._instance_zero = 0
    instance._instance_text = 'not callable'
    instance._0_2_0 = lambda self: 'instance shadows class'
    ask(instance, 'direct/instance-attributes')

    arguments = [
        {'uid': '_0_0_0', 'value': 100}, {'uid': '_0_3_0', 'value': None}, {'uid': '_0_9_9', 'value': 0},
        {'uid': '_nowhere', 'value': 'now here'}, {'uid': '_sum', 'value': 'shadowed helper'},
        {'uid': '_arguments', 'value': 'arguments'}, {'uid': '_instance_lambda', 'value': False},
        {'uid': '_bool_raises', 'value': ''}, {'uid': '_raises_key_error', 'value': 'no error'},
        {'uid': 5, 'value': 'five'}, {'uid': None, 'value': 'none'}, {'uid': ('t', 1), 'value': 'tuple'},
        {'uid': True, 'value': 'true'}, {'uid': '', 'value': Direct.EmptyCell()},
    ]
    instance.set_arguments(arguments)
    ask(instance, 'direct/arguments')
    instance.set_arguments([{'uid': '_0_0_0', 'value': -1}, {'uid': '_0_1_0', 'value': 'second round'}])
    ask(instance, 'direct/arguments-twice')

    instance = Direct(arguments)
    ask(instance, 'direct/constructor-arguments')

    class Child(Direct):
        def _0_0_0(self):
            return 'child'

    # only the class's own dictionary is consulted, not the bases
    ask(Child(), 'direct/child')


def generated(tmp):
    wb = Workbook()
    ws = wb.active
    ws.title = 'Main'
    rows = [(1, '=A1+1', 'text', None, '=B1*2', '=SUM(A1:B1;E1)', '=IF(D1=0;"blank";"filled")', '=C1&A1', '=Z9', 5)]
    for row, values in enumerate(rows, start=1):
        for column, value in enumerate(values, start=1):
            if value is not None:
                ws.cell(row, column, value)
    wb.create_sheet('Second')['A1'] = '=Main!B1+Main!Z9'
    path = os.path.join(tmp, 'book.xlsx')
    wb.save(path)
    py = os.path.join(tmp, 'book.py')
    parser = Parser().set_excel_file_path(path)
    parser.write_translation(py)
    text = parser.get_translation()
    start = text.index('    def _cell_preprocessor')
    out('generated', 'helper text is present', text.count('def _cell_preprocessor'), text.count('def exec_function_in'))
    out('generated', 'members', sorted(line.strip() for line in text[text.index('    def _value'):].splitlines()
                                       if line.startswith('    def _')))

    module = load_module(py)
    for label, cls in (('generated/file', module.ExcelInPython), ('generated/object', load_module(py).ExcelInPython)):
        instance = cls()
        ask(instance, label + '/fresh')
        instance._instance_lambda = lambda self: ('instance lambda', self._cell_preprocessor('_0_1_0'))
        instance._instance_none = None
        instance._0_2_0 = lambda self: 'instance shadows class'
        instance._9_9_9 = lambda self: 'only on the instance'
        ask(instance, label + '/instance-attributes')
        instance.set_arguments([{'uid': '_0_0_0', 'value': 100}, {'uid': '_0_3_0', 'value': None},
                                {'uid': '_0_25_8', 'value': 1000}, {'uid': '_sum', 'value': 'shadowed helper'},
                                {'uid': 5, 'value': 'five'}])
        ask(instance, label + '/arguments')

    for label, make in (('executor/file', lambda: Executor().set_executed_class(class_file=py)),
                        ('executor/object', lambda: Executor().set_executed_class(class_object=module.ExcelInPython))):
        executor = make()
        for title in ('Main', 'Second'):
            out(label, title, [[show(c.value) for c in row] for row in executor.get_sheet(title)])
        executor.set_cells([Cell('Main', 'A', '1', value=10), Cell('Main', 'Z', '9', value=0.5),
                            Cell('Main', 'D', '1', value='x'), Cell('Second', 'B', '2', value=None)])
        for title in ('Main', 'Second'):
            out(label, title, 'after set_cells', [[show(c.value) for c in row] for row in executor.get_sheet(title)])
        executor.set_cells([Cell('Main', 'B', '1', value='overridden formula')])
        for title in ('Main', 'Second'):
            kind, result = describe(lambda: [[show(c.value) for c in row] for row in executor.get_sheet(title)])
            out(label, title, 'after second set_cells', kind, result)
        for cell in (Cell(0, 1, 0), Cell('Main', 'B', '1'), Cell(0, 100, 100), Cell(5, 0, 0), Cell('Nope', 'A', '1')):
            kind, result = describe(lambda: show(executor.get_cell(cell).value))
            out(label, 'get_cell', repr(cell), kind, result)


def chains():
    # A1 = 1, A2 = A1+1, A3 = A2+1 ...: cheap to translate, but the evaluation of the last cell recurses through all
    def evaluates(length):
        rows = [[1]] + [[f'=A{r + 1}+1'] for r in range(length)]
        excel = Excel({'data': [rows], 'titles': ['Chain'], 'suspicious_cells': {},
                       'sheets_size': [{'last_column': 1, 'last_row': len(rows)}]})
        context = Context()
        context._titles = excel.get_titles()
        context._sheets_size = excel.get_sheets_size()
        CellTranslator.translate_file(excel, context)
        namespace = {}
        exec(compile(context.build_class(), '<generated>', 'exec'), namespace)
        instance = namespace['ExcelInPython']()
        return describe(lambda: instance.exec_function_in(f'_0_0_{length}'))

    low, high = 1, 1500
    assert evaluates(low)[0] == 'ok' and evaluates(high)[0] != 'ok'
    while high - low > 1:
        middle = (low + high) // 2
        if evaluates(middle)[0] == 'ok':
            low = middle
        else:
            high = middle
    out('CHAIN generated', low, evaluates(low), high, str(evaluates(high)[1])[:80])

    # the same with the class copy
    def evaluates_direct(length):
        namespace = {f'_0_0_{n}': (lambda n: lambda self: self._cell_preprocessor(f'_0_0_{n - 1}') + 1)(n)
                     for n in range(1, length + 1)}
        namespace['_0_0_0'] = lambda self: 1
        cls = type('Chain', (AbstractExcelInPython,), namespace)
        return describe(lambda: cls().exec_function_in(f'_0_0_{length}'))

    low, high = 1, 1500
    assert evaluates_direct(low)[0] == 'ok' and evaluates_direct(high)[0] != 'ok'
    while high - low > 1:
        middle = (low + high) // 2
        if evaluates_direct(middle)[0] == 'ok':
            low = middle
        else:
            high = middle
    out('CHAIN direct', low, evaluates_direct(low), high, str(evaluates_direct(high)[1])[:80])


def main():
    direct()
    with tempfile.TemporaryDirectory() as tmp:
        VOLATILE.append(tmp)
        generated(tmp)
    chains()

    text = '\n'.join(LINES)
    print(f'lines: {len(LINES)}')
    print(f'sha256: {hashlib.sha256(text.encode()).hexdigest()}')
    print('\n'.join(line[:300] for line in LINES))


if __name__ == '__main__':
    main()
