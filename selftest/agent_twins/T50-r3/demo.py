"""Equivalence demo for r3: the runtime helper _date (both copies).  DATE is evaluated directly on a large grid of
years, months and days of every kind (ints, zero / negative / overflowing values, digit strings, bad strings, floats,
booleans, blanks, None) and through a translated workbook (with YEAR / MONTH / DAY inverting it)."""
import datetime
import os
import shutil
import tempfile

from openpyxl import Workbook

from excel2pycl import Parser, Executor, Cell
from excel2pycl.src.utilities.abstract_excel_in_python_class import AbstractExcelInPython


class Direct(AbstractExcelInPython):
    pass


class IntLike:
    def __init__(self, number):
        self.number = number

    def __index__(self):
        return self.number

    def __repr__(self):
        return f'IntLike({self.number})'


def show(value):
    return f'{type(value).__name__}:{value!r}'


def call(instance, *args):
    try:
        return show(instance._date(*args))
    except BaseException as error:  # noqa
        return f'EXC {type(error).__name__}: {error}'


def run(label, instance):
    blank = type(instance).EmptyCell()
    years = [-1, 0, 1, 4, 99, 100, 1899, 1900, 1904, 1999, 2000, 2023, 2024, 2100, 8099, 8100, 9998, 9999, 10000,
             10 ** 12]
    months = [-25, -13, -12, -11, -1, 0, 1, 2, 3, 11, 12, 13, 14, 24, 25, 120, -120, 10 ** 6]
    days = [-1000, -366, -31, -1, 0, 1, 28, 29, 30, 31, 32, 59, 60, 61, 365, 366, 367, 1000, 10 ** 7]
    for year in years:
        for month in months:
            for day in days:
                print(label, year, month, day, '->', call(instance, year, month, day))
    odd = [0, 1, 12, 2024, '2024', '12', '1', '0', '-1', ' 7 ', '+3', '1_0', '1.5', 'abc', '', '١٢', 1.0, 1.5, 2024.0,
           -0.5, float('nan'), float('inf'), True, False, blank, None, [1], (2,), b'12', IntLike(5), 1900, '1899',
           '9999', '10000', '99999999999999999999']
    for year in odd:
        for month in odd:
            for day in (1, '2', 'x', 1.5, blank, None, True):
                print(label, 'ODD', repr(year), repr(month), repr(day), '->', call(instance, year, month, day))
    for day in odd:
        print(label, 'ODDDAY', repr(day), '->', call(instance, 2024, 2, day), call(instance, '2024', '2', day))
    # YEAR / MONTH / DAY invert DATE
    for year in (1900, 1999, 2024, 9999, 50):
        for month in (-14, 0, 1, 2, 12, 13, 30):
            for day in (-40, 0, 1, 29, 31, 400):
                try:
                    value = instance._date(year, month, day)
                except Exception as error:  # noqa
                    value = f'EXC {type(error).__name__}: {error}'
                if isinstance(value, datetime.datetime):
                    back = instance._date(instance._year(value), instance._month(value), instance._day(value))
                    print(label, 'INV', year, month, day, value.isoformat(), back == value)
                else:
                    print(label, 'INV', year, month, day, show(value))


def main():
    run('class', Direct())
    tmp = tempfile.mkdtemp(prefix='t50r3_')
    try:
        xlsx = os.path.join(tmp, 'book.xlsx')
        out_py = os.path.join(tmp, 'book_translation.py')
        wb = Workbook()
        ws = wb.active
        ws.title = 'date'
        rows = [(2022, 10, 10), (100, 10, 10), (10000, 10, 10), (2022, 13, 1), (2022, 30, 1), (2022, -1, 1),
                (2022, -30, 1), (2022, 5, 120), (2022, 5, -44), (2022, 10, -1), (0, 0, 0), (1899, 12, 31),
                (1900, 1, 1), (9999, 12, 31), (9999, 12, 32), (-1, 1, 1), ('2024', '2', '30'), ('x', 1, 1),
                (2024, 'y', 1), (2024, 1, 'z'), (2024, 2, 29), (2023, 2, 29), (2024, 1.5, 1), (None, 1, 1),
                (2024, None, 1), (2024, 1, None), (2000, 0, 0), (2000, 1, 0), (2000, 0, 1)]
        for index, (y, m, d) in enumerate(rows, start=1):
            for column, value in ((1, y), (2, m), (3, d)):
                if value is not None:
                    ws.cell(row=index, column=column, value=value)
            ws.cell(row=index, column=4, value=f'=DATE(A{index}, B{index}, C{index})')
            ws.cell(row=index, column=5, value=f'=YEAR(D{index})')
            ws.cell(row=index, column=6, value=f'=MONTH(D{index})')
            ws.cell(row=index, column=7, value=f'=DAY(D{index})')
            ws.cell(row=index, column=8, value=f'=DATE(YEAR(D{index}), MONTH(D{index}), DAY(D{index}))=D{index}')
        ws['J1'] = '=DATE(2024, 1, 31)'
        ws['J2'] = '=DATE(2024, 1+12, 31-31)'
        ws['J3'] = '=DATE(24, 14, -3)'
        ws['J4'] = '=DATE(2024, 2, 30) - DATE(2024, 3, 1)'
        ws['J5'] = '=DATE(1900, 1, 1) < DATE(1899, 12, 31)'
        wb.save(xlsx)
        Parser().set_excel_file_path(xlsx).write_translation(out_py)
        executor = Executor().set_executed_class(class_file=out_py)
        for row in range(len(rows)):
            for column in range(3, 8):
                try:
                    value = show(executor.get_cell(Cell(0, column, row)).value)
                except Exception as error:  # noqa
                    value = f'EXC {type(error).__name__}: {error}'
                print('book', row + 1, column + 1, '->', value)
        for row in range(5):
            try:
                value = show(executor.get_cell(Cell('date', 'J', str(row + 1))).value)
            except Exception as error:  # noqa
                value = f'EXC {type(error).__name__}: {error}'
            print('book J', row + 1, '->', value)
        executor.set_cells([Cell('date', 'A', '1', value='1999'), Cell('date', 'B', '2', value=-10),
                            Cell('date', 'C', '4', value='oops')])
        for row in range(4):
            for column in range(3, 8):
                try:
                    value = show(executor.get_cell(Cell(0, column, row)).value)
                except Exception as error:  # noqa
                    value = f'EXC {type(error).__name__}: {error}'
                print('book2', row + 1, column + 1, '->', value)
        run('template', executor.get_executed_class())
    finally:
        shutil.rmtree(tmp, ignore_errors=True)


if __name__ == '__main__':
    main()
