"""Equivalence demo for r1 (C09): Parser facade change tracking + Context sub-cell bookkeeping / class building.

Prints a deterministic digest; must be identical on the unchanged and on the refactored tree.
"""
import datetime
import hashlib
import os
import shutil
import sys
import tempfile
import threading

from openpyxl import Workbook

from excel2pycl import Parser, Executor, Cell
from excel2pycl.src.context import Context

OUT = []


def emit(*parts):
    OUT.append(' | '.join(str(p) for p in parts))


def digest(text):
    if text is None:
        return 'None'
    return f'{len(text)}:{hashlib.sha256(text.encode("utf-8")).hexdigest()[:20]}'


def attempt(label, fn):
    try:
        result = fn()
    except BaseException as e:  # noqa
        emit(label, 'EXC', type(e).__name__, str(e)[:160])
        return None
    emit(label, 'OK', result)
    return result


def functions_part(text):
    """Only the generated functions (the part after the runtime template) and the header data."""
    marker = "        return '#VALUE!'\n"
    head = [line for line in text.splitlines() if 'self._titles: Dict[str, int] =' in line
            or 'self._sheets_size: List[Dict[str, int]] =' in line]
    return '\n'.join(head) + '\n' + text[text.rindex(marker) + len(marker):]


def build_workbooks(tmp):
    paths = {}

    # workbook A: several sheets, many functions that create sub cells, duplicates of sub expressions in a cell
    wb = Workbook()
    ws = wb.active
    ws.title = 'Main'
    rows = [
        [1, 2, 3, '=SUM(A1:C1)', '=SUM(A1:C1)+SUM(A1:C1)', '=SUM(A1:C1)+SUM(A1:B1)+SUM(A1:C1)'],
        [4.5, 'text', True, '=IF(A2>4,"big","small")', '=MIN(A1:C2)', '=MAX(A1:C2)+MIN(A1:C2)+MAX(A1:C2)'],
        [None, 7, datetime.datetime(2024, 2, 29, 12, 30), '=VLOOKUP(4.5,A1:C2,2,0)', '=MATCH(2,A1:C1,0)',
         '=SUMIFS(A1:A2,B1:B2,">1")'],
        ['=Second!A1+1', '=COLUMN()', '=COLUMN(B1)', '=AND(A1>0,B1>0,A1>0)', '=OR(A1>5,B1>5)',
         '=INDEX(A1:C2,2,1)+INDEX(A1:C2,2,1)'],
        ['=IFS(A1>89,"A",A1>0,"B")', '=COUNTBLANK(A1:C3)', '=AVERAGEIFS(A1:A2,B1:B2,">1")',
         '=CONCATENATE("a","b{}","%s")', '=LEFT("hello",2)', '=IFERROR(1/0,"err")'],
    ]
    for r in rows:
        ws.append(r)
    ws2 = wb.create_sheet('Second')
    ws2.append([10, '=Main!D1*2', '=SUM(Main!A1:C1)+SUM(A1:A1)'])
    ws2['E7'] = 'far'
    wb.create_sheet('Empty')
    paths['A'] = os.path.join(tmp, 'a.xlsx')
    wb.save(paths['A'])

    # workbook B: a different workbook (the path change must change the result)
    wb = Workbook()
    ws = wb.active
    ws.title = 'Main'
    ws.append([5, 6, '=A1*B1', '=SUM(A1:B1)'])
    paths['B'] = os.path.join(tmp, 'b.xlsx')
    wb.save(paths['B'])

    # workbook C: suspicious (python-like) content
    wb = Workbook()
    ws = wb.active
    ws.append([1, 'os.system(1)', '=A1+1', 'eval(x)'])
    paths['C'] = os.path.join(tmp, 'c.xlsx')
    wb.save(paths['C'])

    # workbook D: circular reference and a syntax error
    wb = Workbook()
    ws = wb.active
    ws.append(['=B1', '=A1', 3])
    paths['D'] = os.path.join(tmp, 'd.xlsx')
    wb.save(paths['D'])

    wb = Workbook()
    ws = wb.active
    ws.append([1, '=SUM(A1', 3])
    paths['E'] = os.path.join(tmp, 'e.xlsx')
    wb.save(paths['E'])

    # totally empty workbook
    wb = Workbook()
    paths['F'] = os.path.join(tmp, 'f.xlsx')
    wb.save(paths['F'])
    return paths


def facade_part(tmp, paths):
    emit('== facade: nothing set')
    p = Parser()
    attempt('no path get', lambda: digest(p.get_translation()))
    attempt('no path write', lambda: p.write_translation(os.path.join(tmp, 'never.py')) is p)
    emit('never.py exists', os.path.exists(os.path.join(tmp, 'never.py')))
    attempt('empty path', lambda: digest(Parser().set_excel_file_path('').get_translation()))
    attempt('missing file', lambda: digest(Parser().set_excel_file_path(os.path.join(tmp, 'nope.xlsx'))
                                             .get_translation()))

    emit('== facade: whole file, repeated calls, writes')
    p = Parser()
    emit('chain returns self', p.set_excel_file_path(paths['A']) is p, p.enable_safety_check() is p,
         p.disable_safety_check() is p, p.enable_safety_check() is p)
    t1 = p.get_translation()
    t2 = p.get_translation()
    emit('A whole', digest(t1), 'same object on repeat', t1 is t2)
    emit('A functions', digest(functions_part(t1)))
    for line in functions_part(t1).splitlines():
        emit('  A>', line)
    out1 = os.path.join(tmp, 'out1.py')
    emit('write returns self', p.write_translation(out1) is p)
    with open(out1, encoding='utf-8') as f:
        emit('file equals text', f.read() == t1)
    emit('after write same object', p.get_translation() is t1)

    emit('== facade: entry cells')
    entries = [Cell('Main', 'D', '1'), Cell('Main', 'F', '2'), Cell(0, 0, 3), Cell('Second', 'C', '1'),
               Cell('Main', 'A', '3'), Cell('Main', 'Z', '99'), Cell(1, 1, 0), Cell('Main', 'D', '5')]
    texts = {}
    for i, cell in enumerate(entries):
        p.set_entrypoint_cell(cell)
        t = attempt(f'entry {i}', lambda: digest(p.get_translation()))
        if t is not None:
            texts[i] = p.get_translation()
            emit(f'entry {i} functions', digest(functions_part(texts[i])),
                 len(functions_part(texts[i]).splitlines()))
            emit(f'entry {i} repeat identical', p.get_translation() is texts[i])
    attempt('entry unknown sheet', lambda: digest(p.set_entrypoint_cell(Cell('Nope', 'A', '1')).get_translation()))
    attempt('entry unknown sheet again', lambda: digest(p.get_translation()))
    attempt('entry no row', lambda: digest(p.set_entrypoint_cell(Cell('Main', 'A', '')).get_translation()))
    attempt('entry none -> whole', lambda: digest(p.set_entrypoint_cell(None).get_translation()))
    emit('whole again equals first', p.get_translation() == t1)

    emit('== facade: path change, safety change')
    p.set_excel_file_path(paths['B'])
    tb = p.get_translation()
    emit('B', digest(tb), digest(functions_part(tb)), tb != t1)
    p.set_excel_file_path(paths['C'])
    attempt('C safe on', lambda: digest(p.get_translation()))
    attempt('C safe on again', lambda: digest(p.get_translation()))
    outc = os.path.join(tmp, 'outc.py')
    attempt('C safe on write', lambda: p.write_translation(outc) is p)
    emit('outc exists', os.path.exists(outc))
    p.disable_safety_check()
    tc = attempt('C safe off', lambda: digest(p.get_translation()))
    attempt('C safe off write', lambda: p.write_translation(outc) is p)
    with open(outc, encoding='utf-8') as f:
        emit('outc equals text', f.read() == p.get_translation())
    p.enable_safety_check()
    attempt('C safe on once more', lambda: digest(p.get_translation()))
    # after a failure the previous text is still stored but a new call fails again
    attempt('C safe on once more 2', lambda: digest(p.get_translation()))
    p.set_excel_file_path(paths['A'])
    emit('back to A equals first', p.get_translation() == t1)

    emit('== facade: failing translations')
    for key in 'DE':
        q = Parser().set_excel_file_path(paths[key])
        attempt(f'{key} 1', lambda: digest(q.get_translation()))
        attempt(f'{key} 2', lambda: digest(q.get_translation()))
        q.set_entrypoint_cell(Cell(0, 2, 0))
        attempt(f'{key} entry C1', lambda: digest(functions_part(q.get_translation())))
        q.set_excel_file_path(paths['B'])
        attempt(f'{key} -> B entry C1', lambda: digest(functions_part(q.get_translation())))
    attempt('F empty workbook', lambda: digest(functions_part(Parser().set_excel_file_path(paths['F'])
                                                               .get_translation())))

    emit('== facade: threads and fresh parsers give the identical text')
    results = {}

    def work(n, key):
        results[n] = Parser().set_excel_file_path(paths[key]).get_translation()

    threads = [threading.Thread(target=work, args=(n, 'AB'[n % 2])) for n in range(6)]
    for t in threads:
        t.start()
    for t in threads:
        t.join()
    emit('threads A', all(results[n] == t1 for n in (0, 2, 4)), 'threads B', all(results[n] == tb for n in (1, 3, 5)))

    emit('== executed values')
    p = Parser().set_excel_file_path(paths['A'])
    outa = os.path.join(tmp, 'outa.py')
    p.write_translation(outa)
    ex = Executor().set_executed_class(class_file=outa)
    for row in range(5):
        for col in range(6):
            attempt(f'value Main {col},{row}', lambda: repr(ex.get_cell(Cell(0, col, row)).value))
    for col in range(3):
        attempt(f'value Second {col},0', lambda: repr(ex.get_cell(Cell('Second', col, 0)).value))
    ex.set_cells([Cell('Main', 'A', '1', value=100)])
    for col in (3, 4, 5):
        attempt(f'override Main {col},0', lambda: repr(ex.get_cell(Cell(0, col, 0)).value))
    attempt('titles', lambda: ex.get_executed_class().get_titles())
    attempt('sizes', lambda: ex.get_executed_class().get_sheets_size())


def context_part():
    emit('== context direct')
    c = Context()
    c._titles = {'S': 0}
    c._sheets_size = [{'last_column': 2, 'last_row': 2}]
    a, b = Cell(0, 0, 0), Cell(0, 1, 5)
    emit(c.get_cell(a))
    emit(c.set_sub_cell(a, 'x'), c.set_sub_cell(a, 'y'), c.set_sub_cell(a, 'x'), c.set_sub_cell(b, 'x'),
         c.set_sub_cell(a, ''), c.set_sub_cell(a, 'z'), c.set_sub_cell(a, ''), c.set_sub_cell(b, 'y'),
         c.set_sub_cell(a, 'y'))
    emit(c._sub_cell_translations)
    emit(c._get_divided_sub_cell_translations())
    emit(list(c._get_divided_sub_cell_translations()))
    emit(c.set_cell(b, '1'), c.set_cell(a, '2'), c.set_cell(b, '3'), c.get_cell(a), c.get_cell(Cell(0, 9, 9)))
    # a cell function that has the same name as a sub cell function: the sub cell wins, the position stays
    odd = Cell(0, 0, '0_1', _handled_identifiers=True)
    emit(odd.uid, c.set_cell(odd, "'shadowed'"))
    emit(list(c._cell_translations.items()))
    text = c.build_class()
    emit(digest(text))
    for line in functions_part(text).splitlines():
        emit('  ctx>', line)
    emit(c.build_class() == text)
    emit('cells unchanged by build', list(c._cell_translations.items()), c._sub_cell_translations)
    attempt('bad cell', lambda: c.set_sub_cell(Cell('S', 'A', '1'), 'q'))
    attempt('bad cell 2', lambda: c.set_sub_cell(Cell(0, 0), 'q'))
    emit(c._sub_cell_translations)
    # an (artificially) empty list is replaced, like a missing one
    c._sub_cell_translations['_0_0_0'] = []
    emit(c.set_sub_cell(a, 'n'), c._sub_cell_translations)
    emit('empty context', digest(functions_part(Context().build_class())), repr(functions_part(Context().build_class())))
    n1 = c.start_cell_translation(a)
    attempt('circular', lambda: c.start_cell_translation(Cell(0, 0, 0)))
    c.finish_cell_translation(n1)
    emit(c.start_cell_translation(a))


def main():
    tmp = tempfile.mkdtemp(prefix='t59r1_')
    try:
        paths = build_workbooks(tmp)
        facade_part(tmp, paths)
        context_part()
    finally:
        shutil.rmtree(tmp, ignore_errors=True)
    text = '\n'.join(OUT)
    print(text.replace(tmp, '<TMP>'))
    print('DIGEST', hashlib.sha256(text.replace(tmp, '<TMP>').encode('utf-8')).hexdigest())
    return 0


if __name__ == '__main__':
    sys.exit(main())
