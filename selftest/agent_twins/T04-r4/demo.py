"""Equivalence demo for r4: the runtime's override store (set_arguments) and cell dispatch (_cell_preprocessor /
exec_function_in), in BOTH copies: the AbstractExcelInPython class and the str.format template in context.py
(exercised through a generated module).

The same probes run against (a) a hand-written subclass of AbstractExcelInPython and (b) the ExcelInPython class
generated from a workbook: argument lists with duplicates / colliding keys / malformed items, aliasing of the
argument dict, override precedence with falsy values, instance-attribute vs class-attribute lookup, unknown and
unhashable uids, uids that name ordinary attributes, recursion depth, and Executor level query schedules.
The generated module text itself is not printed (the template changes); only its per-cell functions are digested.
"""
import hashlib
import os
import random
import re
import sys
import tempfile

from openpyxl import Workbook

from excel2pycl import Cell, Parser, Executor, AbstractExcelInPython, load_module

OUT = []


def emit(*parts):
    line = ' | '.join(str(p) for p in parts)
    OUT.append(line)
    print(line)


def guarded(fn):
    try:
        return 'ok', fn()
    except BaseException as e:  # noqa
        return 'exc', type(e).__name__


def short(v):
    return f'{type(v).__name__}:{v!r}'


# ---------------------------------------------------------------- the two copies
class Hand(AbstractExcelInPython):
    """Mirrors the workbook below, written by hand on top of the class copy."""

    def __init__(self, arguments=None):
        super().__init__(arguments)
        self._titles = {'Main': 0, 'Other': 1}
        self._sheets_size = [{'last_column': 4, 'last_row': 3}, {'last_column': 2, 'last_row': 1}]

    def _0_0_0(self):
        return 1

    def _0_1_0(self):
        return 2

    def _0_2_0(self):
        return self._cell_preprocessor('_0_0_0')+self._cell_preprocessor('_0_1_0')

    def _0_3_0(self):
        return "it's"

    def _0_0_1(self):
        return self._cell_preprocessor('_0_2_0')*10

    def _0_1_1(self):
        return self.EmptyCell()

    def _0_2_1(self):
        return self._cell_preprocessor('_0_1_1')

    def _0_3_1(self):
        return self._cell_preprocessor('_0_7_7')

    def _0_0_2(self):
        return self._cell_preprocessor('_1_0_0')+1

    def _0_1_2(self):
        return 0

    def _0_2_2(self):
        return ''

    def _0_3_2(self):
        return False

    def _1_0_0(self):
        return self._cell_preprocessor('_0_0_0')*100

    def _1_1_0(self):
        return 5


tmp = tempfile.mkdtemp(prefix='r4demo')
xlsx = os.path.join(tmp, 'wb.xlsx')
out_py = os.path.join(tmp, 'wb.py')
wb = Workbook()
ws = wb.active
ws.title = 'Main'
ws.append([1, 2, '=A1+B1', "it's"])
ws.append(['=C1*10', None, '=B2', '=H8'])
ws.append(['=Other!A1+1', 0, '=""', False])
ws2 = wb.create_sheet('Other')
ws2.append(['=Main!A1*100', 5])
wb.save(xlsx)
Parser().set_excel_file_path(xlsx).write_translation(out_py)
text = open(out_py, encoding='utf-8').read()
start = re.search(r'\n    def _\d+_\d+_\d+\(self\)', text).start()
emit('generated cell functions sha', hashlib.sha256(text[start:].encode()).hexdigest()[:20], 'count',
     len(re.findall(r'\n    def _\d+_\d+(_\d+)+\(self\)', text)))
Generated = load_module(out_py).ExcelInPython

UIDS = ['_0_0_0', '_0_1_0', '_0_2_0', '_0_3_0', '_0_0_1', '_0_1_1', '_0_2_1', '_0_3_1', '_0_0_2', '_0_1_2', '_0_2_2',
        '_0_3_2', '_1_0_0', '_1_1_0', '_0_7_7', '_9_9_9', '', 'x', '_arguments', '_titles', '_sheets_size',
        'set_arguments', 'get_titles', '_cell_preprocessor', 'exec_function_in', 'EmptyCell', '__init__', '__dict__',
        '_today', '_flatten_list', '__doc__', '__module__', '_0_0_any', 0, None, 1.5, ('_0_0_0',), True]
UNHASHABLE = [['_0_0_0'], {'a': 1}, {1}]


def items(d):
    return [(short(k), short(v)) for k, v in d.items()]


def probe(label, cls):
    emit('=====', label)
    # ---- construction
    for args in [None, [], [{'uid': '_0_0_0', 'value': 7}], ({'uid': 'a', 'value': 1},), 'no', [1], 5]:
        status, res = guarded(lambda: cls(args) if args is not None else cls())
        emit('init', repr(args), status, res if status == 'exc' else items(res._arguments))

    # ---- set_arguments: contents, order, aliasing
    inst = cls()
    history = []
    CALLS = [
        [],
        [{'uid': 'b', 'value': 1}, {'uid': 'a', 'value': 2}],
        [{'uid': 'a', 'value': 3}, {'uid': 'c', 'value': 4}, {'uid': 'a', 'value': 5}],
        [{'uid': 'd', 'value': None}, {'uid': 'd', 'value': 0}, {'uid': 'b', 'value': ''}],
        [{'uid': 1, 'value': 'int'}, {'uid': True, 'value': 'bool'}, {'uid': 1.0, 'value': 'float'}],
        [{'uid': True, 'value': 'again'}, {'uid': 0, 'value': 'zero'}, {'uid': False, 'value': 'false'}],
        [{'uid': 'e', 'value': 1, 'extra': 2}],
        ({'uid': 'f', 'value': 1},),
        (x for x in [{'uid': 'g', 'value': 1}, {'uid': 'g', 'value': 2}]),
        [{'uid': 'ok1', 'value': 1}, {'value': 2}],                       # missing uid
        [{'uid': 'ok2', 'value': 1}, {'uid': 'nv'}],                      # missing value
        [{'uid': 'ok3', 'value': 1}, {}],                                 # both missing
        [{'uid': 'ok4', 'value': 1}, {'uid': ['list']}],                  # unhashable uid and no value
        [{'uid': 'ok5', 'value': 1}, {'uid': ['list'], 'value': 3}],      # unhashable uid
        [{'uid': 'ok6', 'value': 1}, None],
        [{'uid': 'ok7', 'value': 1}, 'str'],
        [{'uid': 'ok8', 'value': 1}, ('uid', 'value')],
        [{'uid': 'ok9', 'value': 1}, ['uid', 'value']],
        None, 7, 'uid', {'uid': 'x', 'value': 1},
        [{'uid': ('t', 1), 'value': [1, 2]}, {'uid': None, 'value': None}, {'uid': '', 'value': ''}],
        [{'uid': 'b', 'value': 'last'}],
    ]
    for n, call in enumerate(CALLS):
        before = inst._arguments
        snapshot = items(before)
        status, res = guarded(lambda: inst.set_arguments(call))
        emit('set_arguments', n, status, short(res) if status == 'ok' else res, 'new object', inst._arguments is not before,
             'old untouched', items(before) == snapshot, 'type', type(inst._arguments).__name__)
        emit('    now', items(inst._arguments))
        history.append(before)
    emit('distinct dict objects', len({id(h) for h in history}), 'of', len(history))

    class Loud(dict):
        log = []

        def __getitem__(self, key):
            Loud.log.append(key)
            return dict.__getitem__(self, key)

    inst = cls()
    status, res = guarded(lambda: inst.set_arguments([Loud(uid='u1', value=1), Loud(uid='u2'), Loud(value=3)]))
    emit('item access order', status, res, Loud.log, items(inst._arguments))
    Loud.log.clear()
    status, res = guarded(lambda: inst.set_arguments([Loud(value=3), Loud(uid='u3', value=1)]))
    emit('item access order 2', status, res, Loud.log, items(inst._arguments))

    # ---- dispatch
    def sweep(inst, tag):
        for uid in UIDS:
            for call in ('_cell_preprocessor', 'exec_function_in'):
                status, res = guarded(lambda: getattr(inst, call)(uid))
                emit('dispatch', tag, call, repr(uid), status, short(res) if status == 'ok' else res)
        for uid in UNHASHABLE:
            status, res = guarded(lambda: inst._cell_preprocessor(uid))
            emit('dispatch', tag, 'unhashable', repr(uid), status, res)

    inst = cls()
    sweep(inst, 'plain')
    sweep(inst, 'plain again')
    emit('arguments after sweeps', items(inst._arguments))

    inst = cls([{'uid': '_0_0_0', 'value': 5}, {'uid': '_0_1_1', 'value': 'filled'}, {'uid': '_0_7_7', 'value': 77},
                {'uid': '_0_1_0', 'value': None}, {'uid': '_0_3_0', 'value': 0}, {'uid': '_1_1_0', 'value': ''},
                {'uid': '_0_1_2', 'value': False}, {'uid': '_titles', 'value': 'shadow'}, {'uid': 0, 'value': 'zero'},
                {'uid': None, 'value': 'none'}, {'uid': ('_0_0_0',), 'value': 'tuple'}, {'uid': 1, 'value': 'one'}])
    sweep(inst, 'overridden')
    emit('arguments after sweeps', items(inst._arguments))
    inst.set_arguments([{'uid': '_0_0_0', 'value': inst.EmptyCell()}, {'uid': '_0_2_0', 'value': 'direct'}])
    sweep(inst, 'overridden twice')

    # instance attributes take part in the lookup (before the class, after the overrides)
    inst = cls()
    inst._0_0_0 = lambda self: 'instance function'
    inst._0_1_0 = None                      # present but falsy: no class fallback
    inst._0_3_0 = 0
    inst._1_1_0 = 'not callable'
    inst._5_5_5 = lambda self: self._cell_preprocessor('_0_2_0')
    inst._6_6_6 = lambda: 'no self'
    inst._7_7_7 = []
    sweep(inst, 'instance attrs')
    for uid in ['_5_5_5', '_6_6_6', '_7_7_7']:
        status, res = guarded(lambda: inst.exec_function_in(uid))
        emit('dispatch instance attr', uid, status, short(res) if status == 'ok' else res)
    inst.set_arguments([{'uid': '_0_0_0', 'value': 'override wins'}, {'uid': '_6_6_6', 'value': 'override wins too'}])
    for uid in ['_0_0_0', '_0_2_0', '_5_5_5', '_6_6_6']:
        status, res = guarded(lambda: inst.exec_function_in(uid))
        emit('dispatch instance attr + override', uid, status, short(res) if status == 'ok' else res)

    class Falsy:
        calls = 0

        def __bool__(self):
            Falsy.calls += 1
            return False

        def __call__(self, this):
            return 'called'

    class Truthy(Falsy):
        def __bool__(self):
            Falsy.calls += 1
            return True

    inst = cls()
    inst._8_8_8 = Falsy()
    inst._8_8_9 = Truthy()
    for uid in ['_8_8_8', '_8_8_9']:
        Falsy.calls = 0
        status, res = guarded(lambda: inst.exec_function_in(uid))
        emit('truth test', uid, status, short(res) if status == 'ok' else res, 'bool calls', Falsy.calls)

    # without the argument store
    bare = cls.__new__(cls)
    for uid in ['_0_0_0', '_9_9_9', ['l']]:
        status, res = guarded(lambda: bare._cell_preprocessor(uid))
        emit('no _arguments', repr(uid), status, res)

    # subclass: only the most derived class dict is consulted
    sub = type('Sub', (cls,), {'_0_0_0': lambda self: 'sub', '_4_4_4': lambda self: self._cell_preprocessor('_0_1_0')})
    inst = sub()
    for uid in ['_0_0_0', '_0_1_0', '_0_2_0', '_4_4_4']:
        status, res = guarded(lambda: inst.exec_function_in(uid))
        emit('subclass', uid, status, short(res) if status == 'ok' else res)

    # recursion depth: the chain length at which RecursionError first appears
    chain = {'_c_0': lambda self: 0}
    for n in range(1, 400):
        chain[f'_c_{n}'] = (lambda k: lambda self: self._cell_preprocessor(f'_c_{k - 1}') + 1)(n)
    deep = type('Deep', (cls,), chain)()
    old = sys.getrecursionlimit()

    def first_failure():
        for n in range(1, 400):
            status, res = guarded(lambda: deep.exec_function_in(f'_c_{n}'))
            if status == 'exc':
                return n, res
        return None

    try:
        for limit in (150, 200, 333):
            sys.setrecursionlimit(limit)
            result = first_failure()
            sys.setrecursionlimit(old)
            emit('recursion limit', limit, 'first failing chain length', result)
    finally:
        sys.setrecursionlimit(old)
    status, res = guarded(lambda: deep.exec_function_in('_c_120'))
    emit('deep ok', status, res)

    # ---- through the Executor: schedules
    def fresh():
        return Executor().set_executed_class(class_object=cls)

    cells = [(s, c, r) for s, (w, h) in enumerate([(5, 4), (3, 2)]) for r in range(h) for c in range(w)]
    reference = {}
    ex = fresh()
    for s, c, r in cells:
        status, res = guarded(lambda: ex.get_cell(Cell(s, c, r)).value)
        reference[(s, c, r)] = (status, short(res))
    emit('reference', sorted(reference.items()))
    for seed in range(25):
        rng = random.Random(seed)
        ex = fresh()
        overrides = {}
        log = []
        for n in range(rng.randint(4, 14)):
            op = rng.choice(['get', 'get', 'sheet', 'set', 'gets'])
            if op == 'set':
                s, c, r = rng.choice(cells)
                value = rng.choice([None, 0, 1, 2.5, 'x', '', False, "q'"])
                ex.set_cells([Cell(s, c, r, value=value)])
                overrides[(s, c, r)] = value
                log.append(('set', s, c, r, short(value)))
            elif op == 'get':
                s, c, r = rng.choice(cells)
                cell = Cell(s, c, r) if rng.random() < 0.5 else Cell(['Main', 'Other'][s], 'ABCDE'[c], str(r + 1))
                status, res = guarded(lambda: ex.get_cell(cell).value)
                log.append(('get', s, c, r, status, short(res)))
                if not overrides:
                    assert (status, short(res)) == reference[(s, c, r)]
            elif op == 'gets':
                picked = [rng.choice(cells) for _ in range(4)]
                status, res = guarded(lambda: [short(x.value) for x in ex.get_cells([Cell(*p) for p in picked])])
                log.append(('gets', picked, status, res))
            else:
                s = rng.randrange(2)
                status, res = guarded(lambda: [[short(x.value) for x in row] for row in ex.get_sheet(s if rng.random() < 0.5 else ['Main', 'Other'][s])])
                log.append(('sheet', s, status, res))
            log.append(('overrides', [(k, short(v.value)) for k, v in ex._cells.items()], 'sizes', ex._sheets_size,
                        'args', items(ex.get_executed_class()._arguments)))
        # asking twice, in another order, gives the same answers
        first = {p: guarded(lambda: short(ex.get_cell(Cell(*p)).value)) for p in cells}
        second = {p: guarded(lambda: short(ex.get_cell(Cell(*p)).value)) for p in reversed(cells)}
        emit('seed', seed, 'steps', len(log) // 2, 'repeatable', first == second, 'overrides kept',
             all(first[p] == ('ok', short(v)) for p, v in overrides.items()),
             'sha', hashlib.sha256(repr((log, sorted(first.items()))).encode()).hexdigest()[:20])
        if seed < 3:
            for entry in log:
                emit('    ', *entry)


probe('class copy (AbstractExcelInPython subclass)', Hand)
probe('template copy (generated ExcelInPython)', Generated)

# both copies answer alike on the shared workbook
a, b = Hand(), Generated()
same = all(short(a.exec_function_in(u)) == short(b.exec_function_in(u)) for u in UIDS if isinstance(u, str) and re.fullmatch(r'_\d_\d_\d', u))
emit('copies agree on the workbook cells', same)

emit('DIGEST', hashlib.sha256('\n'.join(OUT).encode('utf-8', 'backslashreplace')).hexdigest())
sys.exit(0)
