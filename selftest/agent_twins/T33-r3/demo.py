"""Equivalence demo for the Executor / handle_cell clean-up (C08: evaluation is repeatable, all query
APIs and addressing styles agree, querying changes neither overrides nor sheet sizes).

Translates a workbook, then drives Executor through many orders of get_cell / get_cells / get_sheet /
set_cells (good and malformed arguments) and prints values, exception names, overrides and sheet sizes.
"""
import warnings
warnings.simplefilter("ignore")

import copy
import hashlib
import itertools
import os
import random
import shutil
import tempfile

from openpyxl import Workbook

from excel2pycl import Parser, Executor, Cell
from excel2pycl.src.handle_cell import handle_cell
from excel2pycl.src.object_loader import load_module

TMP = tempfile.mkdtemp(prefix='t33r3_')


def h(text):
    return hashlib.sha256(text.encode('utf-8')).hexdigest()[:16]


def show(value):
    return f'{type(value).__name__}:{value!r}'


def cell_repr(c):
    return f'({c.title!r},{c.column!r},{c.row!r},{show(c.value)},{c._handled_identifiers})'


def grid_repr(grid):
    return '[' + ' | '.join(' '.join(cell_repr(c) for c in row) for row in grid) + ']'


def state(ex, label):
    inst = ex.get_executed_class()
    print('  state', label, 'sizes', ex._sheets_size, 'same-list', ex._sheets_size is inst.get_sheets_size(),
          'overrides', sorted((k, cell_repr(v)) for k, v in ex._cells.items()),
          'changed', ex._cells_have_been_changed, 'args', sorted((k, show(v)) for k, v in inst._arguments.items()))


def run(label, fn):
    try:
        print(label, 'OK', fn())
    except BaseException as e:  # noqa
        print(label, 'EXC', type(e).__name__, str(e).replace(TMP, '<tmp>')[:200])


wb = Workbook()
ws = wb.active
ws.title = 'main'
for row in [
    [1, '=A1+1', '=SUM(A1:A4)', '=SUM(A1:B3)', "='Other sheet'!A1*2"],
    [2, '=B1*A2', '=SUM(A1:D1)', '=VLOOKUP(3, A1:B4, 2, FALSE())', '=aux!B2+E1'],
    [3, '=IF(A3>2, B2, A1)', '=SUMIF(A1:A4, ">1")', '=MAX(A:A)', '=SUM(aux!A1:A3)'],
    [4, 'text', '=COUNT(A1:B4)', '=AVERAGE(A1:A4)', "=SUM('Other sheet'!A1:B2)"],
    [None, '=A5', '=G9', '=MIN(B1:B3)+C1', '=E1+E2+E3+E4'],
]:
    ws.append(row)
ws2 = wb.create_sheet('Other sheet')
for row in [[10, '=A1+main!A1'], ['=B1+1', '=SUM(main!A1:A4)+A2']]:
    ws2.append(row)
ws3 = wb.create_sheet('aux')
for row in [[5, 6], [7, "=A1+A2+'Other sheet'!B2"], ['=main!E1', 9]]:
    ws3.append(row)
wb.create_sheet('blank')
xlsx = os.path.join(TMP, 'book.xlsx')
wb.save(xlsx)
wb.close()
out_py = os.path.join(TMP, 'book.py')
Parser().set_excel_file_path(xlsx).write_translation(out_py)
TITLES = ['main', 'Other sheet', 'aux', 'blank']
LETTERS = 'ABCDEFGHIJ'


def fresh():
    return Executor().set_executed_class(class_file=out_py)


# ---------------------------------------------------------------- set_executed_class variants
run('no class', lambda: Executor().set_executed_class())
run('no class falsy', lambda: Executor().set_executed_class(class_object=None, class_file=''))
run('missing file', lambda: Executor().set_executed_class(class_file=os.path.join(TMP, 'nope.py')))
module = load_module(out_py)
ex = Executor().set_executed_class(class_object=module.ExcelInPython)
print('by object', type(ex.get_executed_class()).__name__, ex._titles, ex._sheets_size)
ex = Executor().set_executed_class(class_object=module.ExcelInPython, class_file=os.path.join(TMP, 'nope.py'))
print('object wins', type(ex.get_executed_class()).__name__, show(ex.get_cell(Cell(0, 2, 0)).value))
run('bad object', lambda: Executor().set_executed_class(class_object=int))
empty_py = os.path.join(TMP, 'empty.py')
open(empty_py, 'w').close()
run('file without class', lambda: Executor().set_executed_class(class_file=empty_py))
ex = Executor()
print('unset instance', ex.get_executed_class(), ex._titles, ex._sheets_size)
run('get_cell unset', lambda: ex.get_cell(Cell(0, 0, 0)))
run('get_sheet unset', lambda: ex.get_sheet(0))

# ---------------------------------------------------------------- all query APIs agree, any order, repeated
ex = fresh()
state(ex, 'fresh')
single = {}
for t, r, c in itertools.product(range(4), range(7), range(7)):
    single[(t, c, r)] = show(ex.get_cell(Cell(t, c, r)).value)
print('single', h(repr(sorted(single.items()))), sorted(single.items())[:40])
state(ex, 'after singles')
for order_seed in range(5):
    ex2 = fresh()
    keys = sorted(single)
    random.Random(order_seed).shuffle(keys)
    ok = True
    for (t, c, r) in keys + keys[:30]:
        style = (t + c + r + order_seed) % 3
        if style == 0:
            cell = Cell(t, c, r)
        elif style == 1:
            cell = Cell(TITLES[t], LETTERS[c], str(r + 1))
        else:
            cell = Cell(TITLES[t], c, r)
        got = ex2.get_cell(cell)
        ok = ok and show(got.value) == single[(t, c, r)] and got is cell and (got.title, got.column, got.row) == (t, c, r)
    listed = ex2.get_cells([Cell(t, c, r) for (t, c, r) in keys])
    ok = ok and [show(x.value) for x in listed] == [single[k] for k in keys]
    print('order', order_seed, ok, h(repr([cell_repr(x) for x in listed])))
    state(ex2, f'order {order_seed}')
for sheet in [0, 1, 2, 3, 'main', 'Other sheet', 'aux', 'blank', -1, 4, 'nope', None, 1.0, True]:
    run(f'get_sheet {sheet!r}', lambda: grid_repr(ex.get_sheet(sheet)))
    run(f'get_sheet again {sheet!r}', lambda: h(grid_repr(ex.get_sheet(sheet))))
state(ex, 'after sheets')
run('get_cells empty', lambda: ex.get_cells([]))
run('get_cells gen', lambda: [cell_repr(c) for c in ex.get_cells(Cell(0, i, 0) for i in range(3))])
for bad in [Cell('nope', 'A', '1'), Cell(0, 'A', 1), Cell(0, 0, None), Cell('main', 'A', ''), Cell(0, 0, 'x'),
            Cell(0, '', '1'), Cell(0, 'a', '1'), Cell(0, 'AAAA', '1'), Cell(9, 0, 0), Cell(0, -1, -1), Cell(0, 0, '0'),
            Cell(None, None, None), Cell(0, 1.5, 2)]:
    run(f'get_cell bad {bad}', lambda: cell_repr(ex.get_cell(bad)))
    print('   cell after', cell_repr(bad))
state(ex, 'after bad')

# ---------------------------------------------------------------- overrides
ex = fresh()
steps = [
    ('A1:=100', [Cell(0, 0, 0, value=100)]),
    ('same again', [Cell(0, 0, 0, value=100)]),
    ('A1 style', [Cell('main', 'A', '2', value=-5), Cell('Other sheet', 'A', '1', value=1.5)]),
    ('extend rows', [Cell('aux', 'A', '10', value=3)]),
    ('extend cols', [Cell(2, 9, 0, value='x')]),
    ('extend both on blank', [Cell('blank', 'C', '4', value=True)]),
    ('inside no growth', [Cell(0, 4, 4, value=None), Cell(0, 1, 1, value='=A1')]),
    ('empty list', []),
    ('replace', [Cell(0, 0, 0, value=7), Cell(0, 0, 0, value=8)]),
    ('unknown title mid-way', [Cell(0, 7, 7, value=1), Cell('nope', 'A', '1', value=2), Cell(0, 9, 9, value=3)]),
    ('row None', [Cell(1, 5, 5, value=1), Cell('main', 'B', '', value=2)]),
    ('column None', [Cell(1, None, 8, value=1)]),
    ('sheet out of range', [Cell(17, 0, 0, value=1)]),
    ('sheet out of range and row None', [Cell(17, 0, None, value=1)]),
    ('sheet out of range and column None', [Cell(17, None, 0, value=1)]),
    ('str sheet kept by handled flag', [Cell('main', 0, 0, value=1, _handled_identifiers=True)]),
    ('negative sheet', [Cell(-1, 5, 6, value='neg')]),
    ('unhandled A', [Cell(0, 'A', 1, value=1)]),
    ('float coords', [Cell(0, 1.5, 2.5, value=1)]),
    ('generator', (Cell(0, i, 5, value=i) for i in range(3))),
    ('tuple', (Cell(0, 0, 6, value='t'),)),
]
for label, cells in steps:
    run(f'set_cells {label}', lambda: type(ex.set_cells(cells)).__name__)
    state(ex, label)
    before = copy.deepcopy((ex._sheets_size, {k: cell_repr(v) for k, v in ex._cells.items()}))
    run('  A1..E5', lambda: h(repr([show(ex.get_cell(Cell(0, c, r)).value) for r in range(5) for c in range(5)])))
    for sheet in (0, 'Other sheet', 2, 'blank'):
        run(f'  sheet {sheet!r}', lambda: (lambda g: f'{len(g)}x{len(g[0]) if g else 0} {h(grid_repr(g))}')(ex.get_sheet(sheet)))
    grid = ex.get_sheet(0)
    agree = all(show(ex.get_cell(Cell('main', LETTERS[c] if c < 10 else 'K', str(r + 1))).value) == show(cellv.value)
                for r, row in enumerate(grid) for c, cellv in enumerate(row) if c < 10)
    after = (ex._sheets_size, {k: cell_repr(v) for k, v in ex._cells.items()})
    print('  agree', agree, 'unchanged by queries', before == after)
state(ex, 'final')
print('final values', [show(ex.get_cell(Cell(0, c, r)).value) for r in range(6) for c in range(5)])
# two executors over two instances are independent of each other
ex_a, ex_b = fresh(), fresh()
ex_a.set_cells([Cell(0, 0, 0, value=1000), Cell(3, 20, 20, value=1)])
print('independent', show(ex_a.get_cell(Cell(0, 1, 0)).value), show(ex_b.get_cell(Cell(0, 1, 0)).value),
      ex_a._sheets_size, ex_b._sheets_size)

# ---------------------------------------------------------------- handle_cell directly
titles = {'main': 0, 'Other sheet': 1, '': 2}
for title, column, row in itertools.product(['main', 'Other sheet', '', 'zzz', 0, 5, None],
                                            ['A', 'Z', 'AA', 'XFD', 'XFE', 'a', '', '1', 0, 7, None],
                                            ['1', '10', '0', '', '-3', ' 4 ', 'x', '1.5', 0, 3, None]):
    cell = Cell(title, column, row, value='v')
    try:
        res = handle_cell(cell, titles)
        out = f'{res!r} {cell_repr(cell)}'
    except BaseException as e:  # noqa
        out = f'EXC {type(e).__name__} {e} {cell_repr(cell)}'
    try:
        out += ' uid=' + cell.uid
    except BaseException as e:  # noqa
        out += ' uid EXC ' + type(e).__name__
    print('handle', repr(title), repr(column), repr(row), out)
done = Cell('zzz', 'Q', 'x', _handled_identifiers=True)
print('handled stays', handle_cell(done, titles), cell_repr(done))

shutil.rmtree(TMP)
print('tmp removed', not os.path.exists(TMP))
