"""Equivalence demo for r2 (Excel reader: the safety scan and the reading of cell contents).

1. Excel._get_suspicious_constructions on a large set of texts and non-text values.
2. Excel.parse / is_safe / Parser with the safety check on and off on real workbooks written with openpyxl
   (hostile text, ragged rows, empty sheets, array formulas, hostile sheet titles).
3. Excel.parse on fake workbooks (load_workbook replaced) so that ArrayFormula values, falsy values and
   objects with their own __str__ reach the reading loop.
"""
import builtins
import datetime
import hashlib
import itertools
import os
import shutil
import signal
import sys
import tempfile

from openpyxl import Workbook
from openpyxl.worksheet.formula import ArrayFormula

import excel2pycl.src.excel as excel_module
from excel2pycl import Parser, Executor, Cell, Excel

signal.alarm(600)

MARK = 'PWNED_T14_R2'
TMP = tempfile.mkdtemp(prefix='t14r2_')
LINES = []


def out(*parts):
    LINES.append(' '.join(str(p) for p in parts).replace(TMP, '<TMP>'))


def show(value):
    return f'{type(value).__name__}:{value!r}'


def sha(text):
    return hashlib.sha256(text.encode('utf-8')).hexdigest()[:16]


class Loud:
    def __init__(self, text):
        self.text = text

    def __str__(self):
        return self.text

    def __repr__(self):
        return f'Loud({self.text!r})'


# ------------------------------------------------------------------ 1. the scan itself
ATOMS = ['', 'a', 'A', 'Z9', '_', '9', 'f(', 'f()', 'F()', 'SUM(', 'SUM()', 'sum()', 'Sum()', 'sUM()', 'SUm(1)',
         'f(x)', 'F(x)', 'aF(x)', 'Fa(x)', 'a1(x)', '1(x)', '_(x)', 'é(x)', 'Ж(x)', '(x)', ')', '(', ' ', '\n',
         'f(\n)', 'f(a)b)', 'f(g(x))', 'F(g(x))', 'f(G(x))', 'F(G(x))', 'f (x)', 'f.g(x)', 'os.system("x")',
         "__import__('os')", 'print(1);exec(2)', 'IF(a(1);B(2))', 'if(A(1);b(2))', 'x=SUM(1)+sum(2)', '=LEFT(A1;2)',
         '=left(A1;2)', 'A(', 'a)', 'a()(', 'aB()', 'Ba()', 'B_()', 'B1()', 'ÀB()', 'Bé()', 'ＡＢ()', 'a٣()', '٣()']
texts = list(ATOMS)
texts += [a + b for a, b in itertools.product(ATOMS[:32], repeat=2)]
texts += [a + ' ' + b + '\n' + c for a, b, c in itertools.product(ATOMS[6:22], repeat=3)][::7]
texts += ['f(' + 'x' * 2000 + ')', 'F(' * 50 + ')' * 50, 'f(' * 50 + ')' * 50, 'a' * 5000, '(' * 500, ')(' * 300]
out('texts', len(texts))
digest = hashlib.sha256()
hits = 0
for text in texts:
    result = Excel._get_suspicious_constructions(text)
    assert type(result) is list
    hits += bool(result)
    digest.update(repr((text, result)).encode('utf-8'))
out('scan digest', digest.hexdigest(), 'non-empty', hits)
for text in ATOMS + texts[len(ATOMS):len(ATOMS) + 400:9]:
    out('scan', repr(text), Excel._get_suspicious_constructions(text))
VALUES = [None, 0, 1, -1.5, True, False, 1e300, b'f(x)', b'F(x)', (1, 2), ('f(x)',), ['g(y)', 'G(y)'], {'k': 'h(z)'},
          datetime.datetime(2020, 1, 2, 3, 4, 5), datetime.date(2020, 1, 2), datetime.time(1, 2), Loud('f(x)'),
          Loud('F(x)'), Loud(''), Loud('a(1) B(2) c(3)'), ArrayFormula('A1:A2', '=sum(A1:A2)'), range(3), int, len,
          float('nan'), complex(1, 2), frozenset(), slice(1, 2), NotImplemented, Ellipsis]
for value in VALUES:
    try:
        result = Excel._get_suspicious_constructions(value)
        text = repr(result)
    except BaseException as e:  # noqa
        text = f'EXC {type(e).__name__} {e}'
    if ' at 0x' in text or ' at 0x' in repr(value):
        text = text.split(' at 0x')[0]
        out('scan value', type(value).__name__, text)
    else:
        out('scan value', repr(value), text)
first, second = Excel._get_suspicious_constructions('f(x)'), Excel._get_suspicious_constructions('f(x)')
out('fresh list every time', first is not second, first == second)
empty_1, empty_2 = Excel._get_suspicious_constructions(''), Excel._get_suspicious_constructions('F(x)')
empty_1.append(1)
out('fresh empty list', empty_1, empty_2, Excel._get_suspicious_constructions(''))


# ------------------------------------------------------------------ 2. real workbooks
def describe(tag, path):
    try:
        excel = Excel.parse(path)
    except BaseException as e:  # noqa
        out(tag, 'PARSE', type(e).__name__, e)
        return
    out(tag, 'titles', excel.get_titles())
    out(tag, 'sizes', excel.get_sheets_size())
    out(tag, 'data', repr(excel._data))
    out(tag, 'suspicious', list(excel._suspicious_cells.items()))
    try:
        out(tag, 'is_safe', excel.is_safe())
    except BaseException as e:  # noqa
        out(tag, 'is_safe', type(e).__name__, repr(str(e)), sorted(e.suspicious_cells.items()))
    for safety in (True, False):
        parser = Parser().set_excel_file_path(path)
        parser = parser.enable_safety_check() if safety else parser.disable_safety_check()
        mode = 'safe' if safety else 'unsafe'
        try:
            text = parser.get_translation()
        except BaseException as e:  # noqa
            out(tag, mode, 'TRANSLATE', type(e).__name__, repr(str(e))[:500])
            continue
        out(tag, mode, 'translation', len(text), sha(text))
        class_file = os.path.join(TMP, 'generated.py')
        parser.write_translation(class_file)
        executor = Executor().set_executed_class(class_file=class_file)
        for sheet, size in enumerate(executor.get_executed_class().get_sheets_size()):
            for row in range(size['last_row']):
                for column in range(size['last_column']):
                    try:
                        value = executor.get_cell(Cell(sheet, column, row)).value
                        out(tag, mode, sheet, column, row, show(value))
                    except BaseException as e:  # noqa
                        out(tag, mode, sheet, column, row, 'EXC', type(e).__name__, e)
        out(tag, mode, 'marker', getattr(builtins, MARK, None))


def save(name, fill):
    path = os.path.join(TMP, name)
    wb = Workbook()
    fill(wb)
    wb.save(path)
    wb.close()
    return path


def wb_empty(wb):
    wb.active.title = 'Empty'


def wb_plain(wb):
    ws = wb.active
    ws.title = 'Plain'
    ws.append([1, 2.5, 'text', True, None, datetime.datetime(2021, 3, 4)])
    ws.append(['=A1+B1', '=SUM(A1:B1)', '=LEFT(C1;2)', '=IF(D1;"y";"n")'])
    ws.append([])
    ws.append([None, None, None, None, None, None, None, 'far'])
    ws['B7'] = '=ROUND(B1;0)'


def wb_hostile(wb):
    ws = wb.active
    ws.title = "it's(1)"
    ws.append(['print(1)', 'SUM(1)', 'Sum(1)', f"setattr(__import__('builtins'), '{MARK}', 1)", 'ok'])
    ws.append(['=sum(A1:A1)', '=SUM(A1:A1)', '="exec(1)"', '="EXEC(1)"', '=len("x")'])
    ws.append([0, '', False, 0.0, 'a(b) C(d) e(f)'])
    other = wb.create_sheet('evil(2)')
    other['C3'] = 'x(1) y(2)'
    other['A1'] = 'X(1) Y(2)'
    third = wb.create_sheet('third')
    third['A1'] = "=evil(2)!A1"
    third['A2'] = "='evil(2)'!A1"


def wb_upper_only(wb):
    ws = wb.active
    ws.title = 'Upper'
    ws.append(['PRINT(1)', 'EXEC("x")', '=SUM(1;2)', 'A(B(C(1)))', "__IMPORT__('os')", "X('); import os; ('"])
    ws.append(['=A1', '=A1&B1', '=CONCATENATE(A1;"|";D1)', '=LEFT(F1;4)'])


def wb_array(wb):
    ws = wb.active
    ws.title = 'Arr'
    ws.append([1, 2, 3])
    ws['A2'] = ArrayFormula('A2:A2', '=SUM(A1:C1)')
    ws['B2'] = ArrayFormula('B2:B2', '  =MAX(A1:C1)  ')
    ws['C2'] = ArrayFormula('C2:C2', '=sum(A1:C1)')
    ws['D2'] = '=A2+B2'


def wb_ragged(wb):
    ws = wb.active
    ws.title = 'Ragged'
    for length in [3, 0, 7, 1, 7, 2]:
        ws.append(list(range(length)))
    ws2 = wb.create_sheet('One')
    ws2['A1'] = 'only'
    ws3 = wb.create_sheet('Wide')
    ws3['Z1'] = 'z'
    ws3['AB2'] = '=Z1&"!"'
    wb.create_sheet('Blank')


for name, fill in [('empty', wb_empty), ('plain', wb_plain), ('hostile', wb_hostile), ('upper', wb_upper_only),
                   ('array', wb_array), ('ragged', wb_ragged)]:
    describe(name, save(name + '.xlsx', fill))
describe('missing', os.path.join(TMP, 'does_not_exist.xlsx'))


# ------------------------------------------------------------------ 3. fake workbooks
class FakeCell:
    def __init__(self, value, row, column_letter):
        self.value, self.row, self.column_letter = value, row, column_letter


class FakeSheet:
    def __init__(self, title, rows):
        self.title, self._rows, self.resets = title, rows, 0

    def reset_dimensions(self):
        self.resets += 1

    def iter_rows(self):
        for r, row in enumerate(self._rows, start=1):
            yield tuple(FakeCell(value, r, 'ABCDEFGHIJKLMNOP'[c]) for c, value in enumerate(row))


class FakeBook:
    def __init__(self, sheets):
        self.worksheets, self.closed = sheets, 0

    def close(self):
        self.closed += 1


FAKES = {
    'arrays': [FakeSheet('S', [[ArrayFormula('A1', ' =SUM(B1:C1) '), 1, 2],
                               [ArrayFormula('A2', '=sum(B1:C1)\n'), ArrayFormula('B2', ''), ArrayFormula('C2', '\t=1\t')],
                               [ArrayFormula('A3', '= evil(1) + GOOD(2)')]])],
    'falsy': [FakeSheet('F', [[0, 0.0, '', False, None, b'', (), []], [], [None], ['f(x)', None, 'F(x)']])],
    'objects': [FakeSheet('O', [[Loud('call(1)'), Loud('CALL(1)'), Loud(''), b'f(x)', ('f(x)',), 12, 1.5, True]]),
                FakeSheet("q'(1)", [[Loud('a(1) B(2) c(3)')], ['x', 'y', 'z', 'w(1)']]),
                FakeSheet('empty', [])],
    'none': [],
    'dupe titles': [FakeSheet('T', [['a(1)']]), FakeSheet('T', [['b(2)', 'c']])],
}
real_load = excel_module.load_workbook
for name, sheets in FAKES.items():
    book = FakeBook(sheets)
    excel_module.load_workbook = lambda filename, read_only, _book=book: _book
    try:
        excel = Excel.parse('ignored.xlsx')
        out('fake', name, 'titles', excel.get_titles())
        out('fake', name, 'sizes', excel.get_sheets_size())
        out('fake', name, 'data', repr(excel._data).replace('<openpyxl', '<x'))
        out('fake', name, 'suspicious', list(excel._suspicious_cells.items()))
        out('fake', name, 'closed', book.closed, [sheet.resets for sheet in sheets])
        try:
            out('fake', name, 'is_safe', excel.is_safe())
        except BaseException as e:  # noqa
            out('fake', name, 'is_safe', type(e).__name__, repr(str(e)))
    except BaseException as e:  # noqa
        out('fake', name, 'EXC', type(e).__name__, e)
    finally:
        excel_module.load_workbook = real_load


class Broken:
    """A cell whose text conversion fails: the error must surface from the same place."""
    def __str__(self):
        raise RuntimeError('no text')


book = FakeBook([FakeSheet('B', [[1, Broken(), 'f(x)']])])
excel_module.load_workbook = lambda filename, read_only: book
try:
    Excel.parse('ignored.xlsx')
    out('fake broken', 'no error')
except BaseException as e:  # noqa
    out('fake broken', type(e).__name__, e, book.closed)
finally:
    excel_module.load_workbook = real_load

out('final marker', getattr(builtins, MARK, None))
shutil.rmtree(TMP, ignore_errors=True)
out('tmp removed', not os.path.exists(TMP))
text = '\n'.join(LINES)
print(text)
print('DIGEST', hashlib.sha256(text.encode('utf-8')).hexdigest(), len(LINES))
sys.exit(0)
