"""Equivalence demo for the criterion (lambda) translators used by SUMIF / SUMIFS / COUNTIFS / AVERAGEIFS.

(a) translates workbooks full of criteria of every written form and prints the generated criterion lambdas, the
    hash of the whole generated class and the evaluated values (before and after cell overrides);
(b) calls LambdaTokenTranslator / RangeOfCellIdentifierWithConditionTokenTranslator directly with stub tokens to
    cover literals that the lexer does not normally produce.
"""
import sys
sys.dont_write_bytecode = True

import datetime
import hashlib
import os
import shutil
import tempfile
import warnings

warnings.simplefilter('ignore')

from openpyxl import Workbook

from excel2pycl import Parser, Executor, Cell
from excel2pycl.src.ast_builder import AstBuilder
from excel2pycl.src.context import Context
from excel2pycl.src.excel import Excel
from excel2pycl.src.lexer import Lexer
from excel2pycl.src.tokens import RangeOfCellIdentifierWithConditionToken
from excel2pycl.src.tokens import PatternToken
from excel2pycl.src.translators.expression_token_translator import ExpressionTokenTranslator
from excel2pycl.src.translators.lambda_token_translator import LambdaTokenTranslator
from excel2pycl.src.translators.matrix_of_cell_identifiers_token_translator import \
    MatrixOfCellIdentifiersTokenTranslator
from excel2pycl.src.translators.range_of_cell_identifier_with_condition_token_translator import \
    RangeOfCellIdentifierWithConditionTokenTranslator


def show(value):
    if isinstance(value, float):
        return 'float:' + repr(value)
    if isinstance(value, list):
        return '[' + ', '.join(show(i) for i in value) + ']'
    return type(value).__name__ + ':' + repr(value)


def attempt(function, *args, **kwargs):
    try:
        return show(function(*args, **kwargs))
    except BaseException as error:
        return 'raised ' + type(error).__name__ + ': ' + str(error)


ROWS = [
    [1,    'apple', 10,   datetime.datetime(2024, 1, 1), True,  'x1',   '>3'],
    [2,    'Apple', 20.5, datetime.datetime(2024, 2, 1), False, 'x?',   '<>apple'],
    [3,    'pear',  None, datetime.datetime(2024, 3, 1), True,  'a*b',  '=3'],
    [4,    'plum',  40,   None,                          None,  'a~b',  'p*'],
    [5,    None,    50,   datetime.datetime(2024, 5, 1), False, '',     '2024-01-01'],
    [6,    'APPLE', 60,   datetime.datetime(2024, 1, 1), True,  'axxb', '?pple'],
    [-7,   'fig',   70,   datetime.datetime(2023, 1, 1), 1,     'x12',  3],
    [2.5,  'a.c',   0,    datetime.datetime(2024, 1, 1), 0,     'abc',  2.5],
]

CRITERIA = [
    '">3"', '">=3"', '"<3"', '"<=3"', '"<>3"', '"=3"', '3', '2.5', '1e0', '"3"', '"apple"', '"APPLE"', '"<>apple"',
    '"=apple"', '">apple"', '"a*"', '"*e"', '"?pple"', '"p??r"', '"a~*b"', '"x~?"', '"*"', '"~"', '"a.c"',
    '">2.5"', '">=2.50"', '"<1e1"', '"<25e-1"', '"<>2.5e0"', '">03"', '"> 3"', '">3 "', '">-3"', '">"', '"<>"',
    '"<="', '"<"', '">="', '"="', '""', '">"&H1', '"<="&H2', '"<>"&H3', '"<>"&B1', '">="&3', '"<"&2+2',
    '">"&H1*2', '"<>"&"apple"', '"="&H1', '"a"&"*"', 'H1', 'H3', 'H4', 'H5', 'H6', 'G1', 'G2', 'G3', 'G4', 'G5',
    'G6', 'G7', 'G8', 'TRUE', 'FALSE', 'H1+1', 'H1&""', 'LEFT(B1,2)&"*"', '">"&SUM(H1:H2)', 'DATE(2024,1,1)',
    '"<"&DATE(2024,2,1)', '"2024-01-01"', '">2024-01-15"', '"*"&H3', '"?"&"pple"', '(H1)', '-H1', '50%',
    '"<>"&"*"', '"<>a*"', '"<>?pple"',
]


def accepted(formula, lines):
    """The formulas the parser rejects are reported and left out of the workbook."""
    cell = Cell(0, 11, 0)
    try:
        AstBuilder.parse(Lexer.parse(formula, in_cell=cell), in_cell=cell)
    except BaseException as error:
        lines.append('REJECTED ' + formula + ' ' + type(error).__name__)
        return False
    return True


def build_workbook(path, lines):
    workbook = Workbook()
    sheet = workbook.active
    sheet.title = 'Data'
    for row in ROWS:
        sheet.append(row)
    for index, value in enumerate([3, 2, 'apple', datetime.datetime(2024, 1, 1), 'p*', None], start=1):
        sheet.cell(row=index, column=8, value=value)  # H1..H6
    formulas = []
    for criterion in CRITERIA:
        formulas.append(f'=SUMIF(A1:A8,{criterion})')
        formulas.append(f'=SUMIF(B1:B8,{criterion},C1:C8)')
        formulas.append(f'=SUMIFS(C1:C8,A1:A8,{criterion})')
        formulas.append(f'=SUMIFS(C1:C8,B1:B8,{criterion},E1:E8,TRUE)')
        formulas.append(f'=SUMIFS(C1:C8,D1:D8,{criterion})')
        formulas.append(f'=COUNTIFS(A1:A8,{criterion})')
        formulas.append(f'=COUNTIFS(F1:F8,{criterion},B1:B8,{criterion})')
        formulas.append(f'=AVERAGEIFS(C1:C8,B1:B8,{criterion})')
        formulas.append(f'=AVERAGEIFS(C1:C8,A1:A8,{criterion},F1:F8,"<>x1")')
    second = workbook.create_sheet('Other sheet')
    second.append([1, 'x'])
    second.append([2, 'y'])
    second.append(["=SUMIFS(Data!C1:C8,Data!A1:A8,\">\"&A1)", "=COUNTIFS(Data!B1:B8,B1&\"*\")",
                   "=SUMIF(Data!A1:A8,\"<>\"&A2,Data!C1:C8)", "=AVERAGEIFS(Data!C1:C8,Data!B1:B8,\"<>\"&B2)"])
    formulas = [formula for formula in formulas if accepted(formula, lines)]
    for index, formula in enumerate(formulas, start=1):
        sheet.cell(row=index, column=12, value=formula)  # column L
        lines.append(f'L{index} is {formula}')
    workbook.save(path)
    return len(formulas)


class Stub:
    def __init__(self, **attributes):
        self.__dict__.update(attributes)


def direct_translator_calls(lines):
    original_translate = ExpressionTokenTranslator.__dict__['translate']
    original_matrix = MatrixOfCellIdentifiersTokenTranslator.__dict__['translate']
    calls = []

    def fake_expression(cls, token, excel, context):
        calls.append(token.code)
        return token.code

    ExpressionTokenTranslator.translate = classmethod(fake_expression)
    MatrixOfCellIdentifiersTokenTranslator.translate = classmethod(lambda cls, token, excel, context: token.code)
    try:
        cell = Cell(0, 2, 3)
        pattern = object.__new__(PatternToken)
        plain = Stub(code='self._cell_preprocessor(\'_0_7_0\')', left_operand=Stub(value=['operand']))
        patterned = Stub(code="'a*'", left_operand=Stub(value=[pattern]))
        no_operand = Stub(code='self._x()', left_operand=None)
        empty_code = Stub(code='', left_operand=None)
        literals = [None, '', "''", "'>'", "'<'", "'>='", "'<='", "'<>'", "'='", "'>5'", "'<5'", "'>=5'", "'<=5'",
                    "'<>5'", "'=5'", "'>5.0'", "'>5.25'", "'<1e3'", "'<1e-3'", "'<>1.5e2'", "'>05'", "'>5.'",
                    "'>.5'", "'>-5'", "'> 5'", "'>5 '", "'>5a'", "'>a'", "'<>abc'", "'abc'", "'5'", '5', '5.5',
                    'True', "'>5'\n", "'>٥'", "'>5e'", "'>5e-'", "'>=<5'", "'<>>'", "'><'", "'>0'", "'>0.0'",
                    "'>00e0'", "'>1e400'", "'<>0e-0'", '">5"', "'>5''"]
        for literal in literals:
            for name, expression in (('none', None), ('plain', plain), ('pattern', patterned),
                                     ('no_operand', no_operand), ('empty_code', empty_code)):
                context = Context()
                token = Stub(literal=literal, expression=expression, in_cell=cell)
                result = attempt(LambdaTokenTranslator.translate, token, None, context)
                lines.append(f'lambda {literal!r} {name} -> {result} :: ' + repr(context.build_class().split(
                    "        return '#VALUE!'\n\n")[-1]))
        # the expression form of a range condition
        for expression in (plain, patterned, no_operand, empty_code):
            del calls[:]
            context = Context()
            token = Stub(range=Stub(code='RANGE'), condition_lambda=None, condition_expression=expression,
                         in_cell=cell)
            result = attempt(RangeOfCellIdentifierWithConditionTokenTranslator.translate, token, None, context)
            lines.append(f'range expression {expression.code!r} -> {result} :: ' + repr(context.build_class().split(
                "        return '#VALUE!'\n\n")[-1]))
            lines.append('  translated ' + ' '.join(sorted(set(calls))))
        for literal in ("'>5'", "'<>'", "'abc'", None):
            context = Context()
            token = Stub(range=Stub(code='RANGE'), condition_expression=None, in_cell=cell,
                         condition_lambda=Stub(literal=literal, expression=plain, in_cell=cell))
            result = attempt(RangeOfCellIdentifierWithConditionTokenTranslator.translate, token, None, context)
            lines.append(f'range lambda {literal!r} -> {result} :: ' + repr(context.build_class().split(
                "        return '#VALUE!'\n\n")[-1]))
    finally:
        ExpressionTokenTranslator.translate = original_translate
        MatrixOfCellIdentifiersTokenTranslator.translate = original_matrix


def find_tokens(token, wanted, found):
    if isinstance(token, wanted):
        found.append(token)
    value = getattr(token, 'value', None)
    if isinstance(value, (list, tuple)):
        for item in value:
            if hasattr(item, 'value'):
                find_tokens(item, wanted, found)
    return found


def expression_form_with_real_tokens(workbook_path, lines):
    """The (range, expression) form of a condition, translated with real tokens, workbook and context."""
    formulas = ['=SUMIFS(C1:C8,A1:A8,H1)', '=SUMIFS(C1:C8,A1:A8,H1+1,B1:B8,H3&"")',
                '=SUMIFS(C1:C8,A1:A8,SUM(H1:H2)*2)', '=COUNTIFS(A1:A8,">1",B1:B8,LEFT(B1,3)&"le")',
                '=AVERAGEIFS(C1:C8,A1:A8,SUMIFS(A1:A8,B1:B8,"pear"))', '=SUMIFS(C1:C8,D1:D8,DATE(2024,1,1))',
                '=SUMIFS(C1:C8,A1:A8,IF(H1>2,H1,H2))', '=SUMIFS(C1:C8,A1:A8,L1)']
    for formula in formulas:
        excel = Excel.parse(workbook_path)
        context = Context()
        cell = Cell('Data', 'N', '1')
        excel.fill_cell(cell)
        ast = AstBuilder.parse(Lexer.parse(formula, in_cell=cell), in_cell=cell)
        for number, real in enumerate(find_tokens(ast, RangeOfCellIdentifierWithConditionToken, [])):
            if real.condition_lambda is None or real.condition_lambda.literal is not None:
                lines.append(f'real {formula} {number} skipped')
                continue
            token = Stub(range=real.range, condition_lambda=None, in_cell=real.in_cell,
                         condition_expression=real.condition_lambda.expression)
            result = attempt(RangeOfCellIdentifierWithConditionTokenTranslator.translate, token, excel, context)
            lines.append(f'real {formula} {number} -> {result}')
        lines.append(f'real {formula} class ' + repr(context.build_class().split("        return '#VALUE!'\n\n")[-1]))


def main():
    lines = []
    direct_translator_calls(lines)
    directory = tempfile.mkdtemp(prefix='e2p_demo_')
    try:
        workbook_path = os.path.join(directory, 'criteria.xlsx')
        class_path = os.path.join(directory, 'criteria_class.py')
        count = build_workbook(workbook_path, lines)
        parser = Parser().set_excel_file_path(workbook_path)
        parser.write_translation(class_path)
        text = open(class_path, encoding='utf-8').read()
        expression_form_with_real_tokens(workbook_path, lines)
        lines.append('generated class sha256 ' + hashlib.sha256(text.encode()).hexdigest())
        lines.append('get_translation equal ' + str(
            Parser().set_excel_file_path(workbook_path).get_translation() == text))
        for line in text.split('\n'):
            if 'lambda x' in line:
                lines.append('GENERATED ' + line.strip())
        executor = Executor().set_executed_class(class_file=class_path)
        for row in range(count):
            lines.append(f'L{row + 1} -> ' + attempt(lambda: executor.get_cell(Cell(0, 11, row)).value))
        for column in range(4):
            lines.append(f'Other {column} -> ' + attempt(
                lambda: executor.get_cell(Cell('Other sheet', column, 2)).value))
        executor.set_cells([Cell(0, 0, 0, value=30), Cell(0, 1, 1, value='pear'), Cell(0, 7, 0, value=4),
                            Cell(0, 7, 2, value='p?ar'), Cell(0, 6, 0, value='<=3'), Cell(0, 6, 3, value='*l*'),
                            Cell('Other sheet', 'A', '1', value=-100), Cell('Other sheet', 'B', '1', value='')])
        for row in range(count):
            lines.append(f'L{row + 1} after override -> ' + attempt(lambda: executor.get_cell(Cell(0, 11, row)).value))
        for column in range(4):
            lines.append(f'Other {column} after override -> ' + attempt(
                lambda: executor.get_cell(Cell('Other sheet', column, 2)).value))
        # a single entry point gives a smaller class with the same criterion code
        for address in (('L', '1'), ('L', '40'), ('L', '400')):
            single = Parser().set_excel_file_path(workbook_path).set_entrypoint_cell(Cell('Data', *address))
            lines.append(f'entry point {address} sha256 ' + attempt(
                lambda: hashlib.sha256(single.get_translation().encode()).hexdigest()))
    finally:
        shutil.rmtree(directory, ignore_errors=True)
    for line in lines:
        print(line)
    print('lines', len(lines))
    print('digest', hashlib.sha256('\n'.join(lines).encode()).hexdigest())


if __name__ == '__main__':
    main()
