"""Equivalence demo for r1: ROUND / ROUNDUP / ROUNDDOWN runtime helpers (both copies).

Calls the three helpers of the abstract runtime class and of a freshly generated class on a
large deterministic grid of numbers and digit counts (incl. halves, 15-digit decimals, huge and
tiny magnitudes, non-finite and non-numeric arguments), and evaluates ROUND* formulas of a
generated workbook (whole translation and entry-point translation).  Prints a digest.
"""
import hashlib
import os
import random
import shutil
import sys
import tempfile
from decimal import Decimal
from fractions import Fraction

from openpyxl import Workbook

from excel2pycl import Parser, Executor, Cell
from excel2pycl.src.object_loader import load_module
from excel2pycl.src.utilities.abstract_excel_in_python_class import AbstractExcelInPython


class Runtime(AbstractExcelInPython):
    pass


LINES = []


def out(line):
    LINES.append(line)


def show(value):
    return f'{type(value).__name__}:{value!r}'


def call(function, *args):
    try:
        return show(function(*args))
    except BaseException as error:  # noqa
        return f'!{type(error).__name__}:{error}'


def numbers():
    rnd = random.Random(20260930)
    result = [0, 0.0, -0.0, 1, -1, 5, 15, 25, -25, 0.5, 1.5, 2.5, -0.5, -1.5, -2.5, 0.125, 0.375, 2.675, 1.005, 1.015,
              1.025, 8.345, -8.345, 0.285, 0.29, 1.45, 1.55, 4.35, 0.1 + 0.2, 0.30000000000000004, 1 / 3, 2 / 3,
              1e15, 123456789012345.0, 12345678901234.5, 999999999999999.0, 0.999999999999999, 9.99999999999999,
              99999.9999999995, 1e16, 1e17 + 5, 1.7976931348623157e308, 5e-324, 2.2250738585072014e-308, 1e-300,
              1e300, 149.5, 150, 250, 350, -150, 1234.5678, -1234.5678, 0.05, 0.005, 0.0005, 0.00049999999999999,
              True, False, 7, 10 ** 20, -10 ** 20, 2 ** 53 + 1]
    for _ in range(220):
        digits = rnd.randint(1, 15)
        mantissa = rnd.randint(1, 10 ** digits - 1)
        exponent = rnd.randint(-12, 6)
        value = float(f'{mantissa}e{exponent}')
        result.append(value if rnd.random() < 0.5 else -value)
    for _ in range(60):
        # exact halves at a random decimal position
        position = rnd.randint(-3, 8)
        base = rnd.randint(-10 ** 6, 10 ** 6)
        result.append(float(Decimal(base * 10 + 5).scaleb(-position - 1)))
    return result


def digit_counts():
    return [0, 1, 2, 3, 4, 5, 8, 10, 14, 15, 16, 17, 20, 30, 100, 300, 323, 324, 330, 398, 399, 400, 401,
            -1, -2, -3, -5, -10, -14, -15, -16, -20, -100, -308, -309, -400]


ODD_NUMBERS = ['2.5', ' 2.5 ', '1e3', 'abc', '', None, float('inf'), float('-inf'), float('nan'), Decimal('2.5'),
               Decimal('1.005'), Fraction(5, 2), [1], b'2.5', '1_0.5', 'nan', 'inf', complex(1, 0)]
ODD_DIGITS = [1.9, -1.9, 0.5, -0.5, '2', ' 2 ', '-1', 'x', '', None, True, False, Decimal('1.7'), Fraction(3, 2),
              float('nan'), float('inf'), 1e3, [1], 10 ** 9, -10 ** 9, 10 ** 19, 999999999999999999, -999999999999999999]


def exercise(tag, instance):
    methods = [('round', instance._round), ('roundup', instance._roundup), ('rounddown', instance._rounddown)]
    digest = hashlib.sha256()
    count = 0
    sample = []
    for number in numbers():
        for digits in digit_counts():
            for name, method in methods:
                line = f'{name}({number!r},{digits!r})={call(method, number, digits)}'
                digest.update(line.encode() + b'\n')
                count += 1
                if count % 997 == 0:
                    sample.append(line)
    out(f'[{tag}] grid calls={count} sha256={digest.hexdigest()}')
    for line in sample:
        out(f'[{tag}] sample {line}')
    for number in ODD_NUMBERS:
        for digits in (0, 1, -1, 2):
            for name, method in methods:
                out(f'[{tag}] {name}({number!r},{digits!r})={call(method, number, digits)}')
    for digits in ODD_DIGITS:
        for number in (2.5, -1234.5678, 0.125):
            for name, method in methods:
                out(f'[{tag}] {name}({number!r},{digits!r})={call(method, number, digits)}')
    # argument evaluation order: both arguments invalid -> the error of the first one is reported
    for name, method in methods:
        out(f'[{tag}] {name}(bad,bad)={call(method, "abc", "x")}')
        out(f'[{tag}] {name}(None,None)={call(method, None, None)}')
        out(f'[{tag}] {name}(missing)={call(method, 1)}')
        out(f'[{tag}] {name}(kw)={call(lambda m=method: m(number=2.5, num_digits=0))}')
    # unchanged values that are already representable at the requested precision
    for number in (0.1, 0.7, 1.1, 2.2, 123.456, -0.3, 1e-7, 123456789.123456):
        for digits in (3, 6, 9, 12, 15):
            for name, method in methods:
                result = method(number, digits)
                out(f'[{tag}] same {name}({number!r},{digits}) -> {result!r} unchanged={result == number}')


FORMULAS = [
    '=ROUND(A1,0)', '=ROUND(A2,1)', '=ROUND(A3,2)', '=ROUND(A4,-1)', '=ROUND(A5,-2)', '=ROUND(A6,B6)',
    '=ROUNDUP(A1,0)', '=ROUNDUP(A2,1)', '=ROUNDUP(A3)', '=ROUNDUP(A4,)', '=ROUNDUP(A5,-2)', '=ROUNDUP(A6,B6)',
    '=ROUNDDOWN(A1,0)', '=ROUNDDOWN(A2,1)', '=ROUNDDOWN(A3)', '=ROUNDDOWN(A4,)', '=ROUNDDOWN(A5,-2)',
    '=ROUNDDOWN(A6,B6)', '=ROUND(2.5,0)+ROUND(-2.5,0)', '=ROUND(1.005,2)', '=ROUND(2.675,2)*100',
    '=ROUND(A7,2)', '=ROUNDUP(A7,2)', '=ROUNDDOWN(A7,2)', '=ROUND(A8,0)', '=ROUND(A1%,3)', '=ROUND(A3/3,5)',
    '=ROUND(ROUNDUP(A2,2),1)', '=ROUNDDOWN(ROUND(A3,3),-1)', '=IF(ROUND(A1,0)=3,"three","other")',
    '=ROUND(SUM(A1:A6),2)', '=ROUND(A9,1)', '=ROUND(A10,1)', '=ROUND(A1,A9)',
]
VALUES = [2.5, 0.125, 1234.5678, 1250, -1250.5, 1.23456789, 0.30000000000000004, None, 'text', True]
DIGITS_B = {6: 4}


def workbook_part(tmp):
    path = os.path.join(tmp, 'round.xlsx')
    wb = Workbook()
    ws = wb.active
    ws.title = 'Data'
    for row, value in enumerate(VALUES, start=1):
        if value is not None:
            ws.cell(row=row, column=1, value=value)
    for row, value in DIGITS_B.items():
        ws.cell(row=row, column=2, value=value)
    for row, formula in enumerate(FORMULAS, start=1):
        ws.cell(row=row, column=4, value=formula)
    wb.save(path)
    wb.close()

    whole_py = os.path.join(tmp, 'whole.py')
    Parser().set_excel_file_path(path).write_translation(whole_py)
    whole = Executor().set_executed_class(class_file=whole_py)
    for row, formula in enumerate(FORMULAS):
        value_whole = call(lambda r=row: whole.get_cell(Cell(0, 3, r)).value)
        entry_py = os.path.join(tmp, f'entry_{row}.py')
        try:
            Parser().set_excel_file_path(path).set_entrypoint_cell(Cell('Data', 'D', str(row + 1))) \
                .write_translation(entry_py)
            entry = Executor().set_executed_class(class_file=entry_py)
            value_entry = call(lambda r=row: entry.get_cell(Cell(0, 3, r)).value)
        except BaseException as error:  # noqa
            value_entry = f'!{type(error).__name__}:{error}'
        out(f'[wb] D{row + 1} {formula} whole={value_whole} entry={value_entry}')

    # overridden inputs
    for override in (0.5, 1.5, -0.5, 2.4999999999999996, 1e15 + 0.5, '7.5', None, 'x'):
        whole.set_cells([Cell('Data', 'A', '1', value=override)])
        for row in (0, 6, 12, 25):
            out(f'[wb] A1={override!r} D{row + 1}={call(lambda r=row: whole.get_cell(Cell(0, 3, r)).value)}')

    # the helpers of the generated class itself (template copy)
    exercise('generated', load_module(whole_py).ExcelInPython())


def main():
    exercise('abstract', Runtime())
    tmp = tempfile.mkdtemp(prefix='t26_r1_')
    try:
        workbook_part(tmp)
    finally:
        shutil.rmtree(tmp, ignore_errors=True)
    text = '\n'.join(LINES)
    print(text)
    print('TOTAL', len(LINES), hashlib.sha256(text.encode()).hexdigest())
    return 0


if __name__ == '__main__':
    sys.exit(main())
