"""Equivalence demo for r2: IF / IFERROR translators and IfControlConstructionToken.when_false."""
import hashlib
import os
import shutil
import tempfile

from openpyxl import Workbook

from excel2pycl import Parser, Executor, Cell
from excel2pycl.src.ast_builder import AstBuilder
from excel2pycl.src.context import Context
from excel2pycl.src.excel import Excel
from excel2pycl.src.lexer import Lexer
from excel2pycl.src.tokens import IfControlConstructionToken, IfErrorControlConstructionToken
from excel2pycl.src.translators.if_cc_token_translator import IfControlConstructionTokenTranslator
from excel2pycl.src.translators.iferror_cc_token_translator import IfErrorControlConstructionTokenTranslator


def show(value):
    return f'{type(value).__name__}:{value!r}'


def attempt(fn, *args):
    try:
        return show(fn(*args))
    except BaseException as exc:  # noqa
        return f'EXC:{type(exc).__name__}:{exc}'


GOOD = [
    '=IF(A1>2,"yes","no")',
    '=IF(A1>5,"yes")',
    '=IF(A2,A1,A3)',
    '=IF(A3,1/0,"lazy-false")',
    '=IF(A2,"lazy-true",1/0)',
    '=IF(A1,IF(A2,IF(A3,"ttt","ttf"),"tf"),"f")',
    '=IF(A1>1,IF(A1>2,IF(A1>3,"gt3"),"le2"))',
    '=1+IF(A2,10,20)*2',
    '=IF(A2,10,20)+IF(A3,1,2)&"x"',
    '=IF(IF(A3,TRUE,FALSE),"a","b")',
    '=IF(SUM(A1:A4)>3,SUM(A1:A4),MAX(A1:A4))',
    '=IF(SUM(A1:A4)>300,SUM(A1:A4),MIN(A1,A7))',
    '=IFERROR(A1/A4,"div")',
    '=IFERROR(A1/A1,"div")',
    '=IFERROR(A6,"stored-error")',
    '=IFERROR(A5,"text-ok")',
    '=IFERROR(IFERROR(1/0,A6),"both")',
    '=IFERROR(IFERROR(1/0,1/0),"outer")',
    '=IFERROR(1/0,1/0)',
    '=IFERROR(IF(A3,1,1/0),IF(A2,"fb-true","fb-false"))',
    '=IF(IFERROR(A1/A4,0)=0,"zero","nonzero")',
    '=IFERROR(VLOOKUP(99,A1:B4,2,0),"missing")',
    '=IFERROR(SUM(A1:A4)/SUM(A4:A4),SUM(A1:A2))',
    '=2*IFERROR(A7,5)+IFERROR(A6,1)',
    '=IF(A8="",  "blank" , "filled")',
    '=IF(A7<0,-A7,A7)',
    '=IF(A1=3,IFERROR(A6,IF(A2,"deep","deeper")),0)',
    '=IF(A5="y",IFS(A1>5,"big",TRUE,"small"),IFERROR(1/0,"e"))',
    '=IF(A1,"one-arg-num")',
    '=IF(0,"zero-true","zero-false")',
    '=IF("",1,2)',
    '=IF(A1>2,"same","no")&IF(A1>2,"same","no")',
    '=IFERROR(MATCH(5,A1:A4,0),IFERROR(MATCH(3,A1:A4,0),"none"))',
]

BAD = [
    '=IF(A1>5,"yes",)',
    '=IF(A1>2)',
    '=IF()',
    '=IF(A1,1,2,3)',
    '=IF(A1,1,2',
    '=IFERROR(A1)',
    '=IFERROR()',
    '=IFERROR(A1,1,2)',
    '=IF(,1,2)',
    '=IFERROR(,1)',
    '=IF(A1,,2)',
    '=IF(C35,1,2)',
    '=IFERROR(C36,C36)',
]


def build(tmp):
    wb = Workbook()
    ws = wb.active
    ws.title = 'S'
    for row, value in enumerate([3, True, False, 0, 'y', '#DIV/0!', -2.5, None], start=1):
        if value is not None:
            ws.cell(row=row, column=1, value=value)
    for row in range(1, 5):
        ws.cell(row=row, column=2, value=f'v{row}')
    for row, formula in enumerate(GOOD, start=1):
        ws.cell(row=row, column=3, value=formula)
    for row, formula in enumerate(BAD, start=1):
        ws.cell(row=row, column=5, value=formula)
    ws.cell(row=36, column=3, value='=IFERROR(C36,C36)')
    path = os.path.join(tmp, 'book.xlsx')
    wb.save(path)
    return path


def functions_of(text):
    return text[text.index('    def _0_'):]


def main():
    out = []
    tmp = tempfile.mkdtemp(prefix='r2demo')
    try:
        path = build(tmp)
        out_py = os.path.join(tmp, 'book.py')
        # whole-file translation must fail on the first bad cell; record the class
        out.append('whole ' + attempt(lambda: Parser().set_excel_file_path(path).get_translation()))
        # each good formula as an entry point: generated functions text is compared verbatim
        for row in range(1, len(GOOD) + 1):
            parser = Parser().set_excel_file_path(path).set_entrypoint_cell(Cell('S', 'C', str(row)))
            result = attempt(lambda: functions_of(parser.get_translation()))
            out.append(f'good C{row} {GOOD[row - 1]} -> {result}')
        for row in range(1, len(BAD) + 1):
            parser = Parser().set_excel_file_path(path).set_entrypoint_cell(Cell('S', 'E', str(row)))
            out.append(f'bad E{row} {BAD[row - 1]} -> ' + attempt(lambda: functions_of(parser.get_translation())))
        # a workbook with only the good formulas, translated as a whole and executed
        wb_path = os.path.join(tmp, 'good.xlsx')
        from openpyxl import load_workbook
        wb = load_workbook(path)
        ws = wb['S']
        for row in range(1, len(BAD) + 1):
            ws.cell(row=row, column=5).value = None
        ws.cell(row=36, column=3).value = None
        wb.save(wb_path)
        Parser().set_excel_file_path(wb_path).write_translation(out_py)
        text = open(out_py, encoding='utf-8').read()
        out.append('all-functions ' + hashlib.sha256(functions_of(text).encode()).hexdigest())
        out.append('whole-class ' + hashlib.sha256(text.encode()).hexdigest())
        overrides = [[], [('A', '1', 0)], [('A', '1', 7)], [('A', '2', False)], [('A', '3', True)],
                     [('A', '2', False), ('A', '3', True)], [('A', '4', 2)], [('A', '6', 5)], [('A', '5', 'n')],
                     [('A', '8', 'filled')], [('A', '7', 4)], [('A', '1', '#REF!')], [('A', '1', ''), ('A', '2', '')],
                     [('A', '1', 5), ('A', '4', 5)]]
        for override in overrides:
            executor = Executor().set_executed_class(class_file=out_py)
            if override:
                executor.set_cells([Cell('S', c, r, value=v) for c, r, v in override])
            for row in range(1, len(GOOD) + 1):
                value = attempt(lambda: executor.get_cell(Cell('S', 'C', str(row))).value)
                out.append(f'val {override} C{row} {value}')

        # direct translator / token calls on hand-parsed formulas
        excel = Excel.parse(wb_path)
        for formula in GOOD + ['=IF(A1,2)', '=IF(A1,2,3)', '=IFERROR(A1,2)']:
            cell = Cell(0, 9, 0)
            cell.value = formula
            context = Context()
            try:
                ast = AstBuilder.parse(Lexer.parse(formula, in_cell=cell), in_cell=cell)
            except BaseException as exc:  # noqa
                out.append(f'direct {formula} parse EXC:{type(exc).__name__}')
                continue
            stack, seen = [ast], 0
            while stack:
                token = stack.pop()
                if isinstance(token, IfControlConstructionToken):
                    seen += 1
                    out.append(f'direct {formula} IF len={len(token.value)} when_false={token.when_false!s:.60} '
                               + attempt(IfControlConstructionTokenTranslator.translate, token, excel, context))
                    out.append(f'direct {formula} IF subcells={context._sub_cell_translations!r}')
                if isinstance(token, IfErrorControlConstructionToken):
                    seen += 1
                    out.append(f'direct {formula} IFERROR '
                               + attempt(IfErrorControlConstructionTokenTranslator.translate, token, excel, context))
                value = getattr(token, 'value', None)
                if isinstance(value, (list, tuple)):
                    stack.extend(reversed([v for v in value if hasattr(v, 'value')]))
            out.append(f'direct {formula} seen={seen}')
        # malformed token objects handed straight to the property
        for length in range(0, 11):
            token = IfControlConstructionToken(list(range(length)), Cell(0, 0, 0))
            out.append(f'when_false len={length} ' + attempt(lambda: token.when_false))
    finally:
        shutil.rmtree(tmp, ignore_errors=True)
    for line in out:
        print(line)
    print('lines', len(out), 'digest', hashlib.sha256('\n'.join(out).encode()).hexdigest())


if __name__ == '__main__':
    main()
