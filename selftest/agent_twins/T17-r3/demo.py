"""Equivalence demo for r3 (_match: row filter / case-insensitive comparison / ordered scan extracted into nested
helpers, the two duplicated ordered loops merged; both runtime copies).

Run as: PYTHONPATH=<tree> /venv/bin/python demo.py
Prints a deterministic digest; the output must be identical on the unchanged and the refactored tree.
"""
import datetime
import hashlib
import os
import re
import shutil
import sys
import tempfile

from openpyxl import Workbook

from excel2pycl import Parser, Executor, Cell
from excel2pycl.src.utilities.abstract_excel_in_python_class import AbstractExcelInPython

LINES = []


def out(*parts):
    LINES.append(' | '.join(str(p) for p in parts))


def show(value):
    return f'{type(value).__name__}:{value!r}'


def call(function, *args, **kwargs):
    try:
        return show(function(*args, **kwargs))
    except BaseException as error:  # noqa
        return 'raised ' + type(error).__name__


class Direct(AbstractExcelInPython):
    pass


class Text(str):
    """a str subclass: the type test of _match uses isinstance"""


D = datetime.datetime


def arrays(instance):
    empty = instance.EmptyCell()
    column = lambda *keys: [[key] for key in keys]  # noqa
    return {
        'empty': [],
        'asc ints': column(10, 20, 30, 40, 50),
        'asc ints dup': column(10, 20, 20, 20, 30, 30, 40),
        'desc ints': column(50, 40, 30, 20, 10),
        'desc dup': column(50, 40, 40, 30, 30, 30, 10),
        'unsorted': column(30, 10, 50, 20, 40, 10, 30),
        'floats': column(0.5, 1.5, 2.5, 2.5, 3.75, 1e9),
        'int float mix': column(1, 1.0, 2, 2.5, 3, 3.0, 4.000000001),
        'neg': column(-30, -20, -10, 0, 10),
        'texts asc': column('apple', 'Banana', 'cherry', 'Date', 'elder'),
        'texts desc': column('elder', 'Date', 'cherry', 'Banana', 'apple'),
        'texts case dup': column('a', 'A', 'b', 'B', 'a', ''),
        'text numbers': column('1', '10', '2', '20', 3),
        'mixed': column(1, 'a', 2, 'b', None, 3, True, 'C', 2.5, False, empty, 4),
        'blanks inside': column(empty, 10, empty, 20, None, 30, empty),
        'only blanks': column(empty, empty, None),
        'bools': column(False, True, False, True),
        'bool int': column(0, False, 1, True, 2),
        'dates': column(D(2020, 1, 1), D(2021, 6, 15), D(2021, 6, 15), D(2024, 2, 29)),
        'dates desc': column(D(2024, 2, 29), D(2021, 6, 15), D(2020, 1, 1)),
        'date number mix': column(1, D(2020, 1, 1), 2, D(2021, 1, 1), 3),
        'wide rows': [[10, 'x', 1], [20, 'y', 2], [30, 'z', 3]],
        'tuples': [(10,), (20,), (30,)],
        'str rows': ['apple', 'banana', 'cherry'],
        'str subclass': column(Text('apple'), 'banana', Text('Cherry')),
        'nan': column(1.0, float('nan'), 3.0),
        'inf': column(float('-inf'), 0, float('inf')),
        'one': column(7),
        'one text': column('seven'),
        'lists as keys': column([1], [2], [3]),
        'break then fit': column(10, 20, 99, 30, 40),
        'text then number': column('a', 'b', 1, 2, 'c', 3),
        'bad empty row': [[10], [], [30]],
        'bad scalar row': [[10], 20, [30]],
        'bad none row': [[10], None],
        'first row bad': [[], [10]],
    }


def lookup_values(instance):
    return [10, 20, 25, 30, 5, 55, 0, -10, -15, 1, 1.0, 2.5, 2.50, 3, 4, 7, 7.0, 99, 1e9, True, False, None,
            instance.EmptyCell(), '', 'a', 'A', 'b', 'apple', 'APPLE', 'banana', 'Cherry', 'cherry pie', 'd', 'zzz',
            '1', '2', '10', 'seven', 'SEVEN', Text('Apple'), D(2021, 6, 15), D(2019, 1, 1), D(2030, 1, 1),
            D(2022, 1, 1), datetime.date(2021, 6, 15), float('nan'), float('inf'), [1], [2], (10,), b'a']


MATCH_TYPES = [0, 1, -1, 2, -5, 0.0, 0.5, -0.5, True, False]
ODD_MATCH_TYPES = [None, '1', '0', float('nan'), [0], 'x']


def exercise_helpers(label, instance):
    digest = hashlib.sha256()
    count = 0
    named = arrays(instance)
    values = lookup_values(instance)
    for name, lookup_array in named.items():
        for lookup_value in values:
            cells = []
            for match_type in MATCH_TYPES:
                cells.append(call(instance._match, lookup_value, lookup_array, match_type))
            cells.append('default ' + call(instance._match, lookup_value, lookup_array))
            # XMATCH with linear search goes through _match (from the start and from the end)
            for match_mode in (0, 1, -1):
                for search_mode in (1, -1):
                    cells.append(call(instance._xmatch, lookup_value, lookup_array, match_mode, search_mode))
            line = f'{label} [{name}] {lookup_value!r} -> ' + ' '.join(cells)
            digest.update(line.encode())
            count += 1
            if count % 23 == 0 or name in ('asc ints', 'texts case dup', 'mixed', 'bad empty row'):
                out(line)
    for match_type in ODD_MATCH_TYPES + [instance.EmptyCell()]:
        for name in ('asc ints', 'texts asc', 'empty', 'bad scalar row'):
            line = f'{label} odd match type {match_type!r} [{name}] -> ' + call(instance._match, 20, named[name],
                                                                               match_type)
            digest.update(line.encode())
            out(line)
    for lookup_array in (None, 5, 'text', iter([[10], [20], [30]]), ((k,) for k in (30, 20, 10)), {10: 1, 20: 2},
                         range(3)):
        described = type(lookup_array).__name__
        for match_type in (0, 1, -1, 7.5):
            if described in ('list_iterator', 'generator'):
                lookup_array = iter([[10], [20], [30]])
            line = f'{label} odd array {described} {match_type} -> ' + call(instance._match, 20, lookup_array,
                                                                           match_type)
            digest.update(line.encode())
            out(line)
    out(label, 'keyword call', call(instance._match, lookup_value='B', lookup_array=[['a'], ['b'], ['c']],
                                    match_type=0),
        call(instance._match, 'B', match_type=1, lookup_array=[['a'], ['b'], ['c']]))
    # the arguments are not modified
    table = [[3], [1], [2]]
    instance._match(2, table, 0), instance._match(2, table, 1), instance._match(2, table, -1)
    out(label, 'argument untouched', table)
    out(label, 'helpers digest', count, digest.hexdigest())


INPUTS = [
    # A (asc)  B (text)    C (desc)  D (mixed)
    [10, 'apple', 50, 1],
    [20, 'Banana', 40, 'a'],
    [20, 'cherry', 40, None],
    [30, 'Date', 30, 2.5],
    [40, 'elder', 20, 'B'],
    [None, None, 10, True],
    [50, 'fig', None, 3],
]

FORMULAS = [
    '=MATCH(20,A1:A7,0)', '=MATCH(20,A1:A7,1)', '=MATCH(20,A1:A7)', '=MATCH(25,A1:A7,1)', '=MATCH(25,A1:A7,0)',
    '=MATCH(5,A1:A7,1)', '=MATCH(99,A1:A7,1)', '=MATCH(50,A1:A7,0)', '=MATCH(20,A1:A7,-1)', '=MATCH(35,C1:C7,-1)',
    '=MATCH(40,C1:C7,-1)', '=MATCH(60,C1:C7,-1)', '=MATCH(5,C1:C7,-1)', '=MATCH(40,C1:C7,0)',
    '=MATCH("banana",B1:B7,0)', '=MATCH("BANANA",B1:B7,0)', '=MATCH("c",B1:B7,1)', '=MATCH("zzz",B1:B7,1)',
    '=MATCH("a",B1:B7,1)', '=MATCH("grape",B1:B7,0)', '=MATCH("b",D1:D7,0)', '=MATCH(2.5,D1:D7,0)',
    '=MATCH(3,D1:D7,0)', '=MATCH(3,D1:D7,1)', '=MATCH(1,D1:D7,0)', '=MATCH(20.0,A1:A7,0)', '=MATCH(E1,A1:A7,0)',
    '=MATCH(E1,A1:A7,1)', '=MATCH(E2,B1:B7,0)', '=MATCH(E3,A1:A7,0)', '=MATCH(E3,A1:A7,1)', '=MATCH(A4,A1:A7,0)',
    '=MATCH(A1+A2,A1:A7,0)', '=MATCH(20,A1:A7,E4)', '=MATCH(20;A1:A7;0)', '=MATCH(20,A:A,0)',
    '=INDEX(B1:B7,MATCH(30,A1:A7,0))', '=INDEX(B1:B7,MATCH(35,A1:A7,1))', '=INDEX(A1:A7,MATCH("date",B1:B7,0))',
    '=INDEX(A1:D7,MATCH("elder",B1:B7,0),3)', '=INDEX(B1:B7,MATCH(99,A1:A7,0))',
    '=IFERROR(MATCH(99,A1:A7,0),"none")', '=IF(MATCH(30,A1:A7,0)=4,"fourth","other")', '=MATCH(30,A1:A7,0)*10+1',
    '=XMATCH(20,A1:A7)', '=XMATCH(20,A1:A7,0,1)', '=XMATCH(20,A1:A7,0,-1)', '=XMATCH(25,A1:A7,-1,1)',
    '=XMATCH(25,A1:A7,1,1)', '=XMATCH(25,A1:A7,-1,-1)', '=XMATCH(25,A1:A7,1,-1)', '=XMATCH(40,C1:C6,0,-1)',
    '=XMATCH("CHERRY",B1:B7,0,1)', '=XMATCH("CHERRY",B1:B7,0,-1)', '=XMATCH(99,A1:A7,0,1)', '=XMATCH(20,A1:A5,0,2)',
    '=XMATCH(25,A1:A5,-1,2)', '=XMATCH(25,A1:A5,1,2)', '=XMATCH(40,C1:C6,0,-2)', '=XMATCH(20,A1:A7,0,3)',
    # rejected at translation
    '=MATCH(20)', '=MATCH()', '=MATCH(20,A1:A7,0,1)', '=MATCH(20,A1:A7,0',
]

OVERRIDES = [
    {'E1': 20, 'E2': 'CHERRY', 'E4': 0},
    {'E1': 20.0, 'E2': 'fig', 'E4': 1, 'A2': 15},
    {'E1': '20', 'E2': '', 'E4': -1, 'A1': 60, 'A2': 55},
    {'E1': None, 'E2': 5, 'E3': 0, 'E4': 2, 'A6': 45},
    {'E1': True, 'E2': 'apple', 'E3': 50, 'E4': '0', 'B1': 'APPLE', 'D2': 'b'},
]


def save_workbook(folder, name, formulas):
    workbook = Workbook()
    sheet = workbook.active
    sheet.title = 'S'
    for row in INPUTS:
        sheet.append(row)
    for number, formula in enumerate(formulas):
        sheet.cell(row=number + 1, column=7, value=formula)
    path = os.path.join(folder, name)
    workbook.save(path)
    return path


def exercise_workbook(folder):
    accepted = []
    functions_digest = hashlib.sha256()
    for number, formula in enumerate(FORMULAS):
        path = save_workbook(folder, f'book_{number}.xlsx', [formula])
        target = os.path.join(folder, f'cls_{number}.py')
        try:
            translation = Parser().set_excel_file_path(path).set_entrypoint_cell(Cell(0, 6, 0)).get_translation()
        except BaseException as error:  # noqa
            out('formula', formula, 'translation raised', type(error).__name__)
            continue
        accepted.append(formula)
        cell_functions = re.findall(r'^    def (_\d+_\d+_\d+(?:_\d+)?)\(self\):\n        return (.*)$', translation,
                                    re.M)
        functions_digest.update(repr(cell_functions).encode())
        with open(target, 'w', encoding='utf-8') as file:
            file.write(translation)
        executor = Executor().set_executed_class(class_file=target)
        results = [call(lambda: executor.get_cell(Cell(0, 6, 0)).value)]
        for override in OVERRIDES:
            executor.set_cells([Cell('S', address[0], address[1:], value=value) for address, value in override.items()])
            results.append(call(lambda: executor.get_cell(Cell('S', 'G', '1')).value))
        out('formula', formula, dict(cell_functions).get('_0_6_0'), *results)
    out('cell functions digest', functions_digest.hexdigest())

    path = save_workbook(folder, 'book_all.xlsx', accepted)
    target = os.path.join(folder, 'cls_all.py')
    Parser().set_excel_file_path(path).write_translation(target)
    executor = Executor().set_executed_class(class_file=target)
    for number, formula in enumerate(accepted):
        out('whole file', formula, call(lambda: executor.get_cell(Cell(0, 6, number)).value))
    return executor.get_executed_class()


def main():
    folder = tempfile.mkdtemp(prefix='demo_r3_')
    sys.dont_write_bytecode = True
    try:
        exercise_helpers('class copy', Direct())
        template_instance = exercise_workbook(folder)
        exercise_helpers('template copy', template_instance)
    finally:
        shutil.rmtree(folder, ignore_errors=True)
    text = '\n'.join(LINES)
    print(text)
    print('TOTAL', len(LINES), hashlib.sha256(text.encode()).hexdigest())


if __name__ == '__main__':
    main()
