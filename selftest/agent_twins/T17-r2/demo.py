"""Equivalence demo for r2 (IF translator: tuple of translations -> sequential locals, conditional expression -> if).

Run as: PYTHONPATH=<tree> /venv/bin/python demo.py
Prints a deterministic digest (generated text included: this refactoring must not change a single character of it);
the output must be identical on the unchanged and the refactored tree.
"""
import hashlib
import os
import shutil
import sys
import tempfile

from openpyxl import Workbook

from excel2pycl import Parser, Executor, Cell, Context, Excel
from excel2pycl.src.ast_builder import AstBuilder
from excel2pycl.src.lexer import Lexer
from excel2pycl.src.tokens import IfControlConstructionToken
from excel2pycl.src.translators.if_cc_token_translator import IfControlConstructionTokenTranslator

LINES = []


def out(*parts):
    LINES.append(' | '.join(str(p) for p in parts))


def show(value):
    return f'{type(value).__name__}:{value!r}'


def call(function, *args):
    try:
        return show(function(*args))
    except BaseException as error:  # noqa
        return 'raised ' + type(error).__name__


INPUTS = [
    # A      B        C
    [5, 'apple', 10],
    [-3, 'pear', 20],
    [0, '', 30],
    [True, '#N/A', 40],
    [False, 'Apple', None],
    [None, None, 2.5],
]

FORMULAS = [
    '=IF(A1>0,"pos","non-pos")', '=IF(A2>0,"pos","non-pos")', '=IF(A3>0,"pos")', '=IF(A1>0,"pos")', '=IF(A1,1,2)',
    '=IF(A3,1,2)', '=IF(A4,1,2)', '=IF(A5,1,2)', '=IF(A6,1,2)', '=IF(B3,1,2)', '=IF(B1,1,2)', '=IF(A6,"blank true")',
    '=IF(A1>0,0)', '=IF(A1<0,0)', '=IF(A1>0,FALSE,TRUE)', '=IF(A1>0,TRUE)', '=IF(A1<0,TRUE)', '=IF(TRUE,1,2)',
    '=IF(FALSE,1,2)', '=IF(FALSE,1)', '=IF(0,1,2)', '=IF(1,1,2)', '=IF("",1,2)', '=IF(A1=5,"five",A1)',
    '=IF(A1<>5,"not five",A1+1)', '=IF(A1>=5,A1*2,A1/2)', '=IF(A2<=-3,A2*2,A2/2)', '=IF(B1="APPLE","same","other")',
    '=IF(B1=B5,"same","other")', '=IF(B2>B1,"pear wins","apple wins")',
    # only the chosen branch is evaluated
    '=IF(A1,1/0,2)', '=IF(A3,1/0,2)', '=IF(A1,2,1/0)', '=IF(A3,2,1/0)', '=IF(A1>0,"ok","x"+1)', '=IF(A3>0,"ok","x"+1)',
    '=IF(1/0,1,2)',
    # sub-cells (ranges, functions) inside the three arguments: their numbering depends on the translation order
    '=IF(SUM(A1:A3)>0,SUM(C1:C2),SUM(C2:C4))', '=IF(SUM(A2:A3)>0,SUM(C1:C2),SUM(C2:C4))',
    '=IF(SUM(C1:C2)>0,SUM(C1:C2),SUM(C1:C2))', '=IF(MAX(C1:C4)>MIN(C1:C4),MAX(C1:C4),MIN(C1:C4))',
    '=IF(VLOOKUP(-3,A1:C4,3,FALSE)=20,VLOOKUP(5,A1:C4,2,FALSE),MATCH(30,C1:C4,0))',
    '=IF(MATCH(30,C1:C4,0)=2,VLOOKUP(5,A1:C4,2,FALSE),MATCH(30,C1:C4,0))',
    '=IF(COUNTBLANK(A1:B6)>2,AVERAGE(C1:C4),ROUND(C6,0))', '=IF(AND(A1>0,A2<0),OR(A3>0,A4),AND(A5,A4))',
    '=IF(SUM(C1:C4)>50,SUM(C1:C4))', '=IF(SUM(C1:C4)>500,SUM(C1:C4))', '=IF(LEFT(B1,1)="a",MID(B2,2,2),RIGHT(B1,2))',
    '=IF(IFERROR(A1/A3,0)>0,IFERROR(1/0,"t"),IFERROR(1/0,"f"))', '=IF(IFS(A1>9,TRUE,TRUE,FALSE),"a","b")',
    '=IF(INDEX(C1:C4,2)=20,INDEX(A1:C4,1,2),INDEX(A1:C4,2,2))', '=IF(COLUMN(C1)=3,COLUMN(),ADDRESS(1,2))',
    # nesting and position inside larger expressions
    '=IF(A1>0,IF(A2>0,"a","b"),IF(A3>0,"c","d"))', '=IF(A2>0,IF(A2>0,"a","b"),IF(A3>0,"c"))',
    '=IF(IF(A1>5,0,1),"in","out")', '=IF(IF(A1>4,0,1),"in","out")', '=IF(A1>5,10,IF(A1>4,9,IF(A1>3,8,7)))',
    '=IF(A2>5,10,IF(A2>4,9,IF(A2>3,8)))', '=1+IF(A1>5,10,20)*2', '=IF(A1>5,10,20)&"x"', '="<"&IF(A1>4,B1,B2)&">"',
    '=IF(A1>4,1,2)+IF(A2>4,10,20)+IF(A3>4,100)', '=-IF(A1>4,1,2)', '=(IF(A1>4,1,2))', '=IF((A1>4),(1),(2))',
    '=IF(A1>4,1,2)=1', '=IF(A1>4,1,2)>IF(A2>4,1,2)', '=SUM(IF(A1>4,1,2),IF(A2>4,10,20))', '=IF(A1>0;"semi";"colon")',
    '=IF( A1 > 0 , "spaces" , "kept" )', '=if(A1>0,"lower","case")', '=IF(A1%>0.01,"pct","no")',
    "=IF(S!A1>0,S!B1,'S'!B2)", '=IF($A$1>0,$B1,B$2)',
    # rejected at translation
    '=IF(A1>0,"pos","neg"', '=IF()', '=IF(A1>0)', '=IF(A1>0,1,2,3)', '=IF(A1>0,,2)', '=IF(,1,2)', '=IF A1>0,1,2)',
    '=IF(A1>0,1,2))', '=IF(D100>0,1,2)+IF(', '=IF(A1>0,1,)',
]

OVERRIDES = [(100, 0, 0, 'ok'), (0, 5, -1, '#NUM!'), (-1, -1, 7, ''), ('text', None, 2, 'APPLE'), (4.5, -0.5, 1e9, 3)]


def save_workbook(folder, name, formulas):
    workbook = Workbook()
    sheet = workbook.active
    sheet.title = 'S'
    for row in INPUTS:
        sheet.append(row)
    for number, formula in enumerate(formulas):
        sheet.cell(row=number + 1, column=5, value=formula)
    path = os.path.join(folder, name)
    workbook.save(path)
    return path


def exercise_workbook(folder):
    accepted = []
    for number, formula in enumerate(FORMULAS):
        # one workbook per formula (the formula is in E1), so that a rejected formula does not hide the others
        path = save_workbook(folder, f'book_{number}.xlsx', [formula])
        target = os.path.join(folder, f'cls_{number}.py')
        try:
            translation = Parser().set_excel_file_path(path).set_entrypoint_cell(Cell(0, 4, 0)).get_translation()
        except BaseException as error:  # noqa
            out('formula', formula, 'translation raised', type(error).__name__, str(error)[:80])
            continue
        accepted.append(formula)
        functions = translation[translation.rindex("        return '#VALUE!'\n\n") + 26:]
        with open(target, 'w', encoding='utf-8') as file:
            file.write(translation)
        executor = Executor().set_executed_class(class_file=target)
        results = [call(lambda: executor.get_cell(Cell(0, 4, 0)).value)]
        for a1, a2, a3, b1 in OVERRIDES:
            executor.set_cells([Cell('S', 'A', '1', value=a1), Cell('S', 'A', '2', value=a2),
                                Cell('S', 'A', '3', value=a3), Cell('S', 'B', '1', value=b1)])
            results.append(call(lambda: executor.get_cell(Cell('S', 'E', '1')).value))
        out('formula', formula, 'text sha', hashlib.sha256(translation.encode()).hexdigest()[:16], *results)
        out('   generated', functions.strip().replace('\n', ' // '))

    # whole-file translation of the accepted formulas
    path = save_workbook(folder, 'book_all.xlsx', accepted)
    target = os.path.join(folder, 'cls_all.py')
    parser = Parser().set_excel_file_path(path)
    translation = parser.get_translation()
    parser.write_translation(target)
    out('whole file text', len(translation), hashlib.sha256(translation.encode()).hexdigest())
    executor = Executor().set_executed_class(class_file=target)
    for number, formula in enumerate(accepted):
        out('whole file', formula, call(lambda: executor.get_cell(Cell(0, 4, number)).value))
    return path


def exercise_translator_directly(path):
    """Calls the refactored classmethod itself on hand-parsed IF tokens, with a fresh context each time."""
    excel = Excel.parse(path)
    for formula in ['=IF(A1>0,SUM(C1:C2),SUM(C2:C4))', '=IF(SUM(C2:C4)>0,SUM(C1:C2))', '=IF(A1,B1)', '=IF(A1,B1,B2)',
                    '=IF(SUM(C1:C2)>1,IF(SUM(C1:C2)>2,SUM(C1:C3),SUM(C1:C2)),SUM(C1:C3))']:
        in_cell = Cell(0, 7, 0)
        excel.fill_cell(in_cell)
        ast = AstBuilder.parse(Lexer.parse(formula, in_cell=in_cell), in_cell=in_cell)

        def find(token):
            if isinstance(token, IfControlConstructionToken):
                return token
            value = token.value if isinstance(getattr(token, 'value', None), (list, tuple)) else []
            for item in value:
                found = find(item) if hasattr(item, 'value') else None
                if found:
                    return found
            return None

        if_token = find(ast)
        context = Context()
        text = IfControlConstructionTokenTranslator.translate(if_token, excel, context)
        out('direct', formula, text)
        out('   sub cells', context._sub_cell_translations)
        out('   cells', sorted(context._cell_translations.items()))
        out('   has else', if_token.when_false is not None, type(if_token.condition).__name__)
        # translating the same token again in the same context is idempotent for the numbering
        out('   again', IfControlConstructionTokenTranslator.translate(if_token, excel, context) == text,
            context._sub_cell_translations)


def main():
    folder = tempfile.mkdtemp(prefix='demo_r2_')
    sys.dont_write_bytecode = True
    try:
        path = exercise_workbook(folder)
        exercise_translator_directly(path)
    finally:
        shutil.rmtree(folder, ignore_errors=True)
    text = '\n'.join(LINES)
    print(text)
    print('TOTAL', len(LINES), hashlib.sha256(text.encode()).hexdigest())


if __name__ == '__main__':
    main()
