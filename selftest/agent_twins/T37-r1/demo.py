"""Equivalence demo for the SUMIFS / COUNTIFS / AVERAGEIFS pairing helper.

Runs the conditional aggregates through (a) translated workbooks and the Executor, (b) direct calls of the
runtime helpers on the generated class and on the AbstractExcelInPython copy.  Prints a deterministic digest.
"""
import sys
sys.dont_write_bytecode = True

import datetime
import hashlib
import os
import random
import shutil
import tempfile
import warnings

warnings.simplefilter('ignore')

from openpyxl import Workbook

from excel2pycl import Parser, Executor, Cell
from excel2pycl.src.object_loader import load_module
from excel2pycl.src.utilities.abstract_excel_in_python_class import AbstractExcelInPython


class Direct(AbstractExcelInPython):
    pass


def show(value):
    if isinstance(value, float):
        return 'float:' + repr(value)
    if isinstance(value, list):
        return '[' + ', '.join(show(i) for i in value) + ']'
    return type(value).__name__ + ':' + repr(value)


def attempt(function, *args, **kwargs):
    try:
        return show(function(*args, **kwargs))
    except BaseException as error:  # the class name and the message are part of the digest
        return 'raised ' + type(error).__name__ + ': ' + str(error)


def cell_functions(text):
    marker = "        return '#VALUE!'\n\n"
    return text[text.rindex(marker) + len(marker):]


ROWS = [
    # A      B        C      D                              E      F
    [1,      'apple', 10,    datetime.datetime(2024, 1, 1), True,  'x1'],
    [2,      'Apple', 20.5,  datetime.datetime(2024, 2, 1), False, 'x?'],
    [3,      'pear',  None,  datetime.datetime(2024, 3, 1), True,  'a*b'],
    [4,      'plum',  40,    None,                          None,  'a~b'],
    [5,      None,    50,    datetime.datetime(2024, 5, 1), False, ''],
    [6,      'APPLE', '60',  datetime.datetime(2024, 1, 1), True,  'axxb'],
    [-7,     'fig',   70,    datetime.datetime(2023, 1, 1), 1,     'x12'],
    [0,      'a.c',   0,     datetime.datetime(2024, 1, 1), 0,     'abc'],
]

CRITERIA = [
    '">3"', '">=3"', '"<3"', '"<=3"', '"<>3"', '"=3"', '3', '"apple"', '"APPLE"', '"<>apple"', '"a*"', '"*e"',
    '"?pple"', '"p??r"', '"a~*b"', '"x~?"', '"*"', '"a.c"', '">2.5"', '"<1e1"', '">"&H1', '"<="&H2', '"<>"&H3',
    'H1', 'H3', 'H4', '"="&H1', 'TRUE', 'FALSE', '""', '">"', '"<>"', 'H5',
]


def build_workbook(path):
    workbook = Workbook()
    sheet = workbook.active
    for row in ROWS:
        sheet.append(row)
    for index, value in enumerate([3, 2, 'apple', datetime.datetime(2024, 1, 1), 'p*', None], start=1):
        sheet.cell(row=index, column=8, value=value)  # H1..H6
    formulas = []
    for criterion in CRITERIA:
        formulas.append(f'=SUMIF(A1:A8,{criterion})')
        formulas.append(f'=SUMIF(B1:B8,{criterion},C1:C8)')
        formulas.append(f'=SUMIF(A1:A8,{criterion},C1:C4)')
        formulas.append(f'=SUMIFS(A1:A8,A1:A8,{criterion})')
        formulas.append(f'=SUMIFS(C1:C8,B1:B8,{criterion})')
        formulas.append(f'=SUMIFS(A1:A8,B1:B8,{criterion},A1:A8,">1")')
        formulas.append(f'=SUMIFS(A1:A8,F1:F8,{criterion},E1:E8,TRUE)')
        formulas.append(f'=SUMIFS(A1:A8,D1:D8,{criterion})')
        formulas.append(f'=COUNTIFS(A1:A8,{criterion})')
        formulas.append(f'=COUNTIFS(B1:B8,{criterion},A1:A8,"<6")')
        formulas.append(f'=COUNTIFS(F1:F8,{criterion},B1:B8,"<>pear",A1:A8,">=0")')
        formulas.append(f'=COUNTIFS(E1:E8,{criterion})')
        formulas.append(f'=AVERAGEIFS(A1:A8,A1:A8,{criterion})')
        formulas.append(f'=AVERAGEIFS(A1:A8,B1:B8,{criterion})')
        formulas.append(f'=AVERAGEIFS(A1:A8,F1:F8,{criterion},A1:A8,"<>4")')
        formulas.append(f'=AVERAGEIFS(C1:C8,A1:A8,{criterion})')
    # ranges of different sizes
    formulas += ['=SUMIFS(A1:A8,B1:B7,"apple")', '=SUMIFS(A1:A8,B1:B8,"apple",C1:C9,">1")',
                 '=COUNTIFS(A1:A8,">1",B1:B3,"apple")', '=AVERAGEIFS(A1:A8,B1:B9,"apple")',
                 '=AVERAGEIFS(A1:A4,A1:B2,">1")', '=SUMIFS(A1:B4,C1:D4,">1")', '=SUMIFS(A1:B4,A1:A8,">1")',
                 '=COUNTIFS(A1:B2,">1",C1:C4,">1")', '=SUMIF(A1:A8,">1",C1:C3)', '=AVERAGEIFS(B1:B8,A1:A8,">1")',
                 '=AVERAGEIFS(J1:J8,A1:A8,">1")', '=SUMIFS(J1:J8,A1:A8,">1")', '=COUNTIFS(J1:J8,"")']
    for index, formula in enumerate(formulas, start=1):
        sheet.cell(row=index, column=12, value=formula)  # column L
    workbook.save(path)
    return len(formulas)


def logging_criterion(log, name, accept):
    def criterion(value):
        log.append(name + '(' + show(value) + ')')
        return accept(value)
    return criterion


def direct_calls(instance, lines, label):
    empty = instance.EmptyCell()
    ranges = {
        'num': [[1], [2], [3], [4]],
        'row': [[1, 2, 3, 4]],
        'flat': [1, 2, 3, 4],
        'mixed': [[True], [False], [empty], [None]],
        'text': [['a'], ['B'], [''], ['3']],
        'float': [[0.1], [0.2], [0.30000000000000004], [1e308]],
        'big': [[1e308], [1e308], [-1e308], [5]],
        'square': [[1, 2], [3, 4]],
        'short': [[1], [2], [3]],
        'long': [[1], [2], [3], [4], [5]],
        'none': [],
        'nested': [[[1], [2]], [[3, [4]]]],
        'dates': [[datetime.datetime(2024, 1, 1)], [datetime.datetime(2024, 1, 2)], [empty], [7]],
        'scalar': 5,
    }

    def raises_on_text(value):
        return value > 2

    criteria = {
        'gt2': lambda value: value > 2,
        'any': lambda value: True,
        'nothing': lambda value: False,
        'truthy': lambda value: value,
        'is_zero': lambda value: value == 0,
        'texty': lambda value: isinstance(value, str),
        'typeerr': raises_on_text,
        'not_callable': 3,
    }
    names = sorted(ranges)
    for target in names:
        for first in names:
            for crit in sorted(criteria):
                args = (ranges[target], ranges[first], criteria[crit])
                lines.append(f'{label} sumifs {target} {first} {crit} -> ' + attempt(instance._sumifs, *args))
                lines.append(f'{label} averageifs {target} {first} {crit} -> ' + attempt(instance._averageifs, *args))
                lines.append(f'{label} countifs {target} {first} {crit} -> ' + attempt(
                    instance._countifs, ranges[target], criteria['any'], ranges[first], criteria[crit]))
                lines.append(f'{label} countifs2 {target} {first} {crit} -> ' + attempt(
                    instance._countifs, ranges[target], criteria[crit], ranges[first], criteria['truthy']))
    # odd and empty argument lists, several pairs, the order in which criteria are asked
    for function in ('_sumifs', '_averageifs'):
        bound = getattr(instance, function)
        lines.append(f'{label} {function} no pairs -> ' + attempt(bound, ranges['num']))
        lines.append(f'{label} {function} lone range -> ' + attempt(bound, ranges['num'], ranges['row']))
        lines.append(f'{label} {function} lone bad range -> ' + attempt(bound, ranges['num'], ranges['short']))
        lines.append(f'{label} {function} three -> ' + attempt(
            bound, ranges['num'], ranges['row'], criteria['gt2'], ranges['flat']))
        lines.append(f'{label} {function} three bad -> ' + attempt(
            bound, ranges['num'], ranges['row'], criteria['gt2'], ranges['long']))
        lines.append(f'{label} {function} second bad -> ' + attempt(
            bound, ranges['num'], ranges['row'], criteria['typeerr'], ranges['long'], criteria['any']))
        lines.append(f'{label} {function} criterion in range place -> ' + attempt(
            bound, ranges['num'], criteria['gt2'], ranges['num']))
        log = []
        lines.append(f'{label} {function} logged -> ' + attempt(
            bound, ranges['num'], ranges['mixed'], logging_criterion(log, 'p', lambda value: value != 0),
            ranges['text'], logging_criterion(log, 'q', lambda value: value != 'B'),
            ranges['row'], logging_criterion(log, 'r', lambda value: value < 4)) + ' log ' + ' '.join(log))
        log = []
        lines.append(f'{label} {function} logged raise -> ' + attempt(
            bound, ranges['num'], ranges['row'], logging_criterion(log, 'p', lambda value: value != 2),
            ranges['text'], logging_criterion(log, 'q', raises_on_text)) + ' log ' + ' '.join(log))
    bound = instance._countifs
    lines.append(f'{label} _countifs no pairs -> ' + attempt(bound, ranges['mixed'], criteria['any']))
    lines.append(f'{label} _countifs no pairs zero -> ' + attempt(bound, ranges['mixed'], criteria['is_zero']))
    lines.append(f'{label} _countifs lone range -> ' + attempt(bound, ranges['num'], criteria['any'], ranges['row']))
    lines.append(f'{label} _countifs lone bad -> ' + attempt(bound, ranges['num'], criteria['any'], ranges['short']))
    lines.append(f'{label} _countifs bool kept -> ' + attempt(
        bound, ranges['num'], criteria['any'], ranges['mixed'], lambda value: value is True or value is False))
    lines.append(f'{label} _countifs bool as one -> ' + attempt(
        bound, ranges['num'], criteria['any'], ranges['mixed'], lambda value: value == 1))
    lines.append(f'{label} _sumifs bool as one -> ' + attempt(
        instance._sumifs, ranges['num'], ranges['mixed'], lambda value: value is True or value is False))
    lines.append(f'{label} _sumifs bool as int -> ' + attempt(
        instance._sumifs, ranges['num'], ranges['mixed'], lambda value: type(value) is int))
    lines.append(f'{label} _averageifs bool as int -> ' + attempt(
        instance._averageifs, ranges['num'], ranges['mixed'], lambda value: type(value) is int))
    log = []
    lines.append(f'{label} _countifs logged -> ' + attempt(
        bound, ranges['mixed'], logging_criterion(log, 'c', lambda value: True),
        ranges['mixed'], logging_criterion(log, 'p', lambda value: value != 0),
        ranges['text'], logging_criterion(log, 'q', lambda value: value != 'B')) + ' log ' + ' '.join(log))

    # seeded random cross-check
    generator = random.Random(20240917)
    pool = [0, 1, 2, 3, -1, 2.5, 1e16, 0.1, True, False, None, '', 'a', 'A', '3', empty,
            datetime.datetime(2024, 1, 1)]
    tests = [lambda value: value == 0, lambda value: value != 0, lambda value: bool(value),
             lambda value: isinstance(value, int), lambda value: str(value).lower() == 'a',
             lambda value: value > 1, lambda value: value is None]
    for number in range(400):
        size = generator.randint(0, 6)
        target = [[generator.choice(pool)] for _ in range(size)]
        arguments = []
        for _ in range(generator.randint(0, 3)):
            other = size if generator.random() < 0.85 else generator.randint(0, 6)
            arguments.append([[generator.choice(pool)] for _ in range(other)])
            arguments.append(generator.choice(tests))
        if generator.random() < 0.1 and arguments:
            arguments.pop()
        lines.append(f'{label} random {number} sumifs -> ' + attempt(instance._sumifs, target, *arguments))
        lines.append(f'{label} random {number} averageifs -> ' + attempt(instance._averageifs, target, *arguments))
        lines.append(f'{label} random {number} countifs -> ' + attempt(
            instance._countifs, target, generator.choice(tests), *arguments))


def main():
    lines = []
    directory = tempfile.mkdtemp(prefix='e2p_demo_')
    try:
        workbook_path = os.path.join(directory, 'criteria.xlsx')
        class_path = os.path.join(directory, 'criteria_class.py')
        count = build_workbook(workbook_path)
        parser = Parser().set_excel_file_path(workbook_path)
        parser.write_translation(class_path)
        text = open(class_path, encoding='utf-8').read()
        lines.append('cell functions sha256 ' + hashlib.sha256(cell_functions(text).encode()).hexdigest())
        executor = Executor().set_executed_class(class_file=class_path)
        for row in range(count):
            lines.append(f'L{row + 1} -> ' + attempt(lambda: executor.get_cell(Cell(0, 11, row)).value))
        # overrides: the same formulas after the data changed
        executor.set_cells([Cell(0, 0, 0, value=30), Cell(0, 1, 1, value='pear'), Cell(0, 7, 0, value=4),
                            Cell(0, 2, 2, value=True), Cell(0, 4, 3, value='TRUE')])
        for row in range(count):
            lines.append(f'L{row + 1} after override -> ' + attempt(lambda: executor.get_cell(Cell(0, 11, row)).value))
        generated = load_module(class_path).ExcelInPython()
        direct_calls(generated, lines, 'generated')
        direct_calls(Direct(), lines, 'abstract')
    finally:
        shutil.rmtree(directory, ignore_errors=True)
    digest = hashlib.sha256('\n'.join(lines).encode()).hexdigest()
    for line in lines:
        print(line)
    print('lines', len(lines))
    print('digest', digest)


if __name__ == '__main__':
    main()
