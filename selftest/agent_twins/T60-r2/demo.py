"""Equivalence demo for r2: the MATCH helper (_match, also reached through _xmatch) of both runtime copies.

Run as: PYTHONPATH=<tree> /venv/bin/python demo.py
Prints every result (values and exception class names) and a digest; the
output must be identical on the unchanged and on the refactored tree.
"""
import datetime
import hashlib
import importlib.util
import os
import shutil
import sys
import tempfile

from openpyxl import Workbook

from excel2pycl import Parser, Executor, Cell
from excel2pycl.src.utilities.abstract_excel_in_python_class import AbstractExcelInPython

LINES = []


def out(line):
    LINES.append(line)
    print(line)


def show(value):
    return f'{type(value).__name__}:{value!r}'


def attempt(function, *args):
    try:
        return show(function(*args))
    except BaseException as error:  # noqa - the class name is the observable
        return 'raises ' + type(error).__name__


class Handwritten(AbstractExcelInPython):
    pass


def load_generated(path):
    spec = importlib.util.spec_from_file_location('generated_r2_demo', path)
    module = importlib.util.module_from_spec(spec)
    spec.loader.exec_module(module)
    return module.ExcelInPython


COLUMNS = {
    # column letter -> ten cells (rows 1..10)
    'A': [10, 20, 30, 40, 50, 60, 70, 80, 90, 100],                      # ascending ints
    'B': [100, 90, 80, 70, 60, 50, 40, 30, 20, 10],                      # descending ints
    'C': [1.5, 2, 2.5, 3.0, 3, 4, 4.5, None, 6, 7.25],                   # ints and floats mixed, a blank
    'D': ['apple', 'Banana', 'cherry', 'DATE', 'elder', 'fig', 'Grape', None, 'kiwi', 'lime'],
    'E': [5, 'five', 5.0, None, '5', True, 6, 'SIX', 7, 'seven'],        # mixed kinds
    'F': [datetime.datetime(2024, 1, d) for d in range(1, 11)],
    'G': [None, None, 3, 3, 3, None, 9, 9, 12, None],                    # duplicates and blanks
}

LOOKUPS = [
    ('30', 'A'), ('35', 'A'), ('5', 'A'), ('100', 'A'), ('1000', 'A'), ('30.0', 'A'), ('30.5', 'A'),
    ('30', 'B'), ('35', 'B'), ('5', 'B'), ('1000', 'B'), ('100', 'B'),
    ('3', 'C'), ('3.0', 'C'), ('2.5', 'C'), ('2.75', 'C'), ('1', 'C'), ('5', 'C'), ('8', 'C'),
    ('"banana"', 'D'), ('"BANANA"', 'D'), ('"date"', 'D'), ('"coconut"', 'D'), ('"zebra"', 'D'), ('"a"', 'D'),
    ('5', 'E'), ('"five"', 'E'), ('"5"', 'E'), ('"six"', 'E'), ('6.0', 'E'), ('"SEVEN"', 'E'),
    ('DATE(2024;1;5)', 'F'), ('DATE(2023;12;31)', 'F'), ('DATE(2024;2;1)', 'F'),
    ('3', 'G'), ('9', 'G'), ('10', 'G'), ('0', 'G'), ('J1', 'G'), ('J1', 'D'), ('I1', 'A'), ('I2', 'D'), ('I3', 'C'),
]


def workbook_section(directory):
    workbook = Workbook()
    sheet = workbook.active
    for letter, values in COLUMNS.items():
        for row, value in enumerate(values, start=1):
            if value is not None:
                sheet[f'{letter}{row}'] = value
    sheet['I1'] = 40
    sheet['I2'] = 'Fig'
    sheet['I3'] = 4.5
    # J1 stays blank
    formulas = []
    for lookup, letter in LOOKUPS:
        for match_type in ('0', '1', '-1', None):
            tail = '' if match_type is None else ';' + match_type
            formulas.append(f'=MATCH({lookup};{letter}1:{letter}10{tail})')
        for match_mode, search_mode in (('0', '1'), ('0', '-1'), ('1', '1'), ('-1', '-1'), ('0', '2'), ('1', '2'), ('-1', '-2')):
            formulas.append(f'=XMATCH({lookup};{letter}1:{letter}10;{match_mode};{search_mode})')
    for index, formula in enumerate(formulas):
        sheet.cell(row=20 + index, column=1, value=formula)
    xlsx = os.path.join(directory, 'match.xlsx')
    workbook.save(xlsx)
    translation = os.path.join(directory, 'match_translation.py')
    Parser().set_excel_file_path(xlsx).write_translation(translation)

    text = open(translation, encoding='utf-8').read()
    cells_text = text[text.index('    def _0_0_0(self):'):]
    out('generated cell methods sha256 ' + hashlib.sha256(cells_text.encode()).hexdigest())
    shown = 0
    for line in cells_text.splitlines():
        if ('self._match(' in line or 'self._xmatch(' in line) and shown < 22:
            out('  ' + line.strip())
            shown += 1

    executor = Executor().set_executed_class(class_file=translation)
    for index, formula in enumerate(formulas):
        out(f'{formula} -> ' + attempt(lambda: executor.get_cell(Cell(0, 0, 19 + index)).value))

    # overridden lookup cells and overridden keys
    fresh = Executor().set_executed_class(class_file=translation)
    fresh.set_cells([Cell(0, 'I', '1', value=55), Cell(0, 'I', '2', value='KIWI'), Cell(0, 'J', '1', value=3),
                     Cell(0, 'G', '2', value=1), Cell(0, 'D', '8', value='hazel')])
    for index, formula in enumerate(formulas):
        if 'I1' in formula or 'I2' in formula or 'J1' in formula or 'G1:G10' in formula or 'D1:D10' in formula:
            out(f'override {formula} -> ' + attempt(lambda: fresh.get_cell(Cell(0, 0, 19 + index)).value))
    return translation


class Opaque:
    def __repr__(self):
        return 'Opaque()'


def direct_section(generated_class):
    runtimes = [('base', Handwritten()), ('generated', generated_class())]
    agreed = 0
    per_runtime = {}
    for name, runtime in runtimes:
        blank = runtime.EmptyCell()
        column = lambda values: [[v] for v in values]
        arrays = {
            'empty': [],
            'asc': column([1, 2, 3, 5, 8, 13]),
            'desc': column([13, 8, 5, 3, 2, 1]),
            'mixed_numbers': column([1, 1.5, 2, 2.0, 2.5, 3]),
            'with_blanks': column([blank, 1, blank, 2, 2, blank, 3]),
            'all_blank': column([blank, blank]),
            'texts': column(['a', 'B', 'c', 'D', 'e']),
            'texts_desc': column(['e', 'D', 'c', 'B', 'a']),
            'kinds': column([1, 'a', 2.0, True, None, blank, 'B', 3, datetime.datetime(2024, 1, 1), [1], 4]),
            'bools': column([False, True, True]),
            'dates': column([datetime.datetime(2024, 1, d) for d in (1, 3, 5)]),
            'dates_mixed': column([datetime.date(2024, 1, 1), datetime.datetime(2024, 1, 3), datetime.date(2024, 1, 5)]),
            'unsorted': column([5, 1, 9, 3, 7]),
            'wide_rows': [[1, 'x'], [2, 'y'], [3, 'z']],
            'tuples': [(1,), (2,), (3,)],
            'strings_as_rows': ['apple', 'banana', 'cherry'],
            'flat_numbers': [1, 2, 3],
            'empty_row': [[1], [], [3]],
            'nan': column([1, float('nan'), 3]),
            'none_rows': [None, [1]],
            'opaque': column([Opaque(), 1, 'a']),
        }
        lookups = [0, 1, 2, 2.0, 2.5, 4, 13, 14, -1, True, False, None, blank, '', 'a', 'A', 'b', 'c', 'z', 'D',
                   float('nan'), float('inf'), datetime.datetime(2024, 1, 3), datetime.date(2024, 1, 3),
                   datetime.datetime(2024, 1, 4), [1], (1,), Opaque(), object]
        match_types = [0, 1, -1, 2, -7, 0.0, 0.5, -0.5, True, False, None, blank, float('nan'), '0', '1', [], 10 ** 30]
        lines = []
        for array_name, array in arrays.items():
            for lookup in lookups:
                for match_type in match_types:
                    lines.append(f'_match {lookup!r} in {array_name} type {match_type!r} -> '
                                 + attempt(runtime._match, lookup, array, match_type))
                lines.append(f'_match {lookup!r} in {array_name} default -> ' + attempt(runtime._match, lookup, array))
                for match_mode in (0, 1, -1, 3, None):
                    for search_mode in (1, -1, 2, -2, 0, None):
                        lines.append(f'_xmatch {lookup!r} in {array_name} mode {match_mode!r} search {search_mode!r} -> '
                                     + attempt(runtime._xmatch, lookup, array, match_mode, search_mode))
        # lazily produced keys are consumed up to the answer only
        def rows(limit):
            for number in range(limit):
                yield [number * 2]
            raise RuntimeError('exhausted')
        for lookup, match_type in ((6, 0), (7, 0), (7, 1), (6, 1), (7, -1), (0, -1), (-1, 1)):
            lines.append(f'_match {lookup!r} in generator type {match_type!r} -> '
                         + attempt(runtime._match, lookup, rows(6), match_type))
        per_runtime[name] = lines
        digest = hashlib.sha256('\n'.join(lines).encode()).hexdigest()
        for line in lines:
            if ' in kinds ' in line or ' in with_blanks ' in line or ' in texts ' in line or ' in generator ' in line \
                    or ' in mixed_numbers type' in line or ' in empty_row type' in line:
                out(f'{name} {line}')
        out(f'{name} total {len(lines)} sha256 {digest}')

    agreed = sum(a == b for a, b in zip(per_runtime['base'], per_runtime['generated']))
    out(f'base and generated agree on {agreed} of {len(per_runtime["base"])} calls')

    # hand-written subclass and generated class give the same lookups, helper sets are the same
    helper_names = [sorted(n for n in vars(cls) if not n.startswith('__') and not n.startswith('_0_'))
                    for cls in (AbstractExcelInPython, generated_class)]
    out('base helpers: ' + ' '.join(helper_names[0]))
    out('generated helpers: ' + ' '.join(helper_names[1]))
    out('only in base: ' + ' '.join(sorted(set(helper_names[0]) - set(helper_names[1]))))
    out('only in generated: ' + ' '.join(sorted(set(helper_names[1]) - set(helper_names[0]))))


def main():
    directory = tempfile.mkdtemp(prefix='t60_r2_')
    try:
        translation = workbook_section(directory)
        direct_section(load_generated(translation))
    finally:
        shutil.rmtree(directory, ignore_errors=True)
    out('lines ' + str(len(LINES)))
    print('digest ' + hashlib.sha256('\n'.join(LINES).encode()).hexdigest())
    return 0


if __name__ == '__main__':
    sys.exit(main())
