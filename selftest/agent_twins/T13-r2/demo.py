import hashlib
import os
import shutil
import sys
import tempfile
import warnings

warnings.filterwarnings('ignore')

from openpyxl import Workbook

from excel2pycl import Parser, Executor, Cell
from excel2pycl.src.ast_builder import AstBuilder
from excel2pycl.src.context import Context
from excel2pycl.src.excel import Excel
from excel2pycl.src.lexer import Lexer
from excel2pycl.src.translators import CellTranslator

LINES = []


def out(*parts):
    line = ' | '.join(str(p) for p in parts)
    LINES.append(line)
    print(line)


def describe(func):
    try:
        return 'OK', func()
    except RecursionError as e:
        return 'EXC', 'RecursionError'
    except BaseException as e:  # noqa
        return 'EXC', f'{type(e).__name__}: {e}'


DATA = [
    [1, 2.5, 'apple', None],
    [10, -3, 'Banana', None],
    [7, 0, 'cherry', None],
    [None, 4, '', None],
    ['12', 'x', 'apple pie', None],
    [True, False, '2024-01-31', None],
]

FORMULAS = [
    # well-formed
    '=A1', '=A1+B1', '=A1 + B1', '=  A1+B1', '=A1+B1 ', '=(A1+B1)*2', '=-A1', '=+A1', '=--A1', '=A1%', '=A1%+1', '=50%*A2',
    '=A1&B1', '=A1&"x"&C1', '="a""b"', '=""', '="text"', '=1e3', '=1.5e-2', '=1.25', '=007', '=TRUE', '=FALSE', '=TRUE()',
    '=A1=B1', '=A1<>B1', '=A1>=B1', '=A1<=B1', '=A1>B1', '=A1<B1', '=A1/B1', '=A1/B3', '=A1*B1-A2/B2',
    '=SUM(A1:A3)', '=SUM(A1:A3,B1:B3)', '=SUM(A1:A3;B1:B3)', '=SUM( A1:A3 ; B1:B3 )', '=SUM(A1:B3)', '=SUM(A:A)',
    '=SUM(A1,2,3)', '=SUM(1)', '=AVERAGE(A1:A3)', '=AVERAGE(A1:A3,B1)', '=MIN(A1:A3)', '=MAX(A1:B3)', '=MIN(A1:A3,0)',
    '=IF(A1>B1,1,2)', '=IF(A1>B1;1;2)', '=IF(A1>B1,"y")', '=IF(A1>B1 , "y" , "n" )', '=IF(AND(A1>0,B1>0),"p","n")',
    '=IF(OR(A1>5,B1>5),"p","n")', '=IF(A1>B1,IF(A2>B2,1,2),3)', '=IFERROR(A1/B3,"div")', '=IFERROR(A1/B1,"div")',
    '=ROUND(B1,0)', '=ROUND(A1/3,2)', '=ROUNDUP(B1,0)', '=ROUNDUP(B1)', '=ROUNDUP(B1,)', '=ROUNDDOWN(B1,0)', '=ROUNDDOWN(B1)',
    '=LEFT(C1,2)', '=LEFT(C1)', '=RIGHT(C1,3)', '=RIGHT(C1)', '=MID(C1,2,3)', '=CONCATENATE(C1,"-",C2)', '=CONCATENATE(C1)',
    '=SEARCH("p",C1)', '=SEARCH("p",C1,3)', '=SEARCH("z",C1)', '=COUNT(A1:A6)', '=COUNTBLANK(A1:A6)', '=COUNTBLANK(D1:D6)',
    '=MATCH(7,A1:A3,0)', '=MATCH(7,A1:A3)', '=MATCH("cherry",C1:C3,0)', '=XMATCH(7,A1:A3)', '=XMATCH(7,A1:A3,0)', '=XMATCH(7,A1:A3,0,1)',
    '=VLOOKUP(10,A1:C3,3,FALSE)', '=VLOOKUP(10,A1:C3,3)', '=VLOOKUP(11,A1:C3,3,0)', '=INDEX(A1:C3,2,3)', '=INDEX(A1:C3,2)',
    '=SUMIF(A1:A3,">1")', '=SUMIF(A1:A3,">1",B1:B3)', '=SUMIF(A1:A3,7)', '=SUMIFS(B1:B3,A1:A3,">1")', '=COUNTIFS(A1:A3,">1")',
    '=COUNTIFS(C1:C5,"a*")', '=COUNTIFS(C1:C5,"?????")', '=AVERAGEIFS(B1:B3,A1:A3,">1")', '=IFS(A1>5,"a",A1>0,"b")',
    '=DATE(2024,1,31)', '=YEAR(DATE(2024,1,31))', '=MONTH(DATE(2024,1,31))', '=DAY(DATE(2024,1,31))', '=EOMONTH(DATE(2024,1,31),1)',
    '=EDATE(DATE(2024,1,31),1)', '=DATEDIF(DATE(2024,1,1),DATE(2024,3,1),"m")', '=NETWORKDAYS(DATE(2024,1,1),DATE(2024,1,31))',
    '=ADDRESS(1,1)', '=ADDRESS(2,3,4)', '=COLUMN(B1)', '=COLUMN()', '=VALUE("12")', '=VALUE(A5)', '=TEXT(B1,"0.00")',
    "=Sheet!A1", "='Sheet'!A1+1", "=Second!A1", "='Se cond'!A1", "=Sheet!A1:A3", "=SUM(Sheet!A1:A3)", "=SUM('Sheet'!A1:B2)",
    '=$A$1', '=$A1+A$1', '=SUM($A$1:$A$3)', '=A1:A3', '=A1:B1',
    # truncated / malformed / unsupported
    '=', '= ', '=A1+', '=A1+B1)', '=(A1+B1', '=A1 B1', '=A1,B1', '=A1;', '=SUM(A1:A3', '=SUM(A1:A3))', '=SUM()', '=SUM',
    '=SUM(A1:A3)B1', '=SUM(A1:A3) 5', '=IF(A1>B1)', '=IF(A1>B1,1,2,3)', '=IF()', '=IF(,1,2)', '=IF(A1>B1,1,2', '=IF A1',
    '=ROUND(B1)', '=ROUND(B1,0,1)', '=LEFT()', '=LEFT(C1,2,3)', '=MID(C1,2)', '=MID(C1)', '=VLOOKUP(10,A1:C3)', '=VLOOKUP(10)',
    '=MATCH(7)', '=MATCH(7,A1:A3,0,1)', '=IFERROR(A1)', '=IFERROR(A1,1,2)', '=DATE(2024,1)', '=DATE(2024,1,31,5)',
    '=FOO(A1)', '=SQRT(A1)', '=sum(A1:A3)', '=A1^2', '=A1 # 2', '=@A1', '={1,2}', '="unterminated', '=A1&', '=&A1', '=*A1',
    '=A1%%', '=%A1', '=1..2', '=1.', '=.5', '=A1++B1', '=A1+-B1', '=A1<>', '=<>A1', '=A1=<B1', '=A1=>B1', '=TODAY(1)',
    '=COUNTBLANK()', '=COUNTIFS(A1:A3)', '=SUMIFS(B1:B3)', '=AVERAGEIFS(B1:B3,A1:A3)', '=IFS(A1>5)', '=IFS()', '=INDEX(A1:C3)',
    '=Nope!A1', "='No pe'!A1", '=SUM(Nope!A1:A3)', '=A1:B3', '=SUM(A1:B3:C4)', '=ZZZ99999', '=A0', '=A', '=1A', '=TRUEFALSE',
    '=CONCATENATE()', '=TEXT(B1)', '=VALUE()', '=ADDRESS(1)', '=SEARCH("p")', '=XMATCH(7)', '=NETWORKDAYS(DATE(2024,1,1))',
    '=EOMONTH(DATE(2024,1,31))', '=EDATE(DATE(2024,1,31))', '=DATEDIF(DATE(2024,1,1),DATE(2024,3,1))', '=YEAR()', '=DAY(1,2)',
    '=IF(A1>B1,1,2)+', '=IF(A1>B1,1,2)3', '=(A1', '=A1)', '=()', '=( )', '=((A1))', '=((A1)+(B1))', '=(A1)+(B1)*(A2)',
    '=A1\n+B1', '=A1\t+\tB1', '=SUM(\nA1:A3\n)', '=A1\n', '=A1 +B1',
]


def build_workbook(path):
    wb = Workbook()
    ws = wb.active
    ws.title = 'Sheet'
    for row in DATA:
        ws.append(row)
    for i, formula in enumerate(FORMULAS):
        ws.cell(row=i + 1, column=6, value=formula)
    ws2 = wb.create_sheet('Second')
    ws2.append([100, '=Sheet!A1+A1'])
    ws3 = wb.create_sheet('Se cond')
    ws3.append([200, "='Se cond'!A1*2"])
    wb.save(path)


def lex_and_parse():
    for formula in FORMULAS:
        in_cell = Cell(0, 5, 0)
        status, tokens = describe(lambda: Lexer.parse(formula, in_cell))
        out('LEX', repr(formula), status, tokens)
        if status == 'OK':
            status, ast = describe(lambda: AstBuilder.parse(tokens, in_cell))
            out('AST', repr(formula), status, ast)


def load_class(source):
    namespace = {}
    exec(compile(source, '<translation>', 'exec'), namespace)
    return namespace['ExcelInPython']


def per_cell_translation(xlsx):
    excel = Excel.parse(xlsx)
    for i, formula in enumerate(FORMULAS):
        context = Context()
        context._titles = excel.get_titles()
        context._sheets_size = excel.get_sheets_size()
        status, code = describe(lambda: CellTranslator.translate(Cell(0, 5, i), excel, context))
        out('TR', i, repr(formula), status, code)
        if status != 'OK':
            continue
        status, source = describe(context.build_class)
        out('SRC', i, status, hashlib.sha256(source.encode()).hexdigest())
        if status != 'OK':
            continue
        status, klass = describe(lambda: load_class(source))
        if status != 'OK':
            out('LOAD', i, status, klass)
            continue
        members = sorted(k for k in klass.__dict__ if k.startswith('_0_') or k.startswith('_1_') or k.startswith('_2_'))
        out('MEMBERS', i, members)
        status, value = describe(lambda: klass().exec_function_in(Cell(0, 5, i).uid))
        if formula.startswith('=TODAY') or 'TODAY(' in formula:
            value = '<today>'
        out('VAL', i, status, repr(value))


def whole_file_translation(tmp):
    # a workbook where every formula translates: full pipeline through the facades, file vs class object
    good = [f for f in FORMULAS]
    xlsx = os.path.join(tmp, 'good.xlsx')
    wb = Workbook()
    ws = wb.active
    ws.title = 'Sheet'
    for row in DATA:
        ws.append(row)
    excel_probe = None
    kept = []
    # keep only formulas that translated in isolation
    build_probe = os.path.join(tmp, 'probe.xlsx')
    build_workbook(build_probe)
    excel_probe = Excel.parse(build_probe)
    for i, formula in enumerate(good):
        context = Context()
        context._titles = excel_probe.get_titles()
        context._sheets_size = excel_probe.get_sheets_size()
        status, _ = describe(lambda: CellTranslator.translate(Cell(0, 5, i), excel_probe, context))
        if status == 'OK' and 'TODAY' not in formula:
            status, _ = describe(lambda: load_class(context.build_class()))
        if status == 'OK' and 'TODAY' not in formula:
            kept.append(formula)
    for i, formula in enumerate(kept):
        ws.cell(row=i + 1, column=6, value=formula)
    ws2 = wb.create_sheet('Second')
    ws2.append([100, '=Sheet!A1+A1'])
    ws3 = wb.create_sheet('Se cond')
    ws3.append([200, "='Se cond'!A1*2"])
    wb.save(xlsx)
    out('KEPT', len(kept))
    out_py = os.path.join(tmp, 'good_translation.py')
    parser = Parser().set_excel_file_path(xlsx)
    status, _ = describe(lambda: parser.write_translation(out_py))
    out('WRITE', status, _ if status != 'OK' else '')
    source = parser.get_translation()
    out('SOURCE', hashlib.sha256(source.encode()).hexdigest(), len(source))
    with open(out_py, encoding='utf-8') as f:
        out('FILE==TEXT', f.read() == source)
    from_file = Executor().set_executed_class(class_file=out_py)
    from_class = Executor().set_executed_class(class_object=load_class(source))
    out('TITLES', from_file._titles, from_class._titles)
    out('SIZES', from_file._sheets_size, from_class._sheets_size)
    for i, formula in enumerate(kept):
        s1, v1 = describe(lambda: from_file.get_cell(Cell(0, 5, i)).value)
        s2, v2 = describe(lambda: from_class.get_cell(Cell('Sheet', 'F', str(i + 1))).value)
        out('RUN', i, repr(formula), s1, repr(v1), s2, repr(v2), (s1, repr(v1)) == (s2, repr(v2)))
    for title, col, row in [('Second', 'B', '1'), ('Se cond', 'B', '1'), ('Second', 'A', '1'), ('Sheet', 'Z', '99')]:
        out('RUN2', title, col, row, *describe(lambda: from_file.get_cell(Cell(title, col, row)).value))
    # overriding cells
    from_file.set_cells([Cell('Sheet', 'A', '1', value=1000), Cell(0, 1, 0, value=-1)])
    for i, formula in enumerate(kept[:60]):
        out('OVR', i, *describe(lambda: repr(from_file.get_cell(Cell(0, 5, i)).value)))

    # mixed workbook (bad formulas included): the facade raises a library exception
    mixed = os.path.join(tmp, 'mixed.xlsx')
    build_workbook(mixed)
    status, res = describe(lambda: Parser().set_excel_file_path(mixed).get_translation())
    out('MIXED', status, res if status != 'OK' else hashlib.sha256(res.encode()).hexdigest())
    status, res = describe(lambda: Parser().set_excel_file_path(mixed).disable_safety_check().get_translation())
    out('MIXED-UNSAFE', status, res if status != 'OK' else hashlib.sha256(res.encode()).hexdigest())
    # one-bad-formula workbooks
    for n, formula in enumerate(['=A1+', '=SUM(A1:A3', '=FOO(1)', '=B1', '=C1', '=Nope!A1', '=IF(A1>1,1,2,3)', '=A1', 'plain', '=eval(1)']):
        p = os.path.join(tmp, f'one_{n}.xlsx')
        wb = Workbook()
        ws = wb.active
        ws.append([5, formula, '=B1+1'])
        wb.save(p)
        for safety in (True, False):
            parser = Parser().set_excel_file_path(p)
            parser = parser.enable_safety_check() if safety else parser.disable_safety_check()
            status, res = describe(parser.get_translation)
            out('ONE', repr(formula), safety, status, res if status != 'OK' else hashlib.sha256(res.encode()).hexdigest())
            if status == 'OK':
                ex = Executor().set_executed_class(class_object=load_class(res))
                out('ONEVAL', *describe(lambda: [repr(c.value) for row in ex.get_sheet(0) for c in row]))
        status, res = describe(lambda: Parser().set_excel_file_path(p).set_entrypoint_cell(Cell(0, 2, 0)).get_translation())
        out('ENTRY', repr(formula), status, res if status != 'OK' else hashlib.sha256(res.encode()).hexdigest())


def finish():
    digest = hashlib.sha256('\n'.join(LINES).encode()).hexdigest()
    print('LINES', len(LINES))
    print('DIGEST', digest)


# ---- specific to this refactoring: every composite token class against many token lists ----
def composite_tokens_directly():
    from excel2pycl.src.tokens import CompositeBaseToken, ControlConstructionCompositeBaseToken, EntryPointToken
    classes = list(CompositeBaseToken.subclasses())
    out('COMPOSITES', [c.__name__ for c in classes])
    out('CC', sorted(s[0].__name__ for s in ControlConstructionCompositeBaseToken.get_token_sets()))
    extra = ['=SUM(', '=SUM(A1', '=SUM(A1,', '=IF(', '=IF(A1', '=IF(A1,', '=IF(A1,1', '=IF(A1,1,', '=IF(A1,1,2', '=LEFT(', '=LEFT(C1',
             '=LEFT(C1,', '=MATCH(', '=MATCH(1', '=MATCH(1,', '=MATCH(1,A1:A3', '=MATCH(1,A1:A3,', '=TODAY(', '=TODAY()', '=TODAY',
             '=COLUMN(', '=COLUMN()', '=IF(SUM(', '=IF(SUM(A1),', '=SUM(IF(', '=SUM(IF(A1,1,2', '=SUM(IF(A1,1,2)', '=1+SUM(', '=(SUM(',
             '=ROUNDUP(', '=ROUNDUP(1', '=ROUNDUP(1,', '=ROUNDUP(1,)', '=ROUNDUP(1,2', '=INDEX(', '=INDEX(A1:C3', '=INDEX(A1:C3,',
             '=VLOOKUP(1,A1:C3,', '=VLOOKUP(1,A1,2)', '=SUMIF(A1:A3', '=SUMIF(A1:A3,', '=SUMIF(A1:A3,">1"', '=SUMIF(A1:A3,">1",',
             '=IFS(', '=IFS(A1>1', '=IFS(A1>1,', '=IFS(A1>1,2', '=IFS(A1>1,2,', '=COUNTIFS(', '=COUNTIFS(A1:A3', '=COUNTIFS(A1:A3,']
    for formula in FORMULAS + extra:
        status, tokens = describe(lambda: Lexer.parse(formula, Cell(0, 5, 0)))
        if status != 'OK':
            continue
        for variant, token_list in (('full', tokens), ('body', tokens[1:]), ('tail', tokens[2:])):
            hits = []
            for token_class in classes + [EntryPointToken]:
                before = list(token_list)

                def call():
                    token, rest = token_class.get(token_list, Cell(0, 5, 0))
                    return None if token is None else (repr(token), repr(rest))
                status, res = describe(call)
                assert token_list == before  # the input list is never modified
                if status != 'OK':
                    hits.append((token_class.__name__, status, res))
                elif res is not None:
                    hits.append((token_class.__name__, status, hashlib.sha256(res[0].encode()).hexdigest()[:16], res[1]))
                else:
                    token, rest = token_class.get(token_list, Cell(0, 5, 0))
                    assert token is None and rest is token_list
            out('COMP', repr(formula), variant, hits)
    out('EMPTY', [(c.__name__, describe(lambda: c.get([], Cell(0, 0, 0)))) for c in classes + [EntryPointToken]])


def main():
    tmp = tempfile.mkdtemp(prefix='t13_demo_')
    try:
        composite_tokens_directly()
        lex_and_parse()
        xlsx = os.path.join(tmp, 'all.xlsx')
        build_workbook(xlsx)
        per_cell_translation(xlsx)
        whole_file_translation(tmp)
    finally:
        shutil.rmtree(tmp, ignore_errors=True)
    finish()
    return 0


if __name__ == '__main__':
    sys.exit(main())
