"""
Equivalence demonstration for r2 (CompositeBaseToken.get: the control-construction flag became "a regexp token was
consumed" and the membership test moved to the place where the exception is raised; if/elif chain -> guard clauses).

Run as: PYTHONPATH=<tree> /venv/bin/python demo.py
Prints the same text on the unchanged tree and on the refactored tree.
"""
import datetime
import hashlib
import os
import re
import shutil
import sys
import tempfile

from openpyxl import Workbook

from excel2pycl import Parser, Executor, Cell
from excel2pycl.src.ast_builder import AstBuilder
from excel2pycl.src.lexer import Lexer
from excel2pycl.src.tokens.composite_base_token import CompositeBaseToken
from excel2pycl.src.tokens.undefined_token import UndefinedToken

LINES = []
SCRATCH = []


def out(line: str):
    line = re.sub(r' at 0x[0-9a-fA-F]+', ' at 0x?', line)
    for directory in SCRATCH:
        line = line.replace(directory, '<scratch>')
    LINES.append(line)
    print(line)


def describe_exception(e: BaseException) -> str:
    return f'!{e.__class__.__name__}{e.args!r}'


def dump(token) -> str:
    if isinstance(token.value, list):
        return f'{token.__class__.__name__}[{", ".join(dump(child) for child in token.value)}]'
    return f'{token.__class__.__name__}<{type(token.value).__name__}>({token.value!r})'


VALID = [
    '=A1+B1', '= A1 + B1', '=  A1\t+\tB1', '=A1+B1*2', '=(A1+B1)*2', '=( A1 + B1 ) * 2', '=A1-B1/4',
    '=SUM(B1:B6)', '=SUM( B1:B6 ; A1 )', '=SUM(B1:B6,A1)', '=SUM(B1:B6;A1)', '=SUM(A1:A3)+SUM(B1:B2)',
    '=IF(A1>0;"pos";"neg")', '=IF(A1>0,"pos","neg")', '=IF( A1 > 0 ; "pos" ; "neg" )', '=IF(A1>0;1)',
    '=IF(A1>0~1~2)', '=IF(A1>0;"a;b";"c,d")', '=IF(A3>0;"pos";"neg")',
    '=ROUND(A2;0)', '=ROUND(A2,1)', '=ROUND( A2 , 1 )', '=ROUNDUP(A2;0)', '=ROUNDUP(A2;)', '=ROUNDUP(A2)',
    '=ROUNDDOWN(A2)', '=ROUNDDOWN(A2;1)',
    '=LEFT(C1;3)', '=LEFT(C1)', '=LEFT( C1 , 3 )', '=RIGHT(C2,2)', '=RIGHT(C2)', '=MID(C3;2;3)',
    '=MAX(B1:B6)', '=MIN(B1:B6;A3)', '=MIN( B1:B6 , A3 )', '=AVERAGE(B1:B6)',
    '=AND(A1>0;B1>5)', '=OR(A1<0,B1<5)', '=IFERROR(A1/A4;"err")', '=IFERROR(A1/B1,"err")',
    '=COUNTIFS(C1:C6;"apple")', '=COUNTIFS(C1:C6;"a*")', '=COUNTIFS(C1:C6,"?pple")', '=COUNTIFS(B1:B6;">20")',
    '=SUMIF(C1:C6;"apple";B1:B6)', '=SUMIF(B1:B6;">20")', '=SUMIFS(B1:B6;C1:C6;"apple")',
    '=SUMIFS(B1:B6;C1:C6;"apple";B1:B6;">10")', '=AVERAGEIFS(B1:B6;C1:C6;"apple")',
    '=VLOOKUP(2.5;A1:B6;2;FALSE)', '=VLOOKUP(2.5,A1:B6,2)', '=MATCH(30;B1:B6;0)', '=MATCH(30;B1:B6)',
    '=XMATCH(30;B1:B6)', '=XMATCH(30;B1:B6;0;1)', '=INDEX(B1:B6;2)', '=INDEX(A1:B6;2;2)',
    '=A1&C1', '=A1&" "&C1', '=C1 & C2', '=50%', '=A1*50%', '=B1%+1', '=-A1', '=+A1', '=-(A1+B1)', '=A1+-B1',
    '=A1++B1', '=1.5e2', '=1e-2', '=12', '=12.50', '=TRUE', '=FALSE()', '=TRUE()', '=""', '="text"', '="a""b"',
    '=A1=B1', '=A1<>B1', '=A1>=B1', '=A1<=B1', '=A1<B1', '=A1>B1', '=A1 < > B1', '=A1 > = B1',
    '=A5=0', '=A5=""', '=A5<A1', '=C5=A5', '=D1=D2', '=D1<D3', '=A6>A1', '=C1<C2', '=C1=C6',
    '=YEAR(D1)', '=MONTH(D3)', '=DAY(D3)', '=DATE(2024;1;15)', '=DATE(2024,1,15)', '=EOMONTH(D1;1)',
    '=EDATE(D1;2)', '=DATEDIF(D1;D3;"D")', '=NETWORKDAYS(D1;D3)',
    '=CONCATENATE(C1;"-";C2)', '=COUNT(A1:A6)', '=COUNT(A1:A6;1;"2")', '=COUNTBLANK(A1:A6)',
    '=IFS(A1>5;"big";A1>0;"small")', '=VALUE("12")', '=TEXT(A2;"0.00")', '=SEARCH("an";C2)',
    '=SEARCH("an";C2;3)', '=COLUMN()', '=COLUMN(B1)', '=COLUMN(B1:C2)', '=ADDRESS(1;2)', '=ADDRESS(1;2;4)',
    '=Data!A1+1', "='Data'!A1+1", "='Other sheet'!A1*2", '=$A$1+B$1', '=$A1+$B$2',
    '=IF(AND(A1>0;OR(B1>100;B2>10));SUM(B1:B3);0)', '=((A1))', '=((A1)+(B1))*((2))',
    '=1+2+3+4+5+6+7+8+9+10', '=1+2*3-4/5', '=A1+B1\n', '=A1\n+B1', '=\nA1', '=A1 + B1',
    '=SUM(B1:B6)/COUNT(B1:B6)', '=MAX(A1;B1)&"x"', '=LEFT(C1;2)&RIGHT(C2;2)',
]

INVALID = [
    '=A1+', '=SUM(B1:B6', '=SUM(B1:B6))', '=IF(A1>0)', '=IF(A1>0;1;2;3)', '=LEFT()', '=LEFT(C1;1;2)', '=A1 B1',
    '=A1+B1 C1', '=A1+B1)', '=(A1+B1', '=FOO(A1)', '=A1 + # 2', '=ROUND(A2)', '=MID(C1;2)', '=DATE(2024;1)', '=1+',
    '=', '= ', '=A1+B1 ', '="unterminated', '=A1**B1', '=SUM()', '=TODAY(1)', '=VLOOKUP(1;A1:B6)', '=IFERROR(A1)',
    '=MATCH(1)', '=A1:B2', '=1 2', '=1,2', '=A1;B1', '=AND()', '=sum(A1)', '=Sum(A1)', '=A1+B1\n\n', '=A1+B1\t',
    '=A1+B1;', '=IF(A1>0;1;2)+', '=IF(A1>0;1;2)3', '=SUM(B1:B6)SUM(B1:B6)', '=A1 1', '=1A', '=A1.5', '=.5',
    '=1.', '=A1!B1', '=!A1', '=A1%%', '=%A1', '=&A1', '=A1&', '=*A1', '=A1<', '=<A1', '=A1=<B1', '=A1=>B1',
    '=A1===B1', '=(', '=)', '=()', '=A1()', '=IF', '=IF(', '=IF()', '=IFS()', '=LEFT(C1;)', '=RIGHT(;1)',
    '=MAX(;)', '=SUM(;A1)', '=SUM(A1;)', '=SUM(A1;;B1)', '=ROUNDUP(;)', '=COLUMN(1)', '=COLUMN(A1;B1)',
    '=TEXT(A1)', '=VALUE()', '=VALUE(1;2)', '=YEAR()', '=YEAR(D1;D2)', '=EDATE(D1)', '=EOMONTH(D1;1;2)',
    '=DATEDIF(D1;D3)', '=NETWORKDAYS(D1)', '=SEARCH("a")', '=SEARCH("a";C1;1;2)', '=ADDRESS(1)',
    '=INDEX(B1:B6)', '=COUNTIFS(C1:C6)', '=SUMIF(C1:C6)', '=SUMIFS(B1:B6;C1:C6)', '=AVERAGEIFS(B1:B6)',
    '=XMATCH(1)', '=CONCATENATE()', '=COUNTBLANK()', '=A1 + é', '=A1 + @B1', '=A1 + {1;2}', '=A1^2',
]

ONLY_LEXED = ['=TODAY()', '=TODAY( )', '=YEAR(TODAY())', '=TODAY()+1']

SHOWN_IN_FULL = ['EntryPointToken', 'ExpressionToken', 'IterableExpressionToken', 'LambdaToken', 'OperandToken',
                 'ControlConstructionCompositeBaseToken', 'IfControlConstructionToken', 'SumControlConstructionToken',
                 'OneLeftOperandExpressionToken', 'RangeOfCellIdentifierWithConditionToken']


def composite_level():
    out('== every composite token class on every token list (and on the lists without their first 1, 2, 3 tokens)')
    in_cell = Cell(0, 0, 0)
    token_lists = []
    for text in VALID + INVALID + ONLY_LEXED:
        try:
            tokens = Lexer.parse(text, in_cell)
        except Exception:
            continue
        for offset in range(0, 4):
            if offset <= len(tokens):
                token_lists.append((text, offset, tokens[offset:]))
    classes = sorted(CompositeBaseToken.subclasses(), key=lambda class_: class_.__name__)
    out(f'composite classes: {[class_.__name__ for class_ in classes]}')
    for token_class in classes:
        if token_class is UndefinedToken:
            continue
        matched = raised = 0
        digest = hashlib.sha256()
        for text, offset, tokens in token_lists:
            before = repr(tokens)
            try:
                token, rest = token_class.get(tokens, in_cell)
                if token is None:
                    result = f'None same_list={rest is tokens}'
                else:
                    matched += 1
                    result = f'{dump(token)} rest={rest!r}'
            except Exception as e:
                raised += 1
                result = describe_exception(e)
            result += f' untouched={repr(tokens) == before}'
            digest.update(f'{text!r}[{offset}:] -> {result}\n'.encode())
            if token_class.__name__ in SHOWN_IN_FULL and not result.startswith('None'):
                out(f'{token_class.__name__} {text!r}[{offset}:] -> {result}')
        out(f'{token_class.__name__}: lists={len(token_lists)} matched={matched} raised={raised} digest={digest.hexdigest()}')
    out(f'empty list: {[(c.__name__, repr(c.get([], in_cell))) for c in classes if c is not UndefinedToken]}')


def lexer_and_parser_level():
    out('== lexer and parser on whole formulas')
    in_cell = Cell(0, 0, 0)
    for text in VALID + INVALID + ONLY_LEXED:
        try:
            tokens = Lexer.parse(text, in_cell)
            out(f'LEX {text!r} -> {[dump(token) for token in tokens]}')
        except Exception as e:
            out(f'LEX {text!r} -> {describe_exception(e)}')
            continue
        try:
            out(f'AST {text!r} -> {dump(AstBuilder.parse(tokens, in_cell))}')
        except Exception as e:
            out(f'AST {text!r} -> {describe_exception(e)}')
    for text in ['', ' ', 'A1', 'A1 B1', '1 2 3', ';;', 'SUM SUMIF SUMIFS', 'IFSIF', 'IFERRORIF(', 'A1:B2:C3']:
        try:
            out(f'LEX {text!r} -> {[dump(token) for token in Lexer.parse(text, in_cell)]}')
        except Exception as e:
            out(f'LEX {text!r} -> {describe_exception(e)}')


def build_workbook(path: str, formulas: list):
    wb = Workbook()
    ws = wb.active
    ws.title = 'Data'
    column_a = [1, 2.5, -3, 0, None, 'txt']
    column_b = [10, 20, 30, 40, 50, 60]
    column_c = ['apple', 'banana', 'cherry', 'apple', '', 'Apple']
    column_d = [datetime.date(2024, 1, 1), datetime.datetime(2024, 1, 1, 0, 0), datetime.datetime(2024, 3, 5, 12, 30)]
    for index in range(6):
        ws.cell(row=index + 1, column=1, value=column_a[index])
        ws.cell(row=index + 1, column=2, value=column_b[index])
        ws.cell(row=index + 1, column=3, value=column_c[index])
        if index < len(column_d):
            ws.cell(row=index + 1, column=4, value=column_d[index])
    for index, formula in enumerate(formulas):
        ws.cell(row=index + 1, column=6, value=formula)
    other = wb.create_sheet('Other sheet')
    other['A1'] = 21
    wb.save(path)


def end_to_end(directory: str):
    out('== translation and evaluation of every formula as an entry point')
    formulas = VALID + INVALID
    xlsx = os.path.join(directory, 'book.xlsx')
    build_workbook(xlsx, formulas)
    translated = []
    for index, formula in enumerate(formulas):
        class_file = os.path.join(directory, f'translated_{index}.py')
        try:
            parser = Parser().set_excel_file_path(xlsx).disable_safety_check().set_entrypoint_cell(Cell(0, 5, index))
            translation = parser.get_translation()
            parser.write_translation(class_file)
        except Exception as e:
            out(f'F{index + 1} {formula!r} -> translation {describe_exception(e)}')
            continue
        method = [line.strip() for line in translation.splitlines() if line.strip().startswith('return ')][-1:]
        text_digest = hashlib.sha256(translation.encode()).hexdigest()
        try:
            value = Executor().set_executed_class(class_file=class_file).get_cell(Cell(0, 5, index)).value
            shown = f'{type(value).__name__} {value!r}'
        except Exception as e:
            shown = describe_exception(e)
        if not shown.startswith('!SyntaxError'):
            translated.append(formula)
        out(f'F{index + 1} {formula!r} -> text={text_digest} last_return={method} value={shown}')

    out('== translation of a whole file')
    whole = os.path.join(directory, 'whole.xlsx')
    build_workbook(whole, translated)
    class_file = os.path.join(directory, 'whole.py')
    try:
        translation = Parser().set_excel_file_path(whole).write_translation(class_file).get_translation()
        out(f'whole file text digest={hashlib.sha256(translation.encode()).hexdigest()} lines={len(translation.splitlines())}')
        executor = Executor().set_executed_class(class_file=class_file)
        for index, formula in enumerate(translated):
            try:
                value = executor.get_cell(Cell('Data', 'F', str(index + 1))).value
                out(f'whole F{index + 1} -> {type(value).__name__} {value!r}')
            except Exception as e:
                out(f'whole F{index + 1} -> {describe_exception(e)}')
    except Exception as e:
        out(f'whole file -> {describe_exception(e)}')


def main():
    directory = tempfile.mkdtemp(prefix='r2_demo_')
    SCRATCH.append(directory)
    try:
        composite_level()
        lexer_and_parser_level()
        end_to_end(directory)
    finally:
        shutil.rmtree(directory, ignore_errors=True)
    print('TOTAL lines=%d digest=%s' % (len(LINES), hashlib.sha256('\n'.join(LINES).encode()).hexdigest()))


if __name__ == '__main__':
    main()
    sys.exit(0)
