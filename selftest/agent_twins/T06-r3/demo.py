"""Equivalence demo for r3: _sum_if (index loop -> zip) and _sumifs (index loop + None masking -> enumerate + set of
rejected positions) in both copies of the runtime helper class."""
import datetime
import hashlib
import itertools
import os
import re
import tempfile
import warnings

warnings.simplefilter('ignore')  # the project's template contains '\*' in a non-raw string (SyntaxWarning noise)

from openpyxl import Workbook

from excel2pycl import Parser, Executor, Cell
from excel2pycl.src.utilities.abstract_excel_in_python_class import AbstractExcelInPython


class Direct(AbstractExcelInPython):
    pass


def show(value):
    return type(value).__name__ + ':' + repr(value)


def attempt(label, function, *args, **kwargs):
    try:
        result = show(function(*args, **kwargs))
    except BaseException as error:  # noqa
        result = 'RAISED ' + type(error).__name__ + ': ' + str(error)
    print(label, '=>', result)


FORMULAS = [
    '=SUMIF(A1:A8, ">2", D1:D8)', '=SUMIF(A1:A8, ">2")', '=SUMIF(B1:B8, "a", D1:D8)', '=SUMIF(B1:B8, "A", D1:D8)',
    '=SUMIF(B1:B8, "a*", D1:D8)', '=SUMIF(B1:B8, "?", D1:D8)', '=SUMIF(B1:B8, "~*", D1:D8)', '=SUMIF(A1:A8, 3, D1:D8)',
    '=SUMIF(A1:A8, "<>3", D1:D8)', '=SUMIF(A1:A8, "=3", D1:D8)', '=SUMIF(A1:A8, "<="&A2, D1:D8)',
    '=SUMIF(A1:A8, A3, D1:D8)', '=SUMIF(A1:A8, ">2", E1)', '=SUMIF(A1:B4, ">1", D1:E4)', '=SUMIF(A1:A8, ">2", C1:C8)',
    '=SUMIF(F1:F8, ">2", D1:D8)', '=SUMIF(A1:A8, ">0", F1:F8)', '=SUMIF(A1:A8, ">0", B1:B8)', '=SUMIF(A1, ">0", D1)',
    '=SUMIF(Other!A1:A3, ">1", Other!B1:B3)', '=SUMIF(A1:A8, ">1.5e0", D1:D8)', '=SUMIF(C1:C8, TRUE, D1:D8)',
    '=SUMIFS(D1:D8, A1:A8, ">1")', '=SUMIFS(D1:D8, A1:A8, ">1", B1:B8, "a")', '=SUMIFS(D1:D8, A1:A8, ">1", A1:A8, "<5")',
    '=SUMIFS(D1:D8, B1:B8, "a*", A1:A8, "<>4")', '=SUMIFS(D1:D8, A1:A7, ">1")', '=SUMIFS(D1:D7, A1:A8, ">1")',
    '=SUMIFS(D1:D8, A1:A8, ">1", B1:B7, "a")', '=SUMIFS(D1:E4, A1:B4, ">1")', '=SUMIFS(C1:C8, A1:A8, ">0")',
    '=SUMIFS(D1:D8, C1:C8, TRUE)', '=SUMIFS(D1:D8, F1:F8, ">2")', '=SUMIFS(F1:F8, A1:A8, ">0")',
    '=SUMIFS(D1:D8, B1:B8, B1)', '=SUMIFS(D1:D8, A1:A8, ">="&A2, A1:A8, "<="&A5)', '=SUMIFS(D1:D8, B1:B8, "??")',
    '=SUMIFS(Other!B1:B3, Other!A1:A3, ">1")', '=SUMIFS(D1:D8, A1:A8, 0)', '=SUMIFS(D1:D8, G1:G8, 0)',
    '=SUMIFS(D1:D8, G1:G8, "")', '=SUMIFS(D:D, A:A, ">1")', '=SUMIFS(D1:D8, A1:A8, ">1")+SUMIFS(D1:D8, A1:A8, "<=1")',
    '=COUNTIFS(A1:A8, ">1")', '=COUNTIFS(A1:A8, ">1", B1:B8, "a")', '=COUNTIFS(B1:B8, "a*")', '=COUNTIFS(A1:A8, ">1", B1:B7, "a")',
    '=AVERAGEIFS(D1:D8, A1:A8, ">=2")', '=AVERAGEIFS(D1:D8, A1:A8, ">=2", B1:B8, "a")', '=AVERAGEIFS(D1:D8, A1:A7, ">=2")',
    '=AVERAGEIFS(D1:D8, A1:A8, ">100")',
]


def build_workbook(path):
    wb = Workbook()
    ws = wb.active
    ws.title = 'Data'
    rows = [
        # A numbers, B texts, C booleans, D addends, E more addends, F mixed, G blanks
        [1, 'a', True, 10, 1, 1, None],
        [2, 'b', False, 20, 2, 'x', None],
        [3, 'A', True, 30.5, 3, 3, 0],
        [4, 'ab', False, 40, 4, None, ''],
        [5, 'a*', True, 50, 5, True, None],
        [3, '*', False, 60, 6, 6.5, 0],
        [0, 'B', True, 70, 7, datetime.datetime(2024, 1, 1), None],
        [-1, 'aa', False, 80, 8, 8, None],
    ]
    for row in rows:
        ws.append(row)
    other = wb.create_sheet('Other')
    for row in ([1, 100], [2, 200], [3, 300]):
        other.append(row)
    for index, formula in enumerate(FORMULAS):
        ws.cell(row=index + 1, column=10, value=formula)
    wb.save(path)


def generated_functions(text):
    return text[re.search(r'\n    def _\d+_', text).start():]


class Recorder:
    """a criterion that records every cell it is asked about (evaluation order is observable)"""

    def __init__(self, name, test, log):
        self.name, self.test, self.log = name, test, log

    def __call__(self, cell):
        self.log.append((self.name, repr(cell)))
        return self.test(cell)


def direct_calls(name, instance):
    empty = instance.EmptyCell()
    day = datetime.datetime(2024, 1, 1)
    tests = {
        'gt2': lambda x: x > 2,  # raises on text
        'eq_a': lambda x: str(x).lower() == 'a',
        'truthy': lambda x: x,
        'never': lambda x: False,
        'always': lambda x: 1,
        'is_int': lambda x: type(x) is int,
        'regex': lambda x: re.fullmatch(instance._regexp('a*'), str(x), re.I | re.S),
        'boom3': lambda x: 1 / (x - 3),  # raises on 3
    }
    ranges = {
        'empty': [], 'nested_empty': [[]], 'column': [[1], [2], [3], [4]], 'row': [[1, 2, 3, 4]],
        'rect': [[1, 5], [3, 0]], 'texts': [['a'], ['b'], ['A'], ['ab']], 'mixed': [[1], ['a'], [None], [4.5]],
        'blanks': [[empty], [None], [''], [0]], 'bools': [[True], [False], [True], [5]], 'flat': [5, 1, 7, 3],
        'deep': [[[1, [2]], 3], [[4]]],
    }
    sums = {
        'tens': [[10], [20], [30], [40]], 'short': [[10], [20]], 'long': [[10], [20], [30], [40], [50], [60]],
        'holes': [[None], [20], [''], [empty]], 'bools': [[True], [False], [True], [True]],
        'text': [[1], ['abc'], [3], [4]], 'floats': [[0.1], [0.2], [0.3], [1e308]], 'dates': [[day], [2], [3], [4]],
        'rowwise': [[10, 20, 30, 40]], 'empty': [],
    }
    for (rn, r), (sn, s), (tn, t) in itertools.product(ranges.items(), sums.items(), tests.items()):
        log = []
        attempt(f'{name} _sum_if {rn} {tn} {sn}', instance._sum_if, r, Recorder(tn, t, log), s)
        print('    asked', log)
    for rn, r in ranges.items():
        attempt(f'{name} _sum_if {rn} default', instance._sum_if, r, tests['always'])
        attempt(f'{name} _sum_if {rn} none', instance._sum_if, r, tests['always'], None)
        attempt(f'{name} _sum_if {rn} keywords', instance._sum_if, range_=r, criteria=tests['truthy'], sum_range=r)
    attempt(f'{name} _sum_if not-callable', instance._sum_if, [[1]], 5, [[1]])
    attempt(f'{name} _sum_if range none', instance._sum_if, None, tests['always'], [[1]])
    attempt(f'{name} _sum_if tuple', instance._sum_if, ((1, 2), (3, 4)), tests['always'], ((1, 2), (3, 4)))

    # _sumifs: every criterion is asked about every cell of its range, pair by pair
    sum_ranges = {
        'tens': [[10], [20], [30], [40]], 'holes': [[None], [20], [True], [empty]], 'text': [[1], ['abc'], [False], [4.5]],
        'rowwise': [[10, 20, 30, 40]], 'three': [[1], [2], [3]], 'empty': [], 'dates': [[day], [2], [True], [None]],
    }
    criteria_ranges = {k: ranges[k] for k in ('column', 'row', 'rect', 'texts', 'mixed', 'blanks', 'bools', 'flat', 'empty')}
    for (sn, s), (an, a), (tn, t) in itertools.product(sum_ranges.items(), criteria_ranges.items(), tests.items()):
        log = []
        attempt(f'{name} _sumifs {sn} | {an} {tn}', instance._sumifs, s, a, Recorder(tn, t, log))
        print('    asked', log)
    pairs = [('column', 'gt2'), ('bools', 'truthy'), ('texts', 'eq_a'), ('mixed', 'gt2'), ('flat', 'boom3'),
             ('blanks', 'is_int'), ('row', 'never')]
    for sn in ('tens', 'holes', 'text', 'three'):
        for (an, at), (bn, bt) in itertools.permutations(pairs, 2):
            log = []
            attempt(f'{name} _sumifs {sn} | {an} {at} | {bn} {bt}', instance._sumifs, sum_ranges[sn],
                    ranges[an], Recorder('first', tests[at], log), ranges[bn], Recorder('second', tests[bt], log))
            print('    asked', log)
    log = []
    attempt(f'{name} _sumifs three pairs', instance._sumifs, sum_ranges['tens'], ranges['column'],
            Recorder('p1', tests['gt2'], log), ranges['bools'], Recorder('p2', tests['truthy'], log), ranges['flat'],
            Recorder('p3', tests['always'], log))
    print('    asked', log)
    # odd shapes: no pairs, a range without a criterion, sizes checked before anything is asked
    attempt(f'{name} _sumifs no pairs', instance._sumifs, sum_ranges['holes'])
    log = []
    attempt(f'{name} _sumifs lonely range', instance._sumifs, sum_ranges['tens'], ranges['column'])
    attempt(f'{name} _sumifs trailing range', instance._sumifs, sum_ranges['tens'], ranges['column'],
            Recorder('p1', tests['gt2'], log), ranges['row'])
    print('    asked', log)
    log = []
    attempt(f'{name} _sumifs late size error', instance._sumifs, sum_ranges['tens'], ranges['column'],
            Recorder('p1', tests['gt2'], log), sum_ranges['three'], Recorder('p2', tests['always'], log))
    print('    asked', log)
    attempt(f'{name} _sumifs criterion not callable', instance._sumifs, sum_ranges['tens'], ranges['column'], '>2')
    attempt(f'{name} _sumifs range not iterable', instance._sumifs, sum_ranges['tens'], 5, tests['always'])
    attempt(f'{name} _sumifs sum range none', instance._sumifs, None, ranges['column'], tests['always'])
    attempt(f'{name} _sumifs criterion in range place', instance._sumifs, sum_ranges['tens'], tests['always'],
            ranges['column'])


def main():
    tmp = tempfile.mkdtemp()
    xlsx, out = os.path.join(tmp, 'book.xlsx'), os.path.join(tmp, 'book.py')
    build_workbook(xlsx)
    Parser().set_excel_file_path(xlsx).write_translation(out)
    text = open(out, encoding='utf-8').read()
    print('generated functions sha256', hashlib.sha256(generated_functions(text).encode()).hexdigest())

    executor = Executor().set_executed_class(class_file=out)
    for index, formula in enumerate(FORMULAS):
        attempt('cell ' + formula, lambda i=index: executor.get_cell(Cell(0, 9, i)).value)
    overrides = [
        [Cell('Data', 'A', '2', value=2.5), Cell('Data', 'D', '3', value=None)],
        [Cell('Data', 'A', '4', value='four'), Cell('Data', 'B', '1', value='AB')],
        [Cell('Data', 'A', '4', value=4), Cell('Data', 'D', '5', value=True), Cell('Data', 'C', '8', value=1)],
        [Cell('Data', 'D', '2', value='text'), Cell('Other', 'A', '1', value=9), Cell('Data', 'G', '1', value=0)],
    ]
    for number, cells in enumerate(overrides):
        executor.set_cells(cells)
        for index, formula in enumerate(FORMULAS):
            attempt(f'override{number} ' + formula, lambda i=index: executor.get_cell(Cell(0, 9, i)).value)

    direct_calls('class', Direct())
    direct_calls('template', Executor().set_executed_class(class_file=out).get_executed_class())


main()
