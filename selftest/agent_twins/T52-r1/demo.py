"""Equivalence demo for r1 (C02): Excel.get_range / get_matrix / line helpers.

Run as: PYTHONPATH=<tree> /venv/bin/python demo.py
Prints a deterministic digest; must be identical on the unchanged and on the refactored tree.
"""
import datetime
import hashlib
import itertools
import os
import shutil
import sys
import tempfile

from openpyxl import Workbook

from excel2pycl import Parser, Executor, Cell
from excel2pycl.src.excel import Excel

LINES = []


def out(*parts):
    LINES.append(' '.join(str(p) for p in parts))


def show(value):
    if isinstance(value, Cell):
        return f'C({value.title},{value.column},{value.row},{value.value!r},{value.has_handled_identifiers()})'
    if isinstance(value, (list, tuple)):
        return '[' + ','.join(show(i) for i in value) + ']'
    return f'{type(value).__name__}:{value!r}'


def attempt(label, function):
    try:
        result = show(function())
    except BaseException as error:  # noqa
        result = f'!{type(error).__name__}:{error}'
    if len(result) > 400:
        result = f'{result[:120]}...#{len(result)}#{hashlib.sha256(result.encode()).hexdigest()[:16]}'
    out(label, '=>', result)


def build_main_workbook(path):
    wb = Workbook()
    main = wb.active
    main.title = 'Main'
    # a small table with blanks and ragged rows
    main['A1'] = 1
    main['B1'] = 2
    main['C1'] = 3
    main['A2'] = 10
    main['C2'] = 30
    main['A3'] = 'text'
    main['B3'] = 2.5
    main['A5'] = 100
    main['B5'] = True
    main['C5'] = datetime.datetime(2024, 2, 29)
    main['AA7'] = 77
    main['D9'] = 'far'

    data = wb.create_sheet('Data Sheet')
    for row in range(1, 7):
        for column in range(1, 5):
            if (row + column) % 4 != 0:
                data.cell(row=row, column=column, value=row * 10 + column)
    data['AB2'] = 'ab2'
    data['A9'] = 'tail'

    third = wb.create_sheet('S3')
    third['A1'] = 5
    third['A2'] = 6
    third['A4'] = 8
    third['B1'] = 'k1'
    third['B2'] = 'k2'
    third['C1'] = 1.5
    third['C2'] = 2.5
    third['XFD1'] = 'edge'

    formulas = wb.create_sheet('F')
    texts = [
        '=Main!A1', '=Main!$A$1', "='Main'!$B1", "='Data Sheet'!C$2", "='Data Sheet'!AB2", '=S3!XFD1', '=S3!D4',
        '=SUM(Main!A1:A5)', '=SUM(Main!$A$1:$A$5)', '=SUM(Main!A1:C1)', '=SUM(Main!$A1:C$1)',
        "=SUM('Data Sheet'!A1:D6)", "=SUM('Data Sheet'!$B$2:$C$5)", '=SUM(S3!A:A)', '=SUM(S3!A:C)',
        "=SUM('Data Sheet'!A:D)", '=COUNTBLANK(Main!A1:C5)', "=COUNTBLANK('Data Sheet'!A1:D6)",
        '=COUNT(Main!A1:AA7)', '=MAX(Main!A1:C2)', '=MIN(S3!A1:A4)', '=AVERAGE(S3!A1:A2)',
        '=VLOOKUP(6;S3!A1:C2;3;0)', '=VLOOKUP(5;S3!A:C;2;0)', "=INDEX('Data Sheet'!A1:D6;2;3)",
        '=INDEX(S3!A1:C2;2;2)', '=MATCH(6;S3!A1:A4;0)', '=MATCH(8;S3!A:A;0)', '=SUMIF(S3!A1:A4;">5";S3!C1:C4)',
        '=COUNTIFS(S3!A1:A4;">5")', '=SUMIFS(S3!C1:C2;S3!A1:A2;">5")', '=SUM(Main!A1:A5;S3!A1:A2)',
        '=SUM(S3!C:A)', '=SUM(Main!C1:A1)', '=SUM(Main!A5:A1)', '=CONCATENATE(S3!B1;S3!B2)', '=A1', '=$A$2',
        '=SUM(A1:A3)',
    ]
    for number, text in enumerate(texts, start=1):
        formulas.cell(row=number, column=2, value=text)
    formulas['A1'] = 4
    formulas['A2'] = 5
    formulas['A3'] = 6
    wb.save(path)
    return len(texts)


def direct_calls(path):
    excel = Excel.parse(path)
    out('titles', excel.get_titles())
    out('sizes', excel.get_sheets_size())

    columns = ['A', 'B', 'D', 'AA', 'AB']
    rows = ['', '1', '2', '5', '9', '40']
    titles = ['Main', 'Data Sheet', 'S3', 'F', 'Nope']
    references = list(itertools.product(columns, rows))

    digest = hashlib.sha256()
    count = 0
    for title_first, title_second in [(t, t) for t in titles] + [('Main', 'S3'), ('S3', 'Nope'), ('Nope', 'Main')]:
        for (column_first, row_first), (column_second, row_second) in itertools.product(references, references):
            for name in ('get_range', 'get_matrix'):
                first = Cell(title_first, column_first, row_first)
                second = Cell(title_second, column_second, row_second)
                try:
                    result = show(getattr(excel, name)(first, second))
                except BaseException as error:  # noqa
                    result = f'!{type(error).__name__}:{error}'
                record = f'{name}|{title_first}|{column_first}{row_first}|{title_second}|{column_second}{row_second}' \
                         f'|{show(first)}|{show(second)}|{result}'
                digest.update(record.encode())
                count += 1
    out('direct string pairs', count, digest.hexdigest())

    # a readable sample of the same calls
    samples = [
        ('Main', 'A', '1', 'A', '5'), ('Main', 'A', '1', 'C', '1'), ('Main', 'A', '1', 'C', '3'),
        ('Main', 'A', '', 'A', ''), ('S3', 'A', '', 'C', ''), ('S3', 'C', '', 'A', ''), ('Main', 'A', '1', 'A', ''),
        ('Main', 'A', '', 'A', '5'), ('Main', 'A', '', 'B', '5'), ('Main', 'A', '1', 'B', ''),
        ('Data Sheet', 'A', '1', 'D', '6'), ('Data Sheet', 'AB', '1', 'AB', '3'), ('S3', 'XFD', '1', 'XFD', '2'),
        ('Main', 'C', '3', 'A', '1'), ('Main', 'A', '5', 'A', '1'), ('Main', 'A', '40', 'B', '41'),
        ('Nope', 'A', '1', 'A', '2'), ('S3', 'XFC', '1', 'XFD', '2'), ('S3', 'XFD', '', 'XFD', ''),
        ('S3', 'XFB', '', 'XFD', ''), ('S3', 'XFA', '1', 'XFD', '1'),
    ]
    for title, column_first, row_first, column_second, row_second in samples:
        for name in ('get_range', 'get_matrix'):
            attempt(f'{name} {title}!{column_first}{row_first}:{column_second}{row_second}',
                    lambda: getattr(excel, name)(Cell(title, column_first, row_first),
                                                 Cell(title, column_second, row_second)))

    # integer identifiers, negative and out-of-sheet coordinates, None rows
    integers = [-2, -1, 0, 1, 3, 60]
    digest = hashlib.sha256()
    count = 0
    for title in (0, 2, 7, -1):
        for column_first, column_second in itertools.product([-1, 0, 2, 30], repeat=2):
            for row_first, row_second in itertools.product(integers + [None], repeat=2):
                for name in ('get_range', 'get_matrix'):
                    first = Cell(title, column_first, row_first)
                    second = Cell(title, column_second, row_second)
                    try:
                        result = show(getattr(excel, name)(first, second))
                    except BaseException as error:  # noqa
                        result = f'!{type(error).__name__}:{error}'
                    digest.update(f'{name}|{show(first)}|{show(second)}|{result}'.encode())
                    count += 1
    out('direct integer pairs', count, digest.hexdigest())
    attempt('int range', lambda: excel.get_range(Cell(0, 0, -1), Cell(0, 0, 1)))
    attempt('int matrix neg', lambda: excel.get_matrix(Cell(0, 0, -1), Cell(0, 1, 1)))
    attempt('int matrix none second', lambda: excel.get_matrix(Cell(0, 0, 1), Cell(0, 1, None)))
    attempt('int matrix none first', lambda: excel.get_matrix(Cell(0, 0, None), Cell(0, 1, 1)))
    attempt('mixed titles', lambda: excel.get_matrix(Cell(0, 0, 0), Cell(1, 1, 1)))
    attempt('mixed titles cols', lambda: excel.get_matrix(Cell(0, 0, None), Cell(1, 1, None)))

    # fill_cell and get_similar_second live next to the refactored code
    attempt('fill_cell', lambda: excel.fill_cell(Cell('Data Sheet', 'B', '2')))
    attempt('fill_cell blank', lambda: excel.fill_cell(Cell('Data Sheet', 'Z', '200')))
    attempt('fill_cell no row', lambda: excel.fill_cell(Cell('Main', 'A', None)))
    attempt('fill_cell unknown', lambda: excel.fill_cell(Cell('Nope', 'A', '1')))
    attempt('similar', lambda: excel.get_similar_second(Cell('Main', 'A', '1'), Cell('S3', 'A', '1'),
                                                         Cell('S3', 'A', '4')))
    attempt('similar cols', lambda: excel.get_similar_second(Cell('Main', 'B', ''), Cell('S3', 'A', ''),
                                                              Cell('S3', 'C', '')))

    # duplicated titles in the constructor: the last one wins
    twin = Excel({'data': [[[1]], [[2]], [[3]]], 'titles': ['x', 'y', 'x'], 'suspicious_cells': {},
                  'sheets_size': []})
    out('dup titles', twin.get_titles())
    attempt('dup fill', lambda: twin.fill_cell(Cell('x', 'A', '1')))
    attempt('dup matrix', lambda: twin.get_matrix(Cell('x', 'A', ''), Cell('x', 'B', '')))
    empty = Excel({'data': [[]], 'titles': ['e'], 'suspicious_cells': {}, 'sheets_size': []})
    attempt('empty col', lambda: empty.get_matrix(Cell('e', 'A', ''), Cell('e', 'A', '')))
    attempt('empty cols', lambda: empty.get_matrix(Cell('e', 'A', ''), Cell('e', 'C', '')))
    attempt('empty range', lambda: empty.get_range(Cell('e', 'A', ''), Cell('e', 'A', '')))
    attempt('empty cells', lambda: empty.get_cells())
    ragged = Excel({'data': [[[1, 2, 3], [4], [], [5, 6]]], 'titles': ['r'], 'suspicious_cells': {},
                    'sheets_size': []})
    attempt('ragged cols', lambda: ragged.get_matrix(Cell('r', 'A', ''), Cell('r', 'C', '')))
    attempt('ragged matrix', lambda: ragged.get_matrix(Cell('r', 'A', '1'), Cell('r', 'C', '5')))
    attempt('ragged column', lambda: ragged.get_range(Cell('r', 'B', ''), Cell('r', 'B', '')))
    attempt('ragged row', lambda: ragged.get_range(Cell('r', 'A', '2'), Cell('r', 'D', '2')))
    attempt('ragged cells', lambda: ragged.get_cells())


def end_to_end(directory, path, formulas_count):
    translation_path = os.path.join(directory, 'translated_main.py')
    parser = Parser().set_excel_file_path(path).enable_safety_check()
    translation = parser.get_translation()
    out('translation', len(translation), hashlib.sha256(translation.encode()).hexdigest())
    parser.write_translation(translation_path)

    executor = Executor().set_executed_class(class_file=translation_path)
    for row in range(formulas_count):
        attempt(f'F!B{row + 1}', lambda: executor.get_cell(Cell('F', 'B', str(row + 1))).value)
    attempt('Main!C5', lambda: executor.get_cell(Cell(0, 2, 4)).value)
    attempt('Main!B2 blank', lambda: executor.get_cell(Cell('Main', 'B', '2')).value)

    executor.set_cells([Cell('Main', 'A', '1', value=1000), Cell('S3', 'A', '3', value=7),
                        Cell('Data Sheet', 'C', '1', value=-5), Cell('S3', 'B', '2', value='zz')])
    for row in range(formulas_count):
        attempt(f'override F!B{row + 1}', lambda: executor.get_cell(Cell('F', 'B', str(row + 1))).value)

    # entry point translation (only the dependencies of one cell)
    entry = Parser().set_excel_file_path(path).set_entrypoint_cell(Cell('F', 'B', '12')).get_translation()
    out('entry translation', len(entry), hashlib.sha256(entry.encode()).hexdigest())


def rejected(directory):
    bad = [
        '=SUM(Nope!A1:A3)', "=SUM('No Sheet'!A1:B2)", '=Nope!A1', "='Data sheet'!A1", '=SUM(main!A:A)',
        '=SUM(Main!A1:B2;Nope!A1:B2)', '=VLOOKUP(1;Nope!A:B;2;0)', '=SUM(Main!A1:S3!A2)',
        '=SUM(Main!A1:B)', '=SUM(Main!A:B2)', '=SUM(Main!A1:A)', '=MATCH(1;Main!A1:B2;0)',
    ]
    for number, text in enumerate(bad):
        path = os.path.join(directory, f'bad_{number}.xlsx')
        wb = Workbook()
        sheet = wb.active
        sheet.title = 'Main'
        sheet['A1'] = 1
        sheet['A2'] = 2
        sheet['B1'] = 3
        sheet['D1'] = text
        wb.create_sheet('Data Sheet')['A1'] = 9
        wb.create_sheet('S3')['A1'] = 11
        wb.save(path)

        def run():
            translation_path = os.path.join(directory, f'bad_{number}.py')
            Parser().set_excel_file_path(path).write_translation(translation_path)
            return Executor().set_executed_class(class_file=translation_path).get_cell(Cell('Main', 'D', '1')).value

        attempt(f'bad {text}', run)


def main():
    directory = tempfile.mkdtemp(prefix='t52_r1_')
    try:
        path = os.path.join(directory, 'main.xlsx')
        formulas_count = build_main_workbook(path)
        direct_calls(path)
        end_to_end(directory, path, formulas_count)
        rejected(directory)
    finally:
        shutil.rmtree(directory, ignore_errors=True)
    text = '\n'.join(LINES)
    print(text)
    print('DIGEST', hashlib.sha256(text.encode()).hexdigest())
    return 0


if __name__ == '__main__':
    sys.exit(main())
