"""Equivalence demo for r1: the translation of comparison operators (ExpressionTokenTranslator /
OperatorSubTokenTranslator).  Builds a workbook full of comparison formulas, prints the generated code of every
formula cell and the computed values, plus direct calls of OperatorSubTokenTranslator on every operator token."""
import datetime
import hashlib
import os
import shutil
import tempfile

from openpyxl import Workbook

from excel2pycl import Parser, Executor, Cell
from excel2pycl.src import tokens as tk
from excel2pycl.src.translators.operator_sub_token_translator import OperatorSubTokenTranslator

OPS = ['=', '<>', '<', '<=', '>', '>=']
PAIRS = [
    ('A1', 'B1'), ('B1', 'A1'), ('A1', 'A1'), ('A2', 'B2'), ('B2', 'A2'), ('A3', 'B3'), ('B3', 'A3'),
    ('A4', 'B4'), ('B4', 'A4'), ('A5', 'B5'), ('B5', 'A5'), ('A6', 'B6'), ('B6', 'A6'), ('A7', 'B7'), ('B7', 'A7'),
    ('Z9', 'A1'), ('A1', 'Z9'), ('Z9', 'A3'), ('A3', 'Z9'), ('Z9', 'A4'), ('A4', 'Z9'), ('Z9', 'Z8'), ('Z9', 'A8'),
    ('A8', 'Z9'), ('Z9', 'B8'), ('B8', 'Z9'),
    ('A1', '1.5'), ('1.5', 'A1'), ('A1', '-2.25'), ('A3', '"abc"'), ('"abd"', 'A3'), ('A1', '"abc"'), ('"10"', 'A2'),
    ('A1+B1', 'B2-A2'), ('(A1+B1)', 'B2'), ('A1', '(B1*2)'), ('(A1+1)', '(B1-1)'), ('-A1', 'B1'), ('A1%', 'B1'),
    ('A1', 'B1%'), ('50%', '0.5'), ('A3&B3', '"abcabd"'), ('A3', 'A3&""'), ('DATE(2024,1,1)', 'A4'),
    ('A4', 'DATE(2024,1,2)'), ('TODAY()', 'TODAY()'), ('TODAY()', 'A4'), ('SUM(A1:B2)', '24'), ('A1*B1', '3.75'),
    ('0.1+0.2', '0.3'), ('A1/B1', '0.6'), ('TRUE()', 'FALSE()'),
]


def build(path):
    wb = Workbook()
    ws = wb.active
    ws.title = 'cmp'
    ws['A1'], ws['B1'] = 1.5, 2.5
    ws['A2'], ws['B2'] = 10, 10.0
    ws['A3'], ws['B3'] = 'abc', 'abd'
    ws['A4'], ws['B4'] = datetime.date(2024, 1, 1), datetime.datetime(2024, 1, 1, 0, 0, 0)
    ws['A5'], ws['B5'] = datetime.datetime(2024, 1, 1, 1, 10, 10), datetime.date(2024, 1, 2)
    ws['A6'], ws['B6'] = -3, -3.5
    ws['A7'], ws['B7'] = 'Abc', 'abc'
    ws['A8'], ws['B8'] = 0, ''
    row = 1
    cells = []
    for left, right in PAIRS:
        for op in OPS:
            ws.cell(row=row, column=4, value=f'={left}{op}{right}')
            cells.append((row, f'{left}{op}{right}'))
            row += 1
    # comparisons nested in other constructions
    extra = ['=IF(A1<B1, "lt", "ge")', '=IF(A3>=B3, 1, 2)', '=IF((A1<B1)=(A6>B6), "same", "diff")',
             '=AND(A1<B1, A2=B2, A3<>B3)', '=OR(A1>B1, A4=B4)', '=IF(A1=1.5, IF(B1<>2.5, 1, 2), 3)',
             '=(A1<B1)+(A2>=B2)', '=SUM(A1:B1)>=4', '=A1<B1<B2']
    for formula in extra:
        ws.cell(row=row, column=4, value=formula)
        cells.append((row, formula))
        row += 1
    wb.save(path)
    return cells


def show(value):
    return f'{type(value).__name__}:{value!r}'


def main():
    tmp = tempfile.mkdtemp(prefix='t50r1_')
    try:
        xlsx = os.path.join(tmp, 'book.xlsx')
        out_py = os.path.join(tmp, 'book_translation.py')
        cells = build(xlsx)
        parser = Parser().set_excel_file_path(xlsx)
        text = parser.get_translation()
        print('translation sha256', hashlib.sha256(text.encode()).hexdigest())
        functions = text[text.rindex("return '#VALUE!'"):]
        for line in functions.splitlines():
            if line.strip():
                print('GEN', line)
        parser.write_translation(out_py)
        executor = Executor().set_executed_class(class_file=out_py)
        for row, formula in cells:
            try:
                value = show(executor.get_cell(Cell(0, 3, row - 1)).value)
            except Exception as error:  # noqa
                value = 'EXC ' + type(error).__name__
            print('VAL', row, formula, '->', value)
        # overriding inputs
        executor.set_cells([Cell('cmp', 'A', '1', value=2.5), Cell('cmp', 'A', '3', value='abd'),
                            Cell('cmp', 'A', '4', value=datetime.datetime(2024, 1, 1, 0, 0, 1))])
        for row, formula in cells[:60]:
            try:
                value = show(executor.get_cell(Cell(0, 3, row - 1)).value)
            except Exception as error:  # noqa
                value = 'EXC ' + type(error).__name__
            print('VAL2', row, formula, '->', value)
    finally:
        shutil.rmtree(tmp, ignore_errors=True)

    # the operator translator on every regexp operator token
    samples = [
        (tk.NotEqOperatorToken, '<>'), (tk.EqOperatorToken, '='), (tk.GtOperatorToken, '>'),
        (tk.GtOrEqualOperatorToken, '>='), (tk.LtOperatorToken, '<'), (tk.LtOrEqualOperatorToken, '<='),
        (tk.PlusOperatorToken, '+'), (tk.MinusOperatorToken, '-'), (tk.MultiplicationOperatorToken, '*'),
        (tk.DivOperatorToken, '/'), (tk.AmpersandToken, '&'), (tk.PercentToken, '%'),
    ]
    for token_class, text in samples:
        token, rest = token_class.get(text + 'A1', None)
        print('OP', token_class.__name__, repr(OperatorSubTokenTranslator.translate(token, None, None)), repr(rest))

    class OddEq(tk.EqOperatorToken):
        pass

    for token in (OddEq(('=',), None), tk.EqOperatorToken((), None), tk.GtOperatorToken((), None),
                  tk.GtOperatorToken(('>', 'x'), None)):
        try:
            print('OPX', type(token).__name__, repr(OperatorSubTokenTranslator.translate(token, None, None)))
        except Exception as error:  # noqa
            print('OPX', type(token).__name__, 'EXC', type(error).__name__)


if __name__ == '__main__':
    main()
