"""Equivalence demo for r3: Excel.parse (reading the workbook: coordinates, types, sizes, suspicious cells)."""
import datetime
import hashlib
import os
import shutil
import tempfile

from openpyxl import Workbook
from openpyxl.worksheet.formula import ArrayFormula

from excel2pycl import Parser, Executor, Cell
from excel2pycl.src.excel import Excel


def show(value):
    return f'{type(value).__name__}:{value!r}'


def attempt(fn, *args):
    try:
        return show(fn(*args))
    except BaseException as exc:  # noqa
        return f'EXC:{type(exc).__name__}:{exc}'


def book_types(path):
    wb = Workbook()
    ws = wb.active
    ws.title = 'Types'
    values = [1, 0, -7, 2 ** 40, 1.5, 0.0, -0.25, 1e-12, 1e15, True, False, 'text', ' padded ', "it's", 'a"b', '0',
              '', 'ünï', '#N/A', '#DIV/0!', datetime.datetime(2024, 2, 29, 13, 45, 10), datetime.date(1999, 12, 31),
              datetime.datetime(1900, 3, 1), datetime.time(6, 30), '=1+2', '=A1&"x"', '=SUM(A1:A3)', '=TRUE',
              "'quoted", '3.0', 3.0, 1e100]
    for index, value in enumerate(values, start=1):
        ws.cell(row=index, column=1, value=value)
    ws.cell(row=5, column=4, value='far')
    wb.save(path)


def book_sparse(path):
    wb = Workbook()
    ws = wb.active
    ws.title = 'Sparse'
    ws['C3'] = 3
    ws['A7'] = 'a7'
    ws['J2'] = 2.5
    ws['E12'] = '=C3*2'
    ws['AB1'] = True
    ws['B20'] = datetime.datetime(2021, 1, 1)
    second = wb.create_sheet('Second sheet')
    second['B2'] = "=Sparse!C3+'Second sheet'!A1"
    second['A1'] = 10
    wb.create_sheet('Empty')
    last = wb.create_sheet("O'Brien")
    last['A1'] = "='Second sheet'!B2+1"
    last['D4'] = 'end'
    one = wb.create_sheet('One')
    one['A1'] = 1
    wb.save(path)


def book_many(path):
    wb = Workbook()
    wb.remove(wb.active)
    for index in range(12):
        ws = wb.create_sheet(f'S{index}')
        for row in range(1, index + 1):
            for column in range(1, (row * 3) % 5 + 2):
                ws.cell(row=row, column=column, value=index * 100 + row * 10 + column)
        if index % 3 == 0:
            ws.cell(row=index + 2, column=index + 3, value=f'=S{(index + 1) % 12}!A1+{index}')
    wb.save(path)


def book_array(path):
    wb = Workbook()
    ws = wb.active
    ws.title = 'Arr'
    for row in range(1, 4):
        ws.cell(row=row, column=2, value=row)
    ws['A1'] = ArrayFormula('A1', '=SUM(B1:B3)')
    ws['A2'] = ArrayFormula('A2:A2', '=MAX(B1:B3)')
    ws['C5'] = ArrayFormula('C5', '=B1+B2')
    wb.save(path)


def book_suspicious(path):
    wb = Workbook()
    ws = wb.active
    ws.title = 'Sus'
    ws['A1'] = '=SUM(B1:B2)'
    ws['A2'] = 'os.system(1)'
    ws['B3'] = 'plain (text)'
    ws['C1'] = '__import__("os")'
    ws['C2'] = 'eval(x) and SUM(y) and print(z)'
    ws['D9'] = 'IF(A1>1,exec(1),2)'
    ws['E1'] = 'Sum(1)'
    ws['E2'] = 'A1(2)'
    other = wb.create_sheet('Other')
    other['B2'] = 'open(f)'
    other['A1'] = 5
    wb.save(path)


def book_ragged(path):
    wb = Workbook()
    ws = wb.active
    ws.title = 'Ragged'
    ws.append([1])
    ws.append([1, 2, 3, 4, 5, 6, 7])
    ws.append([])
    ws.append([None, None, 'x'])
    ws.append(['=B2+G2'])
    wb.save(path)


BOOKS = [('types', book_types), ('sparse', book_sparse), ('many', book_many), ('array', book_array),
         ('suspicious', book_suspicious), ('ragged', book_ragged)]


def describe(name, path, tmp, out):
    excel = attempt(Excel.parse, path)
    if excel.startswith('EXC'):
        out.append(f'{name} parse {excel}')
        return
    excel = Excel.parse(path)
    out.append(f'{name} titles {excel.get_titles()!r} order={list(excel.get_titles())!r}')
    out.append(f'{name} sizes {excel.get_sheets_size()!r}')
    out.append(f'{name} suspicious {excel._suspicious_cells!r} order={list(excel._suspicious_cells)!r}')
    out.append(f'{name} is_safe {attempt(excel.is_safe)}')
    for sheet_index, sheet in enumerate(excel._data):
        out.append(f'{name} sheet {sheet_index} rows={len(sheet)} lens={[len(row) for row in sheet]!r}')
        for row_index, row in enumerate(sheet):
            out.append(f'{name} data {sheet_index} {row_index} ' + ' | '.join(show(value) for value in row))
    cells = excel.get_cells()
    out.append(f'{name} cells {len(cells)} '
               + hashlib.sha256(repr([(c.title, c.column, c.row, show(c.value)) for c in cells]).encode()).hexdigest())
    for safety in (True, False):
        parser = Parser().set_excel_file_path(path)
        parser = parser.enable_safety_check() if safety else parser.disable_safety_check()
        result = attempt(parser.get_translation)
        out.append(f'{name} translation safety={safety} ' + hashlib.sha256(result.encode()).hexdigest()
                   + (' ' + result[:300] if result.startswith('EXC') else ''))
        if result.startswith('EXC'):
            continue
        out_py = os.path.join(tmp, f'{name}_{safety}.py')
        parser.write_translation(out_py)
        executor = Executor().set_executed_class(class_file=out_py)
        out.append(f'{name} exec titles {executor._titles!r} sizes {executor._sheets_size!r}')
        for title, index in executor._titles.items():
            sheet = attempt(lambda: [[show(c.value) for c in row] for row in executor.get_sheet(title)])
            out.append(f'{name} exec sheet {title!r} {sheet}')
            size = executor._sheets_size[index]
            for row in range(size['last_row'] + 1):
                for column in range(size['last_column'] + 1):
                    out.append(f'{name} exec cell {index},{column},{row} '
                               + attempt(lambda: executor.get_cell(Cell(index, column, row)).value))


def main():
    out = []
    tmp = tempfile.mkdtemp(prefix='r3demo')
    try:
        for name, builder in BOOKS:
            path = os.path.join(tmp, f'{name}.xlsx')
            builder(path)
            describe(name, path, tmp, out)
        out.append('missing ' + attempt(Excel.parse, os.path.join(tmp, 'nope.xlsx')))
        junk = os.path.join(tmp, 'junk.xlsx')
        with open(junk, 'w') as f:
            f.write('not a zip')
        out.append('junk ' + attempt(Excel.parse, junk))
        out.append('none ' + attempt(Excel.parse, None)[:60])
        # the suspicious-construction filter itself
        for text in ['f(x)', 'SUM(x)', 'Sum(x)', 'a1(2) B(3) c_d(4)', 5, None, True, 'no parens', '()', 'x()',
                     'X()', 'ab(cd(ef)gh)', '=IF(a(1),B(2))', 'multi\nline(1)']:
            out.append(f'filter {text!r} ' + attempt(Excel._get_suspicious_constructions, text))
    finally:
        shutil.rmtree(tmp, ignore_errors=True)
    out = [line.replace(tmp, '<tmp>') for line in out]
    for line in out:
        print(line)
    print('lines', len(out), 'digest', hashlib.sha256('\n'.join(out).encode()).hexdigest())


if __name__ == '__main__':
    main()
