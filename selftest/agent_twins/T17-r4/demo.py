"""Equivalence demo for r4 (_address: the two `match ref_type` statements written as if/elif chains; both runtime copies).

Run as: PYTHONPATH=<tree> /venv/bin/python demo.py
Prints a deterministic digest; the output must be identical on the unchanged and the refactored tree.
"""
import hashlib
import itertools
import os
import re
import shutil
import sys
import tempfile

from openpyxl import Workbook

from excel2pycl import Parser, Executor, Cell
from excel2pycl.src.utilities.abstract_excel_in_python_class import AbstractExcelInPython

LINES = []


def out(*parts):
    LINES.append(' | '.join(str(p) for p in parts))


def show(value):
    return f'{type(value).__name__}:{value!r}'


def call(function, *args):
    try:
        return show(function(*args))
    except BaseException as error:  # noqa
        return 'raised ' + type(error).__name__


class Direct(AbstractExcelInPython):
    pass


class Loud:
    """an argument whose comparisons are recorded: the chain must ask the same questions in the same order"""

    def __init__(self, equal_to, log):
        self.equal_to = equal_to
        self.log = log

    def __eq__(self, other):
        self.log.append(other)
        return other == self.equal_to

    __hash__ = None

    def __repr__(self):
        return f'Loud({self.equal_to!r})'


class Raising:
    def __eq__(self, other):
        raise ArithmeticError('no equality')

    __hash__ = None

    def __repr__(self):
        return 'Raising()'


REF_TYPES = ['1', '2', '3', '4', '5', '0', '', ' 1', '1 ', '11', 1, 2, 3, 4, 1.0, True, None, 'abs', b'1', ('1',)]
A1_TYPES = ['False', 'True', 'false', 'FALSE', False, True, 0, '', None, 'x']
SHEETS = ['Sheet1', "'My sheet'", '[Book1]Sheet1', '', 'mid', 5, None]


def exercise_helpers(label, instance):
    address = instance._address
    digest = hashlib.sha256()
    count = 0

    def record(*args, echo=False):
        nonlocal count
        line = f'{label} {args!r} -> ' + call(address, *args)
        digest.update(line.encode())
        count += 1
        if echo:
            out(line)

    # every column of a worksheet (and some beyond), both notations, every reference type
    for col in itertools.chain(range(0, 16390), (18277, 18278, 18279, 475254, 10 ** 6, 26 ** 4, 26 ** 4 + 1)):
        echo = col in (0, 1, 2, 25, 26, 27, 51, 52, 53, 676, 677, 701, 702, 703, 704, 728, 729, 16383, 16384, 16385,
                       18278, 475254, 10 ** 6)
        record(1, col, echo=echo)
        record(3, col, '1', echo=echo)
        record(3, col, '2', echo=echo)
        record(col % 1048576 + 1, col, '3', echo=echo)
        record(3, col, '4', echo=echo)
        record(3, col, '4', 'False')
        record(3, col, '2', 'False', 'S')
    out(label, 'columns digest', count, digest.hexdigest())

    for row, col in [(1, 1), (3, 28), (1048576, 16384), (0, 1), (-1, 3), (2.5, 3), ('7', 3), (None, 3), (True, 2),
                     (3, -1), (3, -27), (3, 2.0), (3, 27.5), (3, '3'), (3, None), (3, True), ([1], 3)]:
        for ref_type in REF_TYPES:
            record(row, col, ref_type, echo=True)
            for a1_type in A1_TYPES:
                record(row, col, ref_type, a1_type, echo=(row, col) in [(3, 28), (3, '3')])
                for sheet in SHEETS[:3] if (row, col) != (3, 28) else SHEETS:
                    record(row, col, ref_type, a1_type, sheet, echo=(row, col) == (3, 28) and a1_type in (
                        'False', 'True') and ref_type in ('1', '2', '3', '4', '5', 1))
    # surplus arguments are ignored
    record(3, 28, '4', 'False', 'S', 'extra', 'more', echo=True)
    record(3, 28, '9', 'True', 'S', 'extra', echo=True)
    out(label, 'arguments digest', count, digest.hexdigest())

    # the order and the number of comparisons made with the reference type
    for equal_to in ['1', '2', '3', '4', '5', None]:
        for rest in [(), ('False',), ('True',), ('False', 'S')]:
            log = []
            result = call(address, 3, 28, Loud(equal_to, log), *rest)
            out(label, 'comparisons', repr(equal_to), rest, result, log)
    out(label, 'raising ref type', call(address, 3, 28, Raising()), call(address, 3, 28, Raising(), 'False'),
        call(address, 3, 28, '1', Raising()))
    # a column that cannot be converted is only a problem on the paths that need the letters
    for ref_type in ['1', '4', '5']:
        for a1_type in [(), ('False',), ('True',)]:
            out(label, 'text column', ref_type, a1_type, call(address, 3, 'x', ref_type, *a1_type))
    out(label, 'static call', call(type(instance)._address, 3, 28, '4'), call(type(instance)._address, 3, 28))


FORMULAS = [
    '=ADDRESS(3;1)', '=ADDRESS(3;2;2)', '=ADDRESS(3;3;3)', '=ADDRESS(3;4;4)', '=ADDRESS(3;5;1)', '=ADDRESS(3;6;2;FALSE)',
    '=ADDRESS(3;7;2;FALSE;"mid")', '=ADDRESS(3;8;1;TRUE;"[WorkBook1]ASD")', '=ADDRESS(3;704)', '=ADDRESS(1,1)',
    '=ADDRESS(1,26)', '=ADDRESS(1,27)', '=ADDRESS(1,52)', '=ADDRESS(1,702)', '=ADDRESS(1,703)', '=ADDRESS(1,16384)',
    '=ADDRESS(1048576,16384,4)', '=ADDRESS(A1,B1)', '=ADDRESS(A1,B1,4)', '=ADDRESS(A1+1,B1*2,3)',
    '=ADDRESS(A1,B1,1,FALSE)', '=ADDRESS(A1,B1,3,FALSE)', '=ADDRESS(A1,B1,4,FALSE)', '=ADDRESS(A1,B1,4,TRUE)',
    '=ADDRESS(A1,B1,5)', '=ADDRESS(A1,B1,5,FALSE)', '=ADDRESS(2,3,4,FALSE,"S")', '=ADDRESS(2,3,1,TRUE,"S")',
    '=ADDRESS(A1,B1,C1)', '=ADDRESS(2,3,C1,FALSE)', '=ADDRESS(ROUND(2.4,0),MATCH(30,D1:D4,0))',
    '=ADDRESS(MATCH(30,D1:D4,0),COLUMN(C1))', '=ADDRESS(1,COLUMN())', '="at "&ADDRESS(A1,B1,4)',
    '=IF(ADDRESS(1,1,4)="A1","yes","no")', '=IFERROR(ADDRESS(A1,B1),"bad")', '=ADDRESS(A2,B1)', '=ADDRESS(A1,B2)',
    # rejected at translation
    '=ADDRESS(3)', '=ADDRESS()', '=ADDRESS(3,1', '=ADDRESS(3,,1)',
]

INPUTS = [
    # A   B    C   D
    [3, 28, 4, 10],
    [None, 'x', 2, 20],
    [0, -5, 1, 30],
    [1, 1, 3, 40],
]

OVERRIDES = [
    {'A1': 1, 'B1': 1}, {'A1': 10, 'B1': 16384, 'C1': 2}, {'A1': 7, 'B1': 26, 'C1': '3'}, {'A1': 0, 'B1': 0, 'C1': 9},
    {'A1': 2.0, 'B1': 703, 'C1': None}, {'A1': 'r', 'B1': 52, 'C1': 1},
]


def save_workbook(folder, name, formulas):
    workbook = Workbook()
    sheet = workbook.active
    sheet.title = 'S'
    for row in INPUTS:
        sheet.append(row)
    for number, formula in enumerate(formulas):
        sheet.cell(row=number + 1, column=6, value=formula)
    path = os.path.join(folder, name)
    workbook.save(path)
    return path


def exercise_workbook(folder):
    accepted = []
    functions_digest = hashlib.sha256()
    for number, formula in enumerate(FORMULAS):
        path = save_workbook(folder, f'book_{number}.xlsx', [formula])
        target = os.path.join(folder, f'cls_{number}.py')
        try:
            translation = Parser().set_excel_file_path(path).set_entrypoint_cell(Cell(0, 5, 0)).get_translation()
        except BaseException as error:  # noqa
            out('formula', formula, 'translation raised', type(error).__name__)
            continue
        accepted.append(formula)
        cell_functions = re.findall(r'^    def (_\d+_\d+_\d+(?:_\d+)?)\(self\):\n        return (.*)$', translation,
                                    re.M)
        functions_digest.update(repr(cell_functions).encode())
        with open(target, 'w', encoding='utf-8') as file:
            file.write(translation)
        executor = Executor().set_executed_class(class_file=target)
        results = [call(lambda: executor.get_cell(Cell(0, 5, 0)).value)]
        for override in OVERRIDES:
            executor.set_cells([Cell('S', address[0], address[1:], value=value) for address, value in override.items()])
            results.append(call(lambda: executor.get_cell(Cell('S', 'F', '1')).value))
        out('formula', formula, dict(cell_functions).get('_0_5_0'), *results)
    out('cell functions digest', functions_digest.hexdigest())

    path = save_workbook(folder, 'book_all.xlsx', accepted)
    target = os.path.join(folder, 'cls_all.py')
    Parser().set_excel_file_path(path).write_translation(target)
    executor = Executor().set_executed_class(class_file=target)
    for number, formula in enumerate(accepted):
        out('whole file', formula, call(lambda: executor.get_cell(Cell(0, 5, number)).value))
    return executor.get_executed_class()


def main():
    folder = tempfile.mkdtemp(prefix='demo_r4_')
    sys.dont_write_bytecode = True
    try:
        exercise_helpers('class copy', Direct())
        template_instance = exercise_workbook(folder)
        exercise_helpers('template copy', template_instance)
    finally:
        shutil.rmtree(folder, ignore_errors=True)
    text = '\n'.join(LINES)
    print(text)
    print('TOTAL', len(LINES), hashlib.sha256(text.encode()).hexdigest())


if __name__ == '__main__':
    main()
