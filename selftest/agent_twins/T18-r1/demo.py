"""Equivalence demo for r1: ROUND / ROUNDUP / ROUNDDOWN share one decimal helper.

Exercises both copies of the runtime class (the importable class and the class generated from
the str.format template) directly on a large grid of (number, num_digits) pairs including
boundary and invalid ones, plus a transpiled workbook evaluated through Parser/Executor.
Prints one line per result and a sha256 of everything printed.
"""
import hashlib
import math
import os
import random
import shutil
import sys
import tempfile
from decimal import Decimal

from openpyxl import Workbook

from excel2pycl import Parser, Executor, Cell
from excel2pycl.src.object_loader import load_module
from excel2pycl.src.utilities.abstract_excel_in_python_class import AbstractExcelInPython

_digest = hashlib.sha256()
_lines = 0


def out(line: str, show: bool = True):
    global _lines
    _digest.update(line.encode('utf-8') + b'\n')
    _lines += 1
    if show:
        print(line)


def show_value(value):
    if isinstance(value, float):
        if math.isnan(value):
            return 'float:nan'
        return f'float:{value!r}:{value.hex()}'
    return f'{type(value).__name__}:{value!r}'


def call(function, *args):
    try:
        return show_value(function(*args))
    except BaseException as error:  # the class name of whatever is raised is part of the behaviour
        return f'raises {type(error).__name__}'


class Direct(AbstractExcelInPython):
    pass


NUMBERS = [
    0, 0.0, -0.0, 0.5, -0.5, 1.5, 2.5, -2.5, 3.5, 0.05, 0.15, 0.25, 0.35, 2.675, -2.675, 1.005, 1.015, 1.025, 0.285,
    8.325, 1.45, 1.55, 0.1 + 0.2, 0.3, 1 / 3, 2 / 3, 10.24, 10.239584, 1234.5678, -1234.5678, 15, 25, 149, 150, 151,
    -149, -150, -151, 5, -5, 4.999999999999999, 5.000000000000001, 0.9999999999999999, 0.99999999999999999,
    999999999999999, 999999999999999.9, 123456789012345, 12345678901234.5, 1234567890123.45, 0.000123456789012345,
    1e15, 1e16, 1e22, 1.5e300, 1.7976931348623157e308, 1e-7, 1e-15, 1e-20, 5e-324, 2.2250738585072014e-308,
    10 ** 20, -10 ** 20, 2 ** 53 + 1, True, False, float('nan'), float('inf'), float('-inf'),
    '3.14159', ' 2.5 ', '1e3', 'abc', '', None, Decimal('2.675'), Decimal('1.005'), [1], 1 + 2j,
]
DIGITS = [
    0, 1, 2, 3, 5, 10, 14, 15, 16, 17, 20, 100, 300, 399, 400, 401, 1000,
    -1, -2, -3, -5, -14, -15, -16, -20, -100, -308, -309, -400, -1000,
    0.0, 2.9, -2.9, 0.5, True, False, '2', '-1', 'x', None, float('nan'), float('inf'), Decimal('2'), [2],
]
NAMES = ['_round', '_roundup', '_rounddown']


def grid(label, instance):
    for name in NAMES:
        function = getattr(instance, name)
        for number in NUMBERS:
            for digits in DIGITS:
                out(f'{label} {name}({number!r}, {digits!r}) -> {call(function, number, digits)}')


def random_decimals(label, instance):
    rng = random.Random(20240916)
    for index in range(6000):
        significant = rng.randint(1, 15)
        mantissa = rng.randint(10 ** (significant - 1), 10 ** significant - 1)
        if rng.random() < 0.35:  # force a trailing 5 so that ties are frequent
            mantissa = mantissa - mantissa % 10 + 5
        exponent = rng.randint(-18, 6)
        sign = rng.choice(['', '-'])
        number = float(f'{sign}{mantissa}e{exponent}')
        digits = rng.randint(-8, 18)
        name = NAMES[index % 3]
        out(f'{label} rnd {name}({number!r}, {digits}) -> {call(getattr(instance, name), number, digits)}',
            show=index < 60)


def workbook_part(tmp_dir):
    xlsx = os.path.join(tmp_dir, 'rounding.xlsx')
    module_path = os.path.join(tmp_dir, 'rounding_translation.py')
    values = [2.675, -2.675, 1.005, 0.285, 2.5, -2.5, 1234.5678, 0.000123456789012345, 999999999999999, 0.5, 15, 0]
    digit_values = [2, 0, -1]
    wb = Workbook()
    ws = wb.active
    formulas = []
    for row, value in enumerate(values, start=1):
        ws.cell(row=row, column=1, value=value)
        column = 2
        for digits_index, digits in enumerate(digit_values):
            ws.cell(row=row, column=20 + digits_index, value=digits)
            for function in ('ROUND', 'ROUNDUP', 'ROUNDDOWN'):
                formula = f'={function}(A{row}, {digits})'
                ws.cell(row=row, column=column, value=formula)
                formulas.append((column - 1, row - 1, formula))
                column += 1
        for function in ('ROUNDUP', 'ROUNDDOWN'):  # num_digits omitted -> 0
            formula = f'={function}(A{row})'
            ws.cell(row=row, column=column, value=formula)
            formulas.append((column - 1, row - 1, formula))
            column += 1
        for formula in (f'=ROUND(A{row}*10%, T{row})', f'=ROUND(A{row}%, 3)', f'=ROUNDUP(ROUNDDOWN(A{row}, 1), V{row})'):
            ws.cell(row=row, column=column, value=formula)
            formulas.append((column - 1, row - 1, formula))
            column += 1
    wb.save(xlsx)

    Parser().set_excel_file_path(xlsx).write_translation(module_path)
    executor = Executor().set_executed_class(class_file=module_path)
    for column, row, formula in formulas:
        out(f'workbook {formula} @({column},{row}) -> '
            f'{call(lambda c=column, r=row: executor.get_cell(Cell(0, c, r)).value)}')

    executor.set_cells([Cell(0, 0, 0, value=0.125), Cell(0, 0, 1, value=-0.125), Cell(0, 0, 2, value='7.5'),
                        Cell(0, 0, 3, value='seven')])
    for column, row, formula in formulas:
        if row < 4:
            out(f'workbook/override {formula} @({column},{row}) -> '
                f'{call(lambda c=column, r=row: executor.get_cell(Cell(0, c, r)).value)}')
    return load_module(module_path).ExcelInPython()


def main():
    tmp_dir = tempfile.mkdtemp(prefix='r1_demo_')
    try:
        generated = workbook_part(tmp_dir)
        for label, instance in (('class', Direct()), ('template', generated)):
            grid(label, instance)
            random_decimals(label, instance)
            # the public surface of the three functions stays what it was
            for name in NAMES:
                function = getattr(instance, name)
                out(f'{label} {name} keyword call -> {call(lambda f=function: f(number=2.675, num_digits=2))}')
                out(f'{label} {name} empty cell -> {call(function, instance.EmptyCell(), instance.EmptyCell())}')
                out(f'{label} {name} missing arg -> {call(function, 1.5)}')
    finally:
        shutil.rmtree(tmp_dir, ignore_errors=True)
    print(f'lines={_lines} sha256={_digest.hexdigest()}')


if __name__ == '__main__':
    main()
    sys.exit(0)
