"""Equivalence demo for r4: CellTranslator (constant / formula cells), handle_cell, Executor.get_sheet."""
import datetime
import hashlib
import os
import shutil
import tempfile

from openpyxl import Workbook

from excel2pycl import Parser, Executor, Cell
from excel2pycl.src.context import Context
from excel2pycl.src.excel import Excel
from excel2pycl.src.handle_cell import handle_cell
from excel2pycl.src.translators import CellTranslator


def show(value):
    return f'{type(value).__name__}:{value!r}'


def attempt(fn, *args):
    try:
        return show(fn(*args))
    except BaseException as exc:  # noqa
        return f'EXC:{type(exc).__name__}:{exc}'


CONSTANTS = [1, 0, -7, 2 ** 40, 1.5, 0.0, -0.25, 1e-12, 1e15, 1e100, True, False, 'text', ' padded ', "it's", 'a"b',
             'back\\slash', 'new\nline', '0', 'ünï', '#N/A', '#DIV/0!', ' =notformula', 'x=1', "'=quoted",
             datetime.datetime(2024, 2, 29, 13, 45, 10), datetime.date(1999, 12, 31), datetime.time(6, 30),
             datetime.datetime(1900, 3, 1), None, '{braces}', '{{double}}', '%s %d', 3.0, '3.0']

FORMULAS = ['=1+2', '=A1+A2', '=A13&A14', '=SUM(A1:A10)', '=IF(A11,A26,A27)', '=B1*2', '=B6', '=Other!A1+1',
            "='Sheet two'!B2", '=A30', '=A30+1', '=IF(A30="","empty","full")', '=TRUE', '="lit"', '=-A3',
            '=Z99', '=B2&B2', '=COUNTBLANK(A1:A35)']


def build(path, circular):
    wb = Workbook()
    ws = wb.active
    ws.title = 'Main'
    for row, value in enumerate(CONSTANTS, start=1):
        if value is not None:
            ws.cell(row=row, column=1, value=value)
    for row, formula in enumerate(FORMULAS, start=1):
        ws.cell(row=row, column=2, value=formula)
    other = wb.create_sheet('Other')
    other['A1'] = 41
    other['C3'] = '=Main!B1+A1'
    two = wb.create_sheet('Sheet two')
    two['B2'] = '=Other!C3*2'
    wb.create_sheet('Blank')
    if circular:
        loop = wb.create_sheet('Loop')
        loop['A1'] = '=A1+1'
        loop['B1'] = '=B2'
        loop['B2'] = '=B3'
        loop['B3'] = '=B1'
        loop['C1'] = '=Main!A1'
        loop['D1'] = '=D'
    wb.save(path)


def functions_of(text):
    return text[text.index('    def _0_'):] if '    def _0_' in text else text


def handle_cases(out):
    titles = {'Main': 0, 'Other': 1, '': 2, '0': 3}
    rows = ['1', '10', '0', '', ' 5', '5 ', '-3', 'x', '1.5', '١', None, 0, 7, -1, 2.5, True]
    columns = ['A', 'Z', 'AA', 'ZZ', 'XFD', 'a', 'aB', '', '1', 'A1', 'XFE', 'AAAA', 0, 5, -1, None, 1.5]
    sheet_ids = ['Main', 'Other', '', '0', 'main', 'Missing', 0, 3, 99, -1, None, 1.0]
    for title in sheet_ids:
        for column in ('B', 2):
            for row in ('3', 3):
                cell = Cell(title, column, row)
                result = attempt(handle_cell, cell, titles)
                out.append(f'handle title={title!r} col={column!r} row={row!r} -> {result} '
                           f'{cell.title!r} {cell.column!r} {cell.row!r} handled={cell.has_handled_identifiers()} '
                           f'uid={attempt(lambda: cell.uid)}')
    for column in columns:
        for row in rows:
            cell = Cell('Main', column, row)
            result = attempt(handle_cell, cell, titles)
            out.append(f'handle col={column!r} row={row!r} -> {result} {cell.title!r} {cell.column!r} {cell.row!r} '
                       f'handled={cell.has_handled_identifiers()} uid={attempt(lambda: cell.uid)}')
    cell = Cell('Nope', 'junk', 'junk', _handled_identifiers=True)
    out.append(f'handle prehandled {attempt(handle_cell, cell, titles)} {cell.title!r} {cell.column!r} {cell.row!r}')
    cell = Cell('Main', 'B', '2')
    handle_cell(cell, titles)
    out.append(f'handle twice {attempt(handle_cell, cell, {})} {cell.title!r} {cell.column!r} {cell.row!r}')


def main():
    out = []
    tmp = tempfile.mkdtemp(prefix='r4demo')
    try:
        handle_cases(out)
        good = os.path.join(tmp, 'good.xlsx')
        bad = os.path.join(tmp, 'bad.xlsx')
        build(good, circular=False)
        build(bad, circular=True)

        # whole-file translation: text must be identical (template untouched)
        text = Parser().set_excel_file_path(good).get_translation()
        out.append('good class ' + hashlib.sha256(text.encode()).hexdigest())
        for line in functions_of(text).splitlines():
            out.append('good fn ' + line)
        out.append('bad whole ' + attempt(lambda: Parser().set_excel_file_path(bad).get_translation()))

        # entry points with every flavour of identifier
        entry_points = [Cell('Main', 'A', str(r)) for r in range(1, len(CONSTANTS) + 2)]
        entry_points += [Cell('Main', 'B', str(r)) for r in range(1, len(FORMULAS) + 2)]
        entry_points += [Cell(0, 0, 0), Cell(0, 1, 3), Cell(1, 2, 2), Cell(2, 1, 1), Cell(3, 0, 0), Cell(3, 5, 5),
                         Cell(0, 'B', '4'), Cell('Other', 2, 2), Cell('Main', 'B', ''), Cell('Main', 'B', None),
                         Cell('Missing', 'A', '1'), Cell(9, 0, 0), Cell(0, 0, 500), Cell(0, 500, 0), Cell(0, -1, 0),
                         Cell(0, 0, -1), Cell('Main', 'B', 'x'), Cell('Main', '1', '1'), Cell(0, 1.0, 1)]
        entry_points += [Cell('Loop', c, r) for c, r in (('A', '1'), ('B', '1'), ('B', '2'), ('B', '3'), ('C', '1'),
                                                         ('D', '1'), ('E', '1'))]
        for cell in entry_points:
            label = f'{cell.title!r},{cell.column!r},{cell.row!r}'
            parser = Parser().set_excel_file_path(bad).set_entrypoint_cell(cell)
            result = attempt(lambda: functions_of(parser.get_translation()))
            out.append(f'entry {label} -> {result}')

        # direct CellTranslator calls sharing one context (caching, repeated translation, pre-handled cells)
        excel = Excel.parse(bad)
        context = Context()
        direct = [Cell(0, 0, 0), Cell(0, 0, 0), Cell('Main', 'B', '2'), Cell('Main', 'B', '2'), Cell(0, 1, 1),
                  Cell(0, 0, 29), Cell(4, 0, 0), Cell(4, 0, 0), Cell(4, 1, 0), Cell(4, 1, 1), Cell(4, 2, 0),
                  Cell(7, 7, 7, value='=1+1', _handled_identifiers=True),
                  Cell(7, 7, 8, value=None, _handled_identifiers=True),
                  Cell(7, 7, 9, value=[1, 'x'], _handled_identifiers=True),
                  Cell(7, 7, 10, value='=', _handled_identifiers=True),
                  Cell(7, 7, 11, value='', _handled_identifiers=True),
                  Cell(7, 7, 7, value='changed', _handled_identifiers=True)]
        for cell in direct:
            label = f'{cell.title!r},{cell.column!r},{cell.row!r},{cell.value!r}'
            out.append(f'direct {label} -> {attempt(CellTranslator.translate, cell, excel, context)} '
                       f'value={cell.value!r} in_progress={sorted(context._cells_in_progress)!r}')
        out.append(f'direct translations {context._cell_translations!r}')
        out.append(f'direct sub {context._sub_cell_translations!r}')
        returned = CellTranslator._set_cell_to_context(Cell(0, 0, 1), excel, context)
        out.append(f'direct tuple {returned[1] is excel} {returned[2] is context} {returned[0]!r}')
        fresh = Context()
        out.append('translate_file bad ' + attempt(CellTranslator.translate_file, excel, fresh))
        out.append(f'translate_file bad state {sorted(fresh._cell_translations)!r} {sorted(fresh._cells_in_progress)!r}')
        good_excel, fresh = Excel.parse(good), Context()
        out.append('translate_file good ' + attempt(CellTranslator.translate_file, good_excel, fresh))
        out.append('translate_file good state ' + hashlib.sha256(repr(fresh._cell_translations).encode()).hexdigest()
                   + f' {len(fresh._cell_translations)} {fresh._cells_in_progress!r}')

        # execution: constants come back exactly, sheets come back with the reported sizes
        out_py = os.path.join(tmp, 'good.py')
        Parser().set_excel_file_path(good).write_translation(out_py)
        executor = Executor().set_executed_class(class_file=out_py)
        out.append(f'exec titles {executor._titles!r} sizes {executor._sheets_size!r}')
        for row in range(1, len(CONSTANTS) + 1):
            got = executor.get_cell(Cell('Main', 'A', str(row))).value
            expected = CONSTANTS[row - 1]
            same = (got == expected and type(got) is type(expected)) if expected is not None else repr(got)
            out.append(f'exec const A{row} {show(got)} same={same}')
        for sheet in ['Main', 'Other', 'Sheet two', 'Blank', 0, 1, 2, 3, 4, -1, 'Missing', None, 1.0, True]:
            result = attempt(lambda: [[(c.title, c.column, c.row, show(c.value)) for c in row]
                                      for row in executor.get_sheet(sheet)])
            out.append(f'exec sheet {sheet!r} {hashlib.sha256(result.encode()).hexdigest()} {result[:400]}')
        executor.set_cells([Cell('Blank', 'C', '2', value='grown'), Cell('Other', 'E', '5', value=5),
                            Cell('Main', 'A', '1', value=100)])
        out.append(f'exec sizes after set {executor._sheets_size!r}')
        for sheet in ['Blank', 'Other', 3, 'Main']:
            result = attempt(lambda: [[show(c.value) for c in row] for row in executor.get_sheet(sheet)])
            out.append(f'exec sheet after set {sheet!r} {result}')
        executor._sheets_size[3] = {}
        out.append('exec sheet no-size ' + attempt(executor.get_sheet, 3))
        executor._sheets_size[3] = {'last_row': 2}
        out.append('exec sheet no-columns ' + attempt(executor.get_sheet, 3))
        executor._sheets_size[3] = {'last_row': 0, 'last_column': 'bad'}
        out.append('exec sheet zero-rows-bad-columns ' + attempt(executor.get_sheet, 3))
        executor._sheets_size[3] = {'last_row': 1, 'last_column': 'bad'}
        out.append('exec sheet bad-columns ' + attempt(executor.get_sheet, 3))
    finally:
        shutil.rmtree(tmp, ignore_errors=True)
    out = [line.replace(tmp, '<tmp>') for line in out]
    for line in out:
        print(line)
    print('lines', len(out), 'digest', hashlib.sha256('\n'.join(out).encode()).hexdigest())


if __name__ == '__main__':
    main()
