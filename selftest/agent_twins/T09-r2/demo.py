"""Equivalence demo for r2: SEARCH (_search restructured: precompiled wildcard test, early returns), both copies.

Run as: PYTHONPATH=<tree> /venv/bin/python demo.py
Prints a deterministic digest; must be identical on the unchanged and the refactored tree.
"""
import hashlib
import itertools
import os
import re
import tempfile
import warnings

warnings.simplefilter('ignore')

from openpyxl import Workbook

from excel2pycl import Parser, Executor, Cell
from excel2pycl.src.utilities.abstract_excel_in_python_class import AbstractExcelInPython


class Direct(AbstractExcelInPython):
    pass


def show(value):
    return f'{type(value).__name__}:{value!r}'


def call(func, *args):
    try:
        return show(func(*args))
    except BaseException as exc:  # noqa - the class name is the observable
        return f'raises {type(exc).__name__}'


lines = []


def emit(line):
    lines.append(line)
    print(line)


# ---------------------------------------------------------------- workbook
ROWS = [
    ('р', 'имбирь', None), ('и', 'имбирь', 2), ('и*ь', 'ИМБИРЬ', None), ('МБ?РЬ', 'имбирь', None),
    ('Река', 'Имбирь', None), ('м', 'имбирь', 3), (r'\d+', '12356', None), ('?ткрыт*р', 'эти открытые двери', None),
    ('п?чему же~?', 'Почему, почему же?', None), ('П*очему', 'Почему, почему же?', None), ('П?очему', 'почему', None),
    ('П?че\\dу', 'поче5у', None), ('?мбирь', 'имбирь', None), ('* ?мбирь', 'консервированный имбирь', None),
    ('a', 'banana', 1), ('a', 'banana', 2), ('a', 'banana', 3), ('a', 'banana', 6), ('a', 'banana', 7),
    ('a', 'banana', 0), ('a', 'banana', -1), ('A?A', 'banana', 3), ('a*a', 'banana', 5), ('n?', 'banana', 4),
    ('~*', 'a*b', None), ('~?', 'what?', None), ('x~*y', 'ax*y', None), ('?~*', 'ab*c', None), ('*', 'anything', 3),
    ('?', 'anything', 8), ('?', 'anything', 9), ('b.n', 'banana b.n', None), ('b?n', 'banana b.n', 4),
    ('(', 'a(b', None), ('(?', 'a(b', None), ('[*', 'a[bc', None), ('a+?', 'aa+b', None), ('', 'abc', None),
    ('', 'abc', 3), ('abc', '', None), ('ABC', 'xxabcxx', None), ('é?', 'CAFÉS', None), ('ß', 'STRASSE', None),
]

wb = Workbook()
ws = wb.active
ws.title = 'Search'
for r, (find, within, start) in enumerate(ROWS, start=1):
    ws.cell(row=r, column=1, value=find if find != '' else None)
    ws.cell(row=r, column=2, value=within if within != '' else None)
    if start is None:
        ws.cell(row=r, column=3, value=f'=SEARCH(A{r},B{r})')
    else:
        ws.cell(row=r, column=3, value=f'=SEARCH(A{r},B{r},{start})')
    ws.cell(row=r, column=4, value=f'=IFERROR(SEARCH(A{r},B{r}),"none")')
    ws.cell(row=r, column=5, value=f'=IFERROR(MID(B{r},SEARCH(A{r},B{r}),3),"-")')
    ws.cell(row=r, column=6, value=f'=SEARCH(A{r},B{r},D{r})')
    ws.cell(row=r, column=7, value=f'=LEFT(B{r},SEARCH(A{r},B{r}))&"|"')
ws2 = wb.create_sheet('Literals')
ws2['A1'] = '=SEARCH("n","banana")'
ws2['A2'] = '=SEARCH("N","banana",4)'
ws2['A3'] = '=SEARCH("n?n","banana")'
ws2['A4'] = '=SEARCH("z","banana")'
ws2['A5'] = '=SEARCH("a","banana",VALUE("nan"))'
ws2['A6'] = '=SEARCH("a*","banana",VALUE("nan"))'
ws2['A7'] = '=SEARCH("a?","banana",2.5)'
ws2['A8'] = '=SEARCH("a","banana",2.5)'
ws2['A9'] = '=SEARCH("an","banana",B9)'
ws2['A10'] = '=SEARCH("a*n","banana")+SEARCH("?","x")'

tmp = tempfile.mkdtemp(prefix='t09r2_')
xlsx = os.path.join(tmp, 'book.xlsx')
out_py = os.path.join(tmp, 'book_translated.py')
wb.save(xlsx)

parser = Parser().set_excel_file_path(xlsx).disable_safety_check()
parser.write_translation(out_py)
translation = parser.get_translation()
cell_functions = re.findall(r'^    def (_\d+_\d+_\d+(?:_\d+)?)\(self\):\n        return (.*)$', translation, flags=re.M)
emit(f'cell functions: {len(cell_functions)}')
emit('cell functions sha256: ' + hashlib.sha256(repr(cell_functions).encode()).hexdigest())

executor = Executor().set_executed_class(class_file=out_py)
emit(f'titles: {executor.get_executed_class().get_titles()}')
emit(f'sizes: {executor.get_executed_class().get_sheets_size()}')


def cell_value(sheet, column, row):
    try:
        return show(executor.get_cell(Cell(sheet, column, row)).value)
    except BaseException as exc:  # noqa
        return f'raises {type(exc).__name__}'


emit('== workbook, sheet Search')
for r in range(len(ROWS)):
    emit(f'row {r + 1} {ROWS[r]!r}: ' + ' ; '.join(cell_value(0, c, r) for c in range(2, 7)))
emit('== workbook, sheet Literals')
for r in range(10):
    emit(f'Literals A{r + 1} = {cell_value(1, 0, r)}')
emit('== overrides via set_cells')
executor.set_cells([Cell('Search', 'A', '1', value='?м*'), Cell('Search', 'B', '15', value='BANDANA and banana'),
                    Cell('Literals', 'B', '9', value=3)])
for r in (0, 14):
    emit(f'row {r + 1}: ' + ' ; '.join(cell_value(0, c, r) for c in range(2, 7)))
emit(f'Literals A9 = {cell_value(1, 0, 8)}')

# ---------------------------------------------------------------- direct calls on both copies
generated = executor.get_executed_class()
direct = Direct()

ALPHABET = ['a', 'B', 'n', '?', '*', '~', '.', '(', ')', '[', '\\d', '+', '|', ' ', '\\']
WITHINS = ['', 'a', 'banana', 'a.b(n)', 'A*B?~N', 'ab ba+|[d]', 'NaN\\d5 anb']
STARTS = [None, 0, 1, 2, 3, 6, 7, 10, 11, -1, 2.0, 2.5, float('nan'), float('inf'), True, False]

for name, obj in (('generated', generated), ('class', direct)):
    emit(f'== direct calls on the {name} copy')
    empty = obj.EmptyCell()
    for length in (0, 1, 2):
        for combo in itertools.product(ALPHABET, repeat=length):
            find = ''.join(combo)
            for within in WITHINS:
                res = [call(obj._search, find, within, s) for s in STARTS]
                emit(f'{name} SEARCH({find!r},{within!r}) over starts -> ' + ' '.join(res))
    # three-piece patterns: one digest line per pattern
    for combo in itertools.product(ALPHABET, repeat=3):
        find = ''.join(combo)
        res = [call(obj._search, find, within, s) for within in WITHINS for s in (None, 1, 2, 4, 7, 2.5, float('nan'))]
        emit(f'{name} SEARCH3({find!r}) -> ' + hashlib.sha256('\n'.join(res).encode()).hexdigest()[:20])
    emit(f'-- odd argument types on the {name} copy')
    ODD = [None, 0, 5, 1.5, True, [], ['a'], b'a', b'a*', empty, ('a',)]
    for find in ODD + ['a', 'a*']:
        for within in ODD + ['banana']:
            for s in (None, 1, 2, '2', '', [], [1], empty, b'1'):
                emit(f'{name} SEARCH({find!r},{within!r},{s!r}) -> {call(obj._search, find, within, s)}')
    emit(f'-- position semantics on the {name} copy')
    text = 'The quick brown fox jumps over the lazy dog; THE END of the line'
    for find in ['the', 'THE', 't?e', 'o*e', ' ', 'e ', '?', 'q*k', 'z?', 'line', 'e~?', 'x*x']:
        emit(f'{name} {find!r}: ' + ' '.join(call(obj._search, find, text, s) for s in range(-1, len(text) + 3)))

emit('DIGEST ' + hashlib.sha256('\n'.join(lines).encode()).hexdigest())
