"""Equivalence demo for r4: the runtime override table (set_arguments) and cell dispatch (_cell_preprocessor).

Both copies of the runtime are driven: a hand-written subclass of AbstractExcelInPython and a class
generated from a workbook.  Histories of set_arguments calls (valid, duplicated, malformed, one-shot
iterators, odd keys), dispatch of overridden / computed / blank / shadowed / unknown / malformed cell
uids, and Executor-level set_cells histories are replayed; all values, exception class names and the
resulting override tables (with their order) are printed.
"""
import hashlib
import math
import os
import random
import shutil
import sys
import tempfile

import openpyxl

from excel2pycl import Parser, Executor, Cell, load_module
from excel2pycl.src.utilities.abstract_excel_in_python_class import AbstractExcelInPython


class HandWritten(AbstractExcelInPython):
    """What the translator prints, written by hand on top of the library class."""

    def __init__(self, arguments=None):
        super().__init__(arguments)
        self._titles = {'S': 0}
        self._sheets_size = [{'last_column': 3, 'last_row': 2}]

    def _0_0_0(self):
        return 10

    def _0_1_0(self):
        return 2.5

    def _0_2_0(self):
        return self._cell_preprocessor('_0_0_0') * self._cell_preprocessor('_0_1_0')

    def _0_0_1(self):
        return 1 / 0

    def _0_1_1(self):
        return self._iferror(lambda: self._cell_preprocessor('_0_0_1'), -1)

    def _0_2_1(self):
        return self._cell_preprocessor('_0_2_0') + self._cell_preprocessor('_0_7_7')

    _0_3_0 = 5          # a class attribute that is not callable
    _0_3_1 = None       # a class attribute that is falsy
    _0_4_0 = staticmethod(lambda: 1)
    _0_4_1 = classmethod(lambda cls: 1)


class NoInit(AbstractExcelInPython):
    def __init__(self):
        pass

    def _0_0_0(self):
        return 1


def show(value):
    if isinstance(value, float):
        return f'float:{value!r}:{value.hex() if math.isfinite(value) else "-"}'
    if isinstance(value, (list, tuple)):
        return f'{type(value).__name__}:[' + ', '.join(show(item) for item in value) + ']'
    if callable(value):
        return 'callable'
    return f'{type(value).__name__}:{value!r}'


def attempt(function, *args):
    try:
        return show(function(*args))
    except KeyError as error:
        return f'raised:KeyError{error.args!r}'
    except BaseException as error:  # noqa
        return f'raised:{type(error).__name__}'


def table(instance):
    try:
        return [(show(key), show(value)) for key, value in instance._arguments.items()]
    except BaseException as error:  # noqa
        return f'raised:{type(error).__name__}'


class Item:
    """A non-dict argument that records the order in which its fields are read."""

    def __init__(self, log, **fields):
        self.log, self.fields = log, fields

    def __getitem__(self, key):
        self.log.append(key)
        return self.fields[key]


UIDS = ['_0_0_0', '_0_1_0', '_0_2_0', '_0_0_1', '_0_1_1', '_0_2_1', '_0_3_0', '_0_3_1', '_0_4_0', '_0_4_1', '_0_7_7',
        '_9_9_9', '', '_round', '_titles', '_arguments', '_sheets_size', 'EmptyCell', 'set_arguments', '__init__',
        '__doc__', '__module__', '__dict__', 'shadow', None, 0, 1, True, 1.0, ('a',), ['a'], {'a': 1}, {1}]


def dispatch(label, instance, lines):
    for uid in UIDS:
        lines.append(f'{label} exec_function_in({uid!r}) -> {attempt(instance.exec_function_in, uid)}')
        lines.append(f'{label} _cell_preprocessor({uid!r}) -> {attempt(instance._cell_preprocessor, uid)}')
    lines.append(f'{label} table {table(instance)}')


def argument_histories(label, factory, lines):
    log = []
    calls = [
        ('one', lambda: [{'uid': '_0_0_0', 'value': 3}]),
        ('two more', lambda: [{'uid': '_0_1_0', 'value': 4}, {'uid': '_0_7_7', 'value': 0.5}]),
        ('same again, other value', lambda: [{'uid': '_0_0_0', 'value': 6}]),
        ('duplicates in one call', lambda: [{'uid': 'a', 'value': 1}, {'uid': '_0_0_0', 'value': 7},
                                            {'uid': 'a', 'value': 2}, {'uid': 'b', 'value': 3},
                                            {'uid': 'a', 'value': 4}]),
        ('formula cells', lambda: [{'uid': '_0_2_0', 'value': 100}, {'uid': '_0_0_1', 'value': 8}]),
        ('falsy values', lambda: [{'uid': '_0_2_0', 'value': None}, {'uid': '_0_0_0', 'value': 0},
                                  {'uid': '_0_1_0', 'value': ''}, {'uid': '_0_0_1', 'value': False}]),
        ('empty', lambda: []),
        ('extra keys', lambda: [{'uid': '_0_0_0', 'value': 1, 'title': 0, 'column': 0, 'row': 0, 'junk': object}]),
        ('uid missing', lambda: [{'uid': '_0_0_0', 'value': 11}, {'value': 5}, {'uid': '_0_1_0', 'value': 12}]),
        ('value missing', lambda: [{'uid': '_0_0_0', 'value': 13}, {'uid': '_0_1_0'}]),
        ('both missing', lambda: [{}]),
        ('unhashable uid', lambda: [{'uid': '_0_0_0', 'value': 14}, {'uid': ['x'], 'value': 5}]),
        ('unhashable uid, value missing', lambda: [{'uid': ['x']}]),
        ('equal keys of different types', lambda: [{'uid': 1, 'value': 'int'}, {'uid': True, 'value': 'bool'},
                                                   {'uid': 1.0, 'value': 'float'}, {'uid': 0, 'value': 'zero'},
                                                   {'uid': False, 'value': 'false'}]),
        ('none uid', lambda: [{'uid': None, 'value': 'none'}]),
        ('not a dict', lambda: [{'uid': '_0_0_0', 'value': 15}, 'ab']),
        ('pairs', lambda: [('_0_0_0', 16)]),
        ('none item', lambda: [None]),
        ('arguments none', lambda: None),
        ('arguments int', lambda: 5),
        ('arguments dict', lambda: {'uid': '_0_0_0', 'value': 17}),
        ('generator', lambda: ({'uid': f'g{n}', 'value': n} for n in range(3))),
        ('generator failing late', lambda: ({'uid': f'h{n}', 'value': 1 // (2 - n)} for n in range(4))),
        ('tuple', lambda: ({'uid': '_0_0_0', 'value': 18},)),
        ('recording items', lambda: [Item(log, uid='r1', value=1), Item(log, uid='r2'), Item(log, value=3)]),
        ('recording items ok', lambda: [Item(log, uid='r1', value=1), Item(log, value=2, uid='_0_1_0')]),
        ('after everything', lambda: [{'uid': '_0_0_0', 'value': 10}, {'uid': '_0_1_0', 'value': 2.5}]),
    ]
    instance = factory()
    lines.append(f'{label} fresh table {table(instance)}')
    for name, make in calls:
        before = instance._arguments
        outcome = attempt(instance.set_arguments, make())
        lines.append(f'{label} set_arguments[{name}] -> {outcome} rebound={instance._arguments is not before} '
                     f'before_untouched_len={len(before)} log={log!r}')
        lines.append(f'{label} set_arguments[{name}] table {table(instance)}')
        lines.append(f'{label} set_arguments[{name}] values '
                     f'{[attempt(instance.exec_function_in, uid) for uid in UIDS[:11]]}')
    # constructor arguments
    for name, make in calls[:6] + calls[8:14]:
        try:
            built = factory(make())
            lines.append(f'{label} constructor[{name}] table {table(built)} '
                         f'values {[attempt(built.exec_function_in, uid) for uid in UIDS[:11]]}')
        except BaseException as error:  # noqa
            lines.append(f'{label} constructor[{name}] raised:{type(error).__name__}')


def shadowing(label, factory, lines):
    instance = factory()
    shadows = [('callable', lambda self: 'from instance'), ('none', None), ('zero', 0), ('empty string', ''),
               ('number', 5), ('string', 'text'), ('empty dict', {}), ('list', [1]), ('class', dict),
               ('bound-like', lambda: 'no self')]
    for name, shadow in shadows:
        instance.__dict__['_0_0_0'] = shadow
        instance.__dict__['_5_5_5'] = shadow
        lines.append(f'{label} shadow[{name}] -> {attempt(instance.exec_function_in, "_0_0_0")} '
                     f'{attempt(instance.exec_function_in, "_5_5_5")} {attempt(instance.exec_function_in, "_0_2_0")}')
        instance.set_arguments([{'uid': '_5_5_5', 'value': 'override'}])
        lines.append(f'{label} shadow[{name}] overridden -> {attempt(instance.exec_function_in, "_5_5_5")}')
        instance._arguments = {}
    del instance.__dict__['_0_0_0']
    lines.append(f'{label} shadow removed -> {attempt(instance.exec_function_in, "_0_0_0")}')
    # attributes assigned on the class after creation
    cls = type(instance)
    cls._6_6_6 = lambda self: 'late class attribute'
    lines.append(f'{label} late class attribute -> {attempt(instance.exec_function_in, "_6_6_6")}')
    del cls._6_6_6
    lines.append(f'{label} late class attribute removed -> {attempt(instance.exec_function_in, "_6_6_6")}')
    # a subclass does not see the cell functions of its base through the class dictionary
    sub = type('Sub', (cls,), {'_0_1_0': lambda self: 'sub'})()
    lines.append(f'{label} subclass -> {[attempt(sub.exec_function_in, uid) for uid in UIDS[:6]]}')
    sub.set_arguments([{'uid': '_0_0_0', 'value': 21}])
    lines.append(f'{label} subclass overridden -> {[attempt(sub.exec_function_in, uid) for uid in UIDS[:6]]}')


def no_init(lines):
    instance = NoInit()
    for uid in ['_0_0_0', '_1_1_1', ['x'], None]:
        lines.append(f'noinit exec_function_in({uid!r}) -> {attempt(instance.exec_function_in, uid)}')
    for arguments in ([], [{'uid': 'a', 'value': 1}], [{}], None, [None]):
        lines.append(f'noinit set_arguments({arguments!r}) -> {attempt(instance.set_arguments, arguments)} '
                     f'has_table={"_arguments" in instance.__dict__}')
    instance._arguments = {'_0_0_0': 9}
    lines.append(f'noinit repaired -> {attempt(instance.exec_function_in, "_0_0_0")} '
                 f'{attempt(instance.set_arguments, [{"uid": "b", "value": 2}])} {table(instance)}')


def build(path):
    workbook = openpyxl.Workbook()
    sheet = workbook.active
    sheet.title = 'S'
    for address, value in {'A1': 10, 'B1': 2.5, 'C1': '=A1*B1', 'A2': '=1/0', 'B2': '=IFERROR(A2,-1)',
                           'C2': '=C1+H8', 'A3': '=SUM(A1:C1)', 'B3': '=IF(D4=0,"blank","filled")',
                           'C3': '=ROUND(C1%,3)'}.items():
        sheet[address] = value
    other = workbook.create_sheet('T')
    other['A1'] = '=S!C1+1'
    other['B2'] = 'b2'
    workbook.save(path)


def executor_histories(out_py, lines):
    probes = [('S', c, r) for r in '1234' for c in 'ABCD'] + [('S', 'H', '8'), ('T', 'A', '1'), ('T', 'B', '2'),
                                                              ('T', 'C', '3')]

    def values(executor):
        return [attempt(lambda: executor.get_cell(Cell(*probe)).value) for probe in probes]

    rnd = random.Random(4)
    for history in range(25):
        executor = Executor().set_executed_class(class_file=out_py)
        lines.append(f'executor[{history}] start {values(executor)}')
        for step in range(rnd.randint(1, 7)):
            cells = []
            for _ in range(rnd.randint(0, 4)):
                value = rnd.choice([rnd.randint(-9, 9), round(rnd.uniform(-5, 5), 2), 'v', None, True, 0, ''])
                if rnd.random() < 0.5:
                    cells.append(Cell(rnd.choice('ST'), rnd.choice('ABCDH'), str(rnd.randint(1, 8)), value=value))
                else:
                    cells.append(Cell(rnd.randrange(2), rnd.randrange(8), rnd.randrange(8), value=value))
            executor.set_cells(cells)
            lines.append(f'executor[{history}.{step}] {values(executor)} {table(executor.get_executed_class())}')


def main():
    lines = []
    argument_histories('class', HandWritten, lines)
    dispatch('class', HandWritten(), lines)
    overridden = HandWritten([{'uid': uid, 'value': f'override of {uid!r}'} for uid in UIDS
                              if isinstance(uid, (str, int, float, tuple, type(None)))])
    dispatch('class overridden', overridden, lines)
    shadowing('class', HandWritten, lines)
    no_init(lines)

    tmp = tempfile.mkdtemp(prefix='t44_r4_')
    try:
        xlsx = os.path.join(tmp, 'book.xlsx')
        out_py = os.path.join(tmp, 'book_generated.py')
        build(xlsx)
        Parser().set_excel_file_path(xlsx).write_translation(out_py)
        generated = load_module(out_py).ExcelInPython
        lines.append(f'generated cell functions {sorted(name for name in vars(generated) if name[1:2].isdigit())}')
        argument_histories('generated', generated, lines)
        dispatch('generated', generated(), lines)
        dispatch('generated overridden', generated([{'uid': uid, 'value': f'override of {uid!r}'} for uid in UIDS
                                                    if isinstance(uid, (str, int, float, tuple, type(None)))]), lines)
        shadowing('generated', load_module(out_py).ExcelInPython, lines)
        executor_histories(out_py, lines)
    finally:
        shutil.rmtree(tmp, ignore_errors=True)

    print(f'results: {len(lines)}')
    print(f'sha256: {hashlib.sha256(chr(10).join(lines).encode("utf-8")).hexdigest()}')
    for line in lines:
        print(line)
    return 0


if __name__ == '__main__':
    sys.exit(main())
