"""Equivalence demo for r4: the token-set parser (CompositeBaseToken.get).

1. calls get() of every composite token class on the token streams of a formula corpus (tree / rest / exception),
2. builds the AST of well-formed, malformed and generated formulas through AstBuilder (tree or exception),
3. translates and executes one workbook per formula (end-to-end: exception class or value).
"""
import hashlib
import os
import random
import shutil
import tempfile

from openpyxl import Workbook

from excel2pycl import Parser, Executor, Cell
from excel2pycl.src.exceptions import E2PyclException
from excel2pycl.src.lexer import Lexer
from excel2pycl.src.ast_builder import AstBuilder
from excel2pycl.src.tokens import CompositeBaseToken

FORMULAS = [
    '=1', '=1+2', '= 1 + 2 ', '=  A1', '=A1+B2*C3', '=$A$1+$B2+C$3', '=Sheet1!A1', "='My Sheet'!A1", "='It''s'!A1",
    '=A1:A5', '=A:A', '=A1:C3', '=Sheet1!A1:B2', "='My Sheet'!A1:A3", '=SUM(A1:A3)', '=SUM(A1:A3;B1;2)',
    '=SUM(A1:A3,B1,2)', '=IF(A1>1;"yes";"no")', '=IF(A1>=1;IF(B1<=2;1;2);3)', '=IF(A1<>B1;TRUE;FALSE)',
    '=IF(A1=B1;TRUE();FALSE())', '=A1&"text"&B1', '="a""b"', '=""', '="?x*"', '="~?"', '="a*b"', '="a~*b"',
    '=1.5', '=1.5e3', '=1e-3', '=12e5', '=10%', '=A1%', '=-A1', '=+A1', '=-(A1+B1)', '=(A1+B1)*(C1-D1)/E1',
    '=ROUND(A1/3;2)', '=ROUNDUP(A1;0)', '=ROUNDDOWN(A1;1)', '=MAX(A1:A3)', '=MIN(A1;B1)', '=AVERAGE(A1:A3)',
    '=VLOOKUP(A1;A1:C3;2;FALSE)', '=MATCH(2;A1:A3;0)', '=XMATCH(2;A1:A3)', '=INDEX(A1:C3;2;2)', '=LEFT("abc";2)',
    '=RIGHT("abc";2)', '=MID("abcdef";2;3)', '=SEARCH("b";"abc")', '=CONCATENATE("a";"b";A1)', '=TEXT(A1;"0.00")',
    '=VALUE("12")', '=DATE(2020;1;31)', '=YEAR(A1)', '=MONTH(A1)', '=DAY(A1)', '=TODAY()', '=EDATE(A1;1)',
    '=EOMONTH(A1;1)', '=DATEDIF(A1;B1;"D")', '=NETWORKDAYS(A1;B1)', '=COUNT(A1:A3)', '=COUNTBLANK(A1:A3)',
    '=COUNTIFS(A1:A3;">1")', '=SUMIF(A1:A3;">1";B1:B3)', '=SUMIFS(B1:B3;A1:A3;">1")', '=AVERAGEIFS(B1:B3;A1:A3;">1")',
    '=IFERROR(A1/B1;0)', '=IFS(A1>1;1;A1>0;2)', '=AND(A1>1;B1>1)', '=OR(A1>1;B1>1)', '=ADDRESS(1;2)', '=COLUMN(B1)',
    '=COLUMN()', '=SUMx(A1)', '=sum(A1)', '=Sum(A1)', '=FOO(A1)', '=eval(1)', '=A1 B1', '=A1;B1', '=A1~B1',
    '=SUM(A1', '=SUM A1)', '=)', '=(', '=()', '=(((1)))', '=((1)', '=1+', '=+', '=*1', '=1**2', '=1//2', '=1^2', '=#REF!',
    '=A1#', '=@A1', '={1,2}', '=[1]', '=a1', '=A1a', '=A01', '=A0', '=AAAA1', '=XFD1048576', '=A1:B', '=A:B2', '=1:1',
    '=A1:A2:A3', '=Sheet1!', '=!A1', "='x!A1", "='x'!", '="unterminated', '=unterminated"', '="a"b"', "='a'",
    '=1.', '=.5', '=1.5.5', '=1e', '=1e+3', '=1E3', '=TRUE', '=FALSE', '=TRUEx', '=true', '=TRUE(', '=IFS', '=IF',
    '=IF()', '=IF(;;)', '=SUM()', '=SUM(;)', '=SUM(,)', '=\tA1', '=A1\t+\tB1', '=A1\n+B1', '=A1+B1\n', '=\n', '= ',
    '=', ' =1', '==1', '=1=1', '=1<>1', '=1<=1', '=1>=1', '=1=>1', '=1><1', '=1<1>1', '="a"="a"', '=A1&B1&C1',
    '=AVERAGEIFS', '=COUNTIFSX(1)', '=ROUNDUPDOWN(1;1)', '=DATEDIFF(1;2)', '=IFERRORS(1;2)', '=é', '=Ж1', '=A1+é',
    '=Лист1!A1', "='Лист 1'!A1", '=A1 : A3', '=A1: A3', '=SUM (A1)', '=SUM( A1 ; B1 )', '=$A1:$A3', '=$A:$A', '=A$1:B$1',
    '=1 2', '=1 %', '=1%%', '=%', '=50%*A1', '=A1%+B1%', '=(A1)%', '=-1%', '="x"%',
]

MALFORMED = [
    '=IF(1;2', '=IF(1;2;3;4)', '=IF(1)', '=IF(1;)', '=IF(;1;2)', '=IF 1;2;3)', '=IF(1;2;3))', '=IF((1;2;3)', '=SUM(',
    '=SUM(1;', '=SUM(1;;2)', '=SUM(1 2)', '=ROUND(1)', '=ROUND(1;2;3)', '=ROUND()', '=VLOOKUP(1;2)', '=VLOOKUP(1;A1:B2)',
    '=VLOOKUP(1;A1:B2;2;FALSE;1)', '=LEFT()', '=LEFT("a")', '=LEFT("a";1;2)', '=MID("a";1)', '=DATE(1;2)', '=DATE(1;2;3;4)',
    '=TODAY(1)', '=TODAY', '=COLUMN(1;2)', '=IFERROR(1)', '=IFERROR(1;2;3)', '=IFS(1)', '=IFS(1;2;3)', '=IFS()',
    '=MATCH(1)', '=MATCH(1;A1:A3;0;1)', '=INDEX(A1:A3)', '=INDEX()', '=COUNTIFS(A1:A3)', '=COUNTIFS()', '=SUMIF(A1:A3)',
    '=SUMIFS(A1:A3)', '=SUMIFS(A1:A3;B1:B3)', '=AVERAGEIFS(A1:A3;B1:B3)', '=DATEDIF(1;2)', '=EDATE(1)', '=EOMONTH(1)',
    '=NETWORKDAYS(1)', '=SEARCH("a")', '=TEXT(1)', '=VALUE()', '=CONCATENATE()', '=ADDRESS(1)', '=ADDRESS()',
    '=IF(SUM(1;2;3)', '=SUM(IF(1;2);3)', '=1+IF(1;2', '=IF(1;2;3)+SUM(', '=SUM(1)+', '=SUM(1)SUM(2)', '=SUM(1) 2',
    '=MAX(MIN(1;2);MIN(3)', '=AND()', '=OR()', '=AND(1;)', '=OR(;1)', '=YEAR()', '=YEAR(1;2)', '=MONTH()', '=DAY()',
    '=COUNT()', '=COUNTBLANK()', '=COUNTBLANK(1)', '=AVERAGE()', '=MIN()', '=MAX()', '=XMATCH(1)', '=RIGHT()',
    '=ROUNDUP(1)', '=ROUNDDOWN(1)', '=IF(A1:A3;1;2)', '=SUM(A1:A3:A5)', '=SUM(A:A;B:B)', '=IF(1>;2;3)', '=IF(>1;2;3)',
    '=IF(1><2;2;3)', '=IF(1;"a";"?*")', '=COUNTIFS(A1:A3;"?*";B1:B3)', '=(SUM(1)', '=SUM(1))', '=((SUM(1)))', '=-SUM(1)',
    '=SUM(-1)', '=SUM(+1;-2)', '=SUM(1%)', '=SUM(1)%', '=IF(1;2;3)%', '=%SUM(1)', '=1&', '=&1', '=1&&2', '=A1:A3+1',
]
FORMULAS = FORMULAS + MALFORMED

PIECES = ['A1', 'B2', '$C$3', 'A1:A3', 'A:A', 'Sheet1!', "'S 1'!", '1', '2.5', '1e3', '"a"', '"?*"', '""', 'TRUE', 'FALSE',
          '(', ')', ';', ',', '~', '+', '-', '*', '/', '&', '%', '=', '<>', '<=', '>=', '<', '>', ' ', '  ', '\t', 'SUM',
          'IF', 'IFS', 'IFERROR', 'ROUND', 'ROUNDUP', 'COUNT', 'COUNTIFS', 'DATE', 'DATEDIF', 'x', 'é', '#', '!', "'",
          '"', ':', '.', '$', '0', '\n']


def digest(text: str) -> str:
    return hashlib.sha256(text.encode('utf-8')).hexdigest()[:16]


def generated(count: int):
    rnd = random.Random(31337)
    for _ in range(count):
        yield '=' + ''.join(rnd.choice(PIECES) for _ in range(rnd.randint(1, 9)))


def describe_exception(e: Exception) -> str:
    return f'raised {type(e).__name__} {e.args!r}'


def lex(formula: str, in_cell: Cell):
    try:
        return Lexer.parse(formula, in_cell=in_cell)
    except Exception:  # noqa
        return None


def composite_classes():
    print('== composite classes')
    classes = CompositeBaseToken.subclasses()
    print([c.__name__ for c in classes])
    in_cell = Cell(0, 0, 0)
    lines = []
    streams = []
    for formula in FORMULAS + list(generated(150)):
        tokens = lex(formula, in_cell)
        if tokens is None:
            continue
        streams.append((formula, tokens[1:]))  # without the leading "="
        streams.append((formula + ' (all)', tokens))
    streams.append(('<empty>', []))
    for cls in classes:
        for formula, tokens in streams:
            before = list(tokens)
            try:
                token, rest = cls.get(tokens, in_cell)
                if token is None and rest is tokens:
                    continue
                lines.append(f'{cls.__name__} {formula!r} -> {token!r} rest={rest!r}')
            except Exception as e:  # noqa
                lines.append(f'{cls.__name__} {formula!r} -> {describe_exception(e)}')
            if tokens != before:
                lines.append(f'{cls.__name__} {formula!r} MUTATED its input')
    print('results', len(lines), digest('\n'.join(lines)))
    for line in lines[::97]:
        print('  ', line[:400])


def ast_corpus():
    print('== ast')
    in_cell = Cell(2, 3, 4)
    lines = []
    corpus = FORMULAS + list(generated(2500))
    for formula in corpus:
        tokens = lex(formula, in_cell)
        if tokens is None:
            lines.append(f'{formula!r} -> lexer error')
            continue
        try:
            tree = AstBuilder.parse(tokens, in_cell=in_cell)
            line = f'{formula!r} -> {tree!r}'
        except Exception as e:  # noqa
            line = f'{formula!r} -> {describe_exception(e)}'
        lines.append(line)
    for line in lines[:len(FORMULAS)]:
        print(line[:600], digest(line))
    print('generated digest', len(lines), digest('\n'.join(lines)))


def end_to_end(tmp: str):
    print('== end to end')
    # one workbook per formula, so that totality of translation is observed formula by formula
    base = {'A1': 3, 'A2': 1.5, 'A3': 'abc', 'B1': 2, 'B2': 4, 'B3': 6, 'C1': 0, 'C2': '', 'C3': True, 'D1': 5, 'E1': 2}
    for number, formula in enumerate(FORMULAS + list(generated(120))):
        wb = Workbook()
        ws = wb.active
        ws.title = 'Sheet1'
        other = wb.create_sheet('My Sheet')
        other['A1'] = 10
        other['A2'] = 20
        other['A3'] = 30
        for address, value in base.items():
            ws[address] = value
        try:
            ws['F6'] = formula
        except Exception as e:  # noqa  (openpyxl refuses some texts)
            print(number, repr(formula), 'openpyxl refused', type(e).__name__)
            continue
        path = os.path.join(tmp, 'book.xlsx')
        out = os.path.join(tmp, f'book{number}.py')
        wb.save(path)
        try:
            parser = Parser().disable_safety_check().set_excel_file_path(path)
            parser.write_translation(out)
            text = parser.get_translation()
        except E2PyclException as e:
            print(number, repr(formula), 'translation', type(e).__name__, digest(repr(e.args)))
            continue
        except Exception as e:  # noqa
            print(number, repr(formula), 'translation FOREIGN', type(e).__name__, digest(repr(e.args)))
            continue
        try:
            value = Executor().set_executed_class(class_file=out).get_cell(Cell('Sheet1', 'F', '6')).value
            if formula.find('TODAY') >= 0:
                value = type(value).__name__
            result = f'{type(value).__name__} {value!r}'
        except Exception as e:  # noqa
            result = f'exec raised {type(e).__name__}'
        print(number, repr(formula), 'translated', digest(text), result)


def main():
    tmp = tempfile.mkdtemp(prefix='t27r4_')
    try:
        composite_classes()
        ast_corpus()
        end_to_end(tmp)
    finally:
        shutil.rmtree(tmp, ignore_errors=True)


if __name__ == '__main__':
    main()
