"""Equivalence demo for the workbook scan behind the safety gate (C19): Excel.parse and what Parser does with it.

Run as: PYTHONPATH=<tree> /venv/bin/python demo.py
Prints a deterministic digest; must be identical on the unchanged and on the refactored tree.
"""
import datetime
import hashlib
import os
import random
import shutil
import tempfile

from openpyxl import Workbook
from openpyxl.utils import get_column_letter
from openpyxl.worksheet.formula import ArrayFormula

from excel2pycl import Parser, Executor, Cell
from excel2pycl.src.excel import Excel

LINES = []


def emit(*parts):
    LINES.append(' | '.join(str(p) for p in parts))


def sha(obj):
    return hashlib.sha256(repr(obj).encode()).hexdigest()[:24]


tmp_dir = tempfile.mkdtemp(prefix='t20_r2_')


def build(name, sheets):
    wb = Workbook()
    wb.remove(wb.active)
    for title, cells in sheets:
        ws = wb.create_sheet(title)
        for address, value in cells.items():
            ws[address] = value
    path = os.path.join(tmp_dir, name + '.xlsx')
    wb.save(path)
    wb.close()
    return path


def describe(name, path, evaluate=()):
    try:
        excel = Excel.parse(path)
    except Exception as e:
        emit('parse', name, 'EXC', type(e).__name__, e)
        return
    emit('parse', name, 'titles', excel.get_titles())
    emit('parse', name, 'sizes', excel.get_sheets_size())
    emit('parse', name, 'suspicious', list(excel._suspicious_cells.items()))
    emit('parse', name, 'data', sha(excel._data), [[len(r) for r in sheet] for sheet in excel._data][:3])
    emit('parse', name, 'cells', sha([(c.uid, c.value) for c in excel.get_cells()]))
    try:
        emit('is_safe', name, excel.is_safe())
    except Exception as e:
        emit('is_safe', name, type(e).__name__, list(e.suspicious_cells.items()), repr(str(e)))

    for mode in ('enabled', 'disabled'):
        parser = Parser().set_excel_file_path(path)
        parser = parser.enable_safety_check() if mode == 'enabled' else parser.disable_safety_check()
        out_py = os.path.join(tmp_dir, f'{name}_{mode}.py')
        try:
            parser.write_translation(out_py)
        except Exception as e:
            emit('parser', name, mode, type(e).__name__, list(getattr(e, 'suspicious_cells', {'-': '-'}).items()),
                 repr(str(e))[:300])
            continue
        with open(out_py, encoding='utf-8') as f:
            emit('parser', name, mode, 'OK', sha(f.read()))
        executor = Executor().set_executed_class(class_file=out_py)
        for cell in evaluate:
            try:
                value = executor.get_cell(Cell(*cell)).value
                emit('value', name, mode, cell, type(value).__name__, repr(value))
            except Exception as e:
                emit('value', name, mode, cell, 'EXC', type(e).__name__, e)


try:
    # ------------------------------------------------------------ hand-made workbooks
    describe('clean', build('clean', [
        ('Data', {'A1': 1, 'B1': 2, 'C1': '=SUM(A1:B1)', 'A2': 'plain text', 'B2': '=IF(A1>1,MAX(A1,B1),MIN(A1,B1))',
                  'F4': '=A1+B1*2', 'A5': datetime.datetime(2020, 2, 29), 'B5': True, 'C5': 0, 'D5': ''}),
        ('Second', {'B2': '=Data!A1+1', 'C3': 'UPPER(text) only'}),
    ]), evaluate=[(0, 2, 0), (0, 1, 1), (0, 5, 3), ('Second', 'B', '2'), (1, 2, 2), (0, 3, 4), (0, 7, 7)])

    describe('ragged', build('ragged', [
        ('R', {'A1': 1, 'E1': 5, 'B2': 2, 'A3': 3, 'J3': 'x', 'C7': '=A1+E1'}),
        ('Empty', {}),
        ('OneCell', {'C3': 'only(1)'}),
        ('Wide', {'AB1': 'wide(1)', 'A2': 'WIDE(1)', 'ZZ3': 1}),
    ]), evaluate=[(0, 2, 6), (0, 9, 2), (1, 0, 0), (3, 701, 2)])

    describe('array', build('array', [
        ('Arr', {'A1': 1, 'A2': 2, 'A3': 3,
                 'B1': ArrayFormula('B1:B1', '=SUM(A1:A3)'),
                 'C1': ArrayFormula('C1:C1', '=MAX(A1:A3)  '),
                 'D1': '=SUM(A1:A3)'}),
    ]), evaluate=[(0, 1, 0), (0, 2, 0), (0, 3, 0)])

    describe('array_spaces', build('array_spaces', [
        ('Arr', {'A1': 1, 'A2': 2, 'A3': 3, 'C1': ArrayFormula('C1:C1', ' =MAX(A1:A3) '), 'D2': ArrayFormula('D2:D2', '  7  ')}),
    ]), evaluate=[(0, 2, 0), (0, 3, 1)])

    describe('array_bad', build('array_bad', [
        ('Arr', {'A1': 1, 'B1': ArrayFormula('B1:B1', '=eval(A1)'), 'C1': 'real(1)'}),
    ]), evaluate=[(0, 0, 0)])

    describe('bad', build('bad', [
        ('First sheet', {'A1': 'os.system("ls")', 'B2': 'print(1);exec(2)', 'C3': '=SUM(A1:A2)', 'D4': 'Mixed(1) UPPER(2) lower(3)',
                         'AA10': '__import__("os")', 'E5': 'no call here', 'F6': 0, 'G7': '', 'H8': 'f(G(1))', 'I9': False}),
        ("it's", {'A1': 'getattr(x, "y")', 'B1': '=MAX(A1:A1)', 'C1': 'SUM(open(1))', 'Z1': 'open(SUM(1))'}),
        ('Пустой', {}),
        ('Last', {'B2': 5, 'C2': 'zz(1)', 'A3': 'zz(1)', 'A1': 'aa()'}),
    ]), evaluate=[(0, 5, 5), (0, 0, 0), (3, 1, 1), ("it's", 'B', '1')])

    describe('falsy', build('falsy', [
        ('F', {'A1': 0, 'B1': 0.0, 'C1': False, 'D1': '', 'E1': None, 'F1': '0', 'G1': ' ', 'H1': 'f()', 'A2': -1, 'B2': 1e-9}),
    ]), evaluate=[(0, i, 0) for i in range(9)])

    # ------------------------------------------------------------ generated workbooks
    rnd = random.Random(20)
    TEXTS = ['eval(1)', 'EVAL(1)', 'Eval(1)', 'exec("x")', 'plain', 'SUM(1)', 'f(G(1))', 'a()b()', 'A()b()', 'x (1)', '(1)',
             'call(\n)', '__x__(1)', '9(9)', 'Z9(1)', 'z9(1)', '"q(1)"', 'UP(low(1))', 'low(UP(1))', 'a.b(c)', 'A.B(C)']
    for n in range(40):
        sheets = []
        for s in range(rnd.randint(1, 4)):
            cells = {}
            for _ in range(rnd.randint(0, 25)):
                address = f'{get_column_letter(rnd.randint(1, 30))}{rnd.randint(1, 20)}'
                kind = rnd.random()
                if kind < 0.55:
                    cells[address] = rnd.choice(TEXTS)
                elif kind < 0.7:
                    cells[address] = rnd.choice([0, 1, -2, 2.5, True, False])
                elif kind < 0.8:
                    cells[address] = datetime.datetime(2000 + rnd.randint(0, 30), rnd.randint(1, 12), rnd.randint(1, 28))
                elif kind < 0.9:
                    cells[address] = ArrayFormula(f'{address}:{address}', rnd.choice(['=SUM(A1:A2)', '=low(1)', ' =MIN(A1:A2)']))
                else:
                    cells[address] = rnd.choice(['=1+2', '=SUM(A1:A2)', '=MAX(1,2)'])
            sheets.append((f'S{n}_{s}', cells))
        path = build(f'gen{n}', sheets)
        excel = Excel.parse(path)
        summary = [excel.get_titles(), excel.get_sheets_size(), list(excel._suspicious_cells.items()), excel._data]
        outcome = []
        for check in (True, False):
            parser = Parser().set_excel_file_path(path)
            parser = parser.enable_safety_check() if check else parser.disable_safety_check()
            try:
                outcome.append(('OK', sha(parser.get_translation())))
            except Exception as e:
                outcome.append((type(e).__name__, sha(getattr(e, 'suspicious_cells', None)), sha(str(e))))
        emit('gen', n, len(excel._suspicious_cells), sha(summary), outcome)
finally:
    shutil.rmtree(tmp_dir, ignore_errors=True)

emit('tmp removed', not os.path.exists(tmp_dir))
print('\n'.join(LINES))
print('TOTAL', len(LINES), hashlib.sha256('\n'.join(LINES).encode()).hexdigest())
