"""Equivalence demo for r2 (Excel reader: accumulating loops -> comprehensions, zip/range -> enumerate).

Exercises Excel.get_range / get_matrix / get_cells / get_similar_second / fill_cell directly on many
coordinates (inside, on the edge of and beyond the used range; reversed and degenerate ranges; whole
columns; several sheets), and translates workbooks whose formulas reach their dependencies through
every reference form, as a whole and from entry cells.  Output is deterministic.
"""
import datetime
import hashlib
import itertools
import os
import re
import shutil
import tempfile

from openpyxl import Workbook

from excel2pycl import Parser, Executor, Cell, Excel

TMP = tempfile.mkdtemp(prefix='t12r2_')
COUNTER = [0]


def digest(text):
    return hashlib.sha256(text.encode('utf-8')).hexdigest()[:16]


def show(value):
    return re.sub(r'0x[0-9a-fA-F]+', '0x?', f'{type(value).__name__}:{value!r}')


def outcome(fn):
    try:
        return 'OK ' + show(fn())
    except BaseException as e:  # noqa
        return 'EXC ' + type(e).__name__ + ' ' + re.sub(r'0x[0-9a-fA-F]+', '0x?', str(e))[:300]


def cells_repr(obj):
    """Nested lists of Cell -> nested lists of (title, column, row, value, handled)."""
    if isinstance(obj, Cell):
        return (obj.title, obj.column, obj.row, obj.value, obj._handled_identifiers)
    if isinstance(obj, (list, tuple)):
        return [cells_repr(i) for i in obj]
    return obj


def build(sheets):
    COUNTER[0] += 1
    path = os.path.join(TMP, f'wb{COUNTER[0]}.xlsx')
    wb = Workbook()
    wb.remove(wb.active)
    for title, rows in sheets:
        ws = wb.create_sheet(title)
        for r, row in enumerate(rows, start=1):
            for c, value in enumerate(row, start=1):
                if value is not None:
                    ws.cell(row=r, column=c, value=value)
    wb.save(path)
    return path


def load(text):
    COUNTER[0] += 1
    path = os.path.join(TMP, f'cls{COUNTER[0]}.py')
    with open(path, 'w', encoding='utf-8') as f:
        f.write(text)
    return Executor().set_executed_class(class_file=path)


def functions_of(text):
    return re.findall(r'^    def (_\d+_\d+_\d+(?:_\d+)?)\(self\):', text, flags=re.M)


SHEETS = [
    ('First', [
        [1, 2, 3, 4],
        [5, None, 7],
        [None, None, None, None, 'far'],
        [9, 'ten', 11.5, True],
        ['=SUM(A1:A4)', '=SUM(A1:D1)', '=SUM(A1:D4)', '=SUM(A:A)'],
    ]),
    ('Second sheet', [
        ['=First!A1', "=SUM(First!A1:C2)"],
        [datetime.datetime(2021, 5, 6), None, 'z'],
    ]),
    ('Empty', []),
]

print('== Excel.parse based object')
path = build(SHEETS)
excel = Excel.parse(path)
print('titles', excel.get_titles())
print('sizes', excel.get_sheets_size())
print('data', excel._data)
print('get_cells', outcome(lambda: cells_repr(excel.get_cells())))

print('== in-memory objects (ragged rows, duplicate titles, no sheets)')
MEMORY = {
    'ragged': {'data': [[[1, 2, 3], [4], [], [5, 6]], [[7]], []], 'titles': ['a', 'b', 'c'],
               'suspicious_cells': {}, 'sheets_size': []},
    'dup_titles': {'data': [[[1]], [[2]], [[3]]], 'titles': ['a', 'b', 'a'], 'suspicious_cells': {},
                   'sheets_size': []},
    'nothing': {'data': [], 'titles': [], 'suspicious_cells': {}, 'sheets_size': []},
    'more_titles_than_data': {'data': [[[1, 2]]], 'titles': ['a', 'b'], 'suspicious_cells': {}, 'sheets_size': []},
}
objects = {'parsed': excel}
for name, worksheets in MEMORY.items():
    obj = Excel(worksheets)
    objects[name] = obj
    print(name, 'titles', obj.get_titles())
    print(name, 'get_cells', outcome(lambda: cells_repr(obj.get_cells())))
    print(name, 'fill a', outcome(lambda: cells_repr(obj.fill_cell(Cell('a', 'A', '1')))))
    print(name, 'fill b', outcome(lambda: cells_repr(obj.fill_cell(Cell('b', 'A', '1')))))

print('== get_range / get_matrix / get_similar_second on integer coordinates')
COORDS = [None, 0, 1, 3, 5]
COLS = [0, 1, 4]
lines = []
for name, obj in objects.items():
    for t1, t2 in [(0, 0), (0, 1), (1, 1), (2, 2), (7, 7)]:
        for c1, c2 in itertools.product(COLS, COLS):
            for r1, r2 in itertools.product(COORDS, COORDS):
                def mk():
                    return Cell(t1, c1, r1), Cell(t2, c2, r2)
                a = outcome(lambda: cells_repr(obj.get_range(*mk())))
                b = outcome(lambda: cells_repr(obj.get_matrix(*mk())))
                lines.append(f'{name} {t1},{c1},{r1} {t2},{c2},{r2} R {a}')
                lines.append(f'{name} {t1},{c1},{r1} {t2},{c2},{r2} M {b}')
print('combinations', len(lines), digest('\n'.join(lines)))
# print a readable sample and per-object digests so that a difference is easy to localise
for name in objects:
    part = [line for line in lines if line.startswith(name + ' ')]
    print(name, len(part), digest('\n'.join(part)),
          sum(' OK ' in line for line in part), sum(' EXC ' in line for line in part))
for line in lines[::97]:
    print(line[:400])

print('== the same with Excel-style identifiers')
STYLE = [
    (('First', 'A', '1'), ('First', 'A', '4')),
    (('First', 'A', '4'), ('First', 'A', '1')),
    (('First', 'A', '1'), ('First', 'E', '1')),
    (('First', 'E', '3'), ('First', 'A', '3')),
    (('First', 'A', '1'), ('First', 'A', '1')),
    (('First', 'A', '1'), ('First', 'D', '5')),
    (('First', 'D', '5'), ('First', 'A', '1')),
    (('First', 'A', ''), ('First', 'A', '')),
    (('First', 'A', ''), ('First', 'C', '')),
    (('First', 'C', ''), ('First', 'A', '')),
    (('First', 'A', ''), ('First', 'A', '3')),
    (('First', 'A', '2'), ('First', 'A', '')),
    (('First', 'A', '1'), ('Second sheet', 'A', '2')),
    (('Second sheet', 'A', '1'), ('Second sheet', 'C', '2')),
    (('Second sheet', 'A', ''), ('Second sheet', 'B', '')),
    (('Empty', 'A', '1'), ('Empty', 'B', '2')),
    (('Empty', 'A', ''), ('Empty', 'A', '')),
    (('Empty', 'A', ''), ('Empty', 'B', '')),
    (('Nope', 'A', '1'), ('Nope', 'A', '2')),
    (('First', 'XFD', '1'), ('First', 'XFD', '3')),
    (('First', 'A', '100'), ('First', 'B', '101')),
]
for first, second in STYLE:
    print(first, second, 'R', outcome(lambda: cells_repr(excel.get_range(Cell(*first), Cell(*second)))))
    print(first, second, 'M', outcome(lambda: cells_repr(excel.get_matrix(Cell(*first), Cell(*second)))))
    print(first, second, 'S', outcome(lambda: cells_repr(
        excel.get_similar_second(Cell('Second sheet', 'B', '2'), Cell(*first), Cell(*second)))))

print('== translations reaching dependencies through every reference form')
BOOK = [
    ('Data', [
        [1, 2, 3, None, 'k'],
        [4, 5, 6],
        [7, None, 9, 10],
        ['a', 'b', 'a'],
        [None, None, None, None, None, 100],
    ]),
    ('Calc', [
        ['=SUM(Data!A1:A3)', '=SUM(Data!A1:C1)', '=SUM(Data!A1:C3)', '=SUM(Data!A:A)', '=SUM(Data!A:C)'],
        ['=SUM(Data!A3:A1)', '=SUM(Data!C1:A1)', '=SUM(Data!B2:B2)', '=SUM(Data!A1:A9)', '=SUM(Data!A1:J1)'],
        ['=SUMIF(Data!A4:C4, "a", Data!A1:C1)', '=VLOOKUP(4, Data!A1:C3, 3, FALSE)', '=INDEX(Data!A1:D3;3;4)',
         '=MATCH(9;Data!C1:C3;0)', '=COUNT(Data!A1:F5)'],
        ['=SUM(A1:E1)', '=SUM(A1:A3)', '=MAX(A1:E3)', '=SUM(Data!F:F)', '=SUM(Data!Z1:Z3)'],
        ['=A4+B4', '=SUM(Calc!A4:B4, Data!A1:B2)', '=AVERAGE(Data!A1:C2)', '=MIN(Data!A1:D3)', '=COUNTBLANK(Data!A1:F5)'],
    ]),
    ('Loop', [
        ['=SUM(A2:A3)', 1],
        ['=B2', '=SUM(A1:B1)'],
    ]),
]
book_path = build(BOOK[:2])
parser = Parser().set_excel_file_path(book_path)
text = parser.get_translation()
print('whole', digest(text), len(functions_of(text)))
whole = load(text)
whole_values = {}
for c in range(6):
    for r in range(6):
        for t in range(2):
            whole_values[(t, c, r)] = outcome(lambda: whole.get_cell(Cell(t, c, r)).value)
            print((t, c, r), whole_values[(t, c, r)])
print('sheet 1 via get_sheet', outcome(lambda: [[c.value for c in row] for row in whole.get_sheet(1)]))

mismatch = 0
for c in range(6):
    for r in range(6):
        p = Parser().set_excel_file_path(book_path).set_entrypoint_cell(Cell(1, c, r))
        res = outcome(p.get_translation)
        if not res.startswith('OK'):
            print('entry', c, r, res)
            continue
        text = p.get_translation()
        ex = load(text)
        names = functions_of(text)
        got = outcome(lambda: ex.get_cell(Cell(1, c, r)).value)
        for name in names:
            parts = name.split('_')
            if len(parts) != 4:
                continue
            key = tuple(int(i) for i in parts[1:])
            if key in whole_values and outcome(lambda: ex.get_cell(Cell(*key)).value) != whole_values[key]:
                mismatch += 1
        print('entry', c, r, digest(text), len(names), got, got == whole_values[(1, c, r)])
print('mismatch', mismatch)

loop_path = build(BOOK)
print('loop whole', outcome(lambda: digest(Parser().set_excel_file_path(loop_path).get_translation())))
for c, r in [(0, 0), (1, 0), (0, 1), (1, 1), (2, 2)]:
    print('loop entry', c, r, outcome(
        lambda: digest(Parser().set_excel_file_path(loop_path).set_entrypoint_cell(Cell(2, c, r)).get_translation())))
print('calc entry in loop book', outcome(
    lambda: digest(Parser().set_excel_file_path(loop_path).set_entrypoint_cell(Cell('Calc', 'F', '6'))
                   .get_translation())))

shutil.rmtree(TMP, ignore_errors=True)
print('tmp removed:', not os.path.exists(TMP))
