"""Equivalence demo for r3: the DATE runtime helper (_date), both copies, plus YEAR/MONTH/DAY round trips.

Run as: PYTHONPATH=<tree> /venv/bin/python demo.py
"""
import datetime
import hashlib
import os
import tempfile
import warnings
from decimal import Decimal
from fractions import Fraction

warnings.simplefilter('ignore')

from openpyxl import Workbook  # noqa: E402

from excel2pycl import Parser, Executor, Cell  # noqa: E402
from excel2pycl.src.utilities.abstract_excel_in_python_class import AbstractExcelInPython  # noqa: E402


class Direct(AbstractExcelInPython):
    pass


class IntLikeString(str):
    """A str whose conversion to int fails in an unusual way."""

    def __int__(self):
        raise KeyError('no int here')


class Counting(int):
    """Records in which order the arguments are examined."""
    log = []

    def __sub__(self, other):
        Counting.log.append(f'sub:{int(self)}')
        return int(self) - other

    def __le__(self, other):
        Counting.log.append(f'le:{int(self)}')
        return int(self) <= other

    def __ge__(self, other):
        Counting.log.append(f'ge:{int(self)}')
        return int(self) >= other

    def __lt__(self, other):
        Counting.log.append(f'lt:{int(self)}')
        return int(self) < other

    def __gt__(self, other):
        Counting.log.append(f'gt:{int(self)}')
        return int(self) > other


def show(value):
    if isinstance(value, datetime.datetime):
        return f'{type(value).__name__}:{value.isoformat()}'
    return f'{type(value).__name__}:{value!r}'


def call(func, *args):
    try:
        return show(func(*args))
    except BaseException as error:  # noqa - the class of whatever is raised is part of the behaviour
        return f'raises:{type(error).__name__}'


def build_workbook(path):
    wb = Workbook()
    ws = wb.active
    rows = [
        (2024, 2, 29), (2023, 2, 29), (2023, 0, 0), (2023, -1, -1), (2023, 13, 32), (2023, 14, 0), (1900, 1, 1),
        (0, 1, 1), (1899, 12, 31), (9999, 12, 31), (9999, 12, 32), (10000, 1, 1), (-1, 1, 1), (2020, 25, 400),
        (2020, -25, -400), (120, 6, 15), ('2021', '7', '4'), ('x', 1, 1), (2021, 'y', 1), (2021, 1, 'z'),
        (2000, 3, 0), (2100, 3, 0), (2024, 12, 366),
    ]
    for row, (y, m, d) in enumerate(rows, start=1):
        ws.cell(row=row, column=1, value=y)
        ws.cell(row=row, column=2, value=m)
        ws.cell(row=row, column=3, value=d)
        ws.cell(row=row, column=4, value=f'=DATE(A{row},B{row},C{row})')
        ws.cell(row=row, column=5, value=f'=YEAR(DATE(A{row},B{row},C{row}))')
        ws.cell(row=row, column=6, value=f'=MONTH(DATE(A{row},B{row},C{row}))')
        ws.cell(row=row, column=7, value=f'=DAY(DATE(A{row},B{row},C{row}))')
        ws.cell(row=row, column=8, value=f'=DATE(A{row},B{row}+1,0)')
        ws.cell(row=row, column=9, value=f'=DATE(2024,1,1)>DATE(A{row},B{row},C{row})')
    wb.save(path)
    return len(rows)


def main():
    lines = []
    with tempfile.TemporaryDirectory() as tmp:
        xlsx = os.path.join(tmp, 'dates.xlsx')
        out_py = os.path.join(tmp, 'dates_translation.py')
        count = build_workbook(xlsx)
        Parser().set_excel_file_path(xlsx).write_translation(out_py)
        executor = Executor().set_executed_class(class_file=out_py)

        for row in range(count):
            for column in range(3, 9):
                try:
                    outcome = show(executor.get_cell(Cell(0, column, row)).value)
                except BaseException as error:  # noqa
                    outcome = f'raises:{type(error).__name__}'
                lines.append(f'cell[{row},{column}]={outcome}')

        for override in [(2024, 2, 30), (1899, 12, 31), (1900, 0, 0), ('1999', ' 12 ', '31'), ('1e3', 1, 1),
                         (None, 1, 1), (2020, None, 1), (2020, 1, None), (2020.0, 1, 1), (2020, 1.0, 1),
                         (2020, 1, 1.0), (2020, 1.5, 1), (2020, 1, 1.5), (True, True, True), (2020, 10 ** 6, 1),
                         (2020, 1, 10 ** 7), (2020, -10 ** 6, 1), (2020, 1, -10 ** 7)]:
            executor.set_cells([Cell(0, i, 0, value=v) for i, v in enumerate(override)])
            for column in range(3, 9):
                try:
                    outcome = show(executor.get_cell(Cell(0, column, 0)).value)
                except BaseException as error:  # noqa
                    outcome = f'raises:{type(error).__name__}'
                lines.append(f'override{override!r}[{column}]={outcome}')

        generated = executor.get_executed_class()
        direct = Direct()

        years = [-10 ** 6, -1, 0, 1, 4, 99, 100, 1899, 1900, 1901, 1999, 2000, 2023, 2024, 2100, 9998, 9999, 10000,
                 10 ** 9, 2020.0, 2020.5, -0.5, float('nan'), float('inf'), True, False, None, '2020', ' 2021 ',
                 '-5', '0', '1899', '1900', '10000', '2020.0', '1e3', 'abc', '', '٢٠٢٠', '2_020', [2020], (2020,),
                 Decimal('2020'), Fraction(2020), 2020 + 0j, b'2020', direct.EmptyCell(), generated.EmptyCell(),
                 IntLikeString('2020'), datetime.datetime(2020, 1, 1)]
        months = [-10 ** 6, -120000, -25, -13, -12, -11, -1, 0, 1, 2, 6, 11, 12, 13, 14, 24, 25, 120000, 10 ** 6,
                  10 ** 12, 2.0, 2.5, float('nan'), True, None, '3', '-3', ' 14 ', '3.0', 'm', '', [3],
                  Decimal('3'), Fraction(3), direct.EmptyCell(), IntLikeString('3')]
        days = [-10 ** 9, -4000000, -800, -366, -365, -31, -30, -1, 0, 1, 2, 28, 29, 30, 31, 32, 59, 60, 61, 365,
                366, 367, 800, 4000000, 10 ** 9, 10 ** 12, 15.0, 15.5, float('nan'), float('inf'), True, None,
                '15', '-15', ' 31 ', '15.0', 'd', '', [15], Decimal('15'), Fraction(15), direct.EmptyCell(),
                IntLikeString('15')]

        digest = hashlib.sha256()
        total = mismatch = 0
        sample = []
        for year in years:
            for month in months:
                for day in days:
                    a = call(direct._date, year, month, day)
                    b = call(generated._date, year, month, day)
                    total += 1
                    mismatch += a != b
                    record = f'_date({year!r},{month!r},{day!r}) class={a} template={b}'
                    digest.update(record.encode() + b'\n')
                    if total % 211 == 0:
                        sample.append(record)
        lines.append(f'grid calls: {total}, class/template disagreements: {mismatch}')
        lines.append(f'grid digest: {digest.hexdigest()}')
        lines.extend(sample)

        # a dense sweep over ordinary integers, checked against the statement of the property as well
        digest = hashlib.sha256()
        total = wrong = 0
        for year in (1900, 1999, 2000, 2023, 2024, 2100, 9990):
            for month in range(-40, 41):
                for day in range(-400, 401, 7):
                    results = [call(target._date, year, month, day) for target in (direct, generated)]
                    total += 1
                    digest.update(f'{year},{month},{day}:{results}\n'.encode())
                    y, m = divmod(year * 12 + (month - 1), 12)
                    expected = datetime.datetime(y, m + 1, 1) + datetime.timedelta(days=day - 1)
                    wrong += results != [show(expected)] * 2
        lines.append(f'sweep calls: {total}, differing from 1 Jan + (m-1) months + (d-1) days: {wrong}')
        lines.append(f'sweep digest: {digest.hexdigest()}')

        # order in which the arguments are examined
        for target, label in ((direct, 'class'), (generated, 'template')):
            for args in [(Counting(2020), Counting(5), Counting(17)), (Counting(10000), Counting(5), Counting(17)),
                         (Counting(-3), Counting(5), Counting(17)), (Counting(30), Counting(5), Counting(17)),
                         ('bad', IntLikeString('1'), 'worse'), (2020, 'bad', IntLikeString('1')),
                         (IntLikeString('1'), 'bad', 'worse')]:
                Counting.log = []
                outcome = call(target._date, *args)
                lines.append(f'order {label} {args!r}: {outcome} log={Counting.log}')

    text = '\n'.join(lines)
    print(text)
    print('TOTAL-DIGEST', hashlib.sha256(text.encode()).hexdigest())


if __name__ == '__main__':
    main()
