"""Equivalence demo for r2 (runtime _count: intermediate values carried in locals, sum of lengths).

Exercises COUNT (and, as a cross-check, the other aggregates) through a generated class built
from a workbook, and calls _count directly on both copies of the runtime class (the generated
ExcelInPython class and AbstractExcelInPython) with many hand-made and pseudo-random inputs.
"""
import datetime
import os
import random
import shutil
import tempfile

from openpyxl import Workbook

from excel2pycl import Parser, Executor, Cell
from excel2pycl.src.utilities.abstract_excel_in_python_class import AbstractExcelInPython


class Runtime(AbstractExcelInPython):
    pass


def build_workbook(path):
    wb = Workbook()
    ws = wb.active
    ws.title = 'Data'
    rows = [
        [1, 2.5, 'x', True, None, 7],
        [4, None, '5', False, 0, -3],
        [None, 10, 'abc', 8, '', 2],
        [3, -1.5, 6, None, 'y', 0.25],
        [100, 'zz', None, 11, 12, datetime.datetime(2024, 1, 15)],
        [datetime.datetime(2023, 5, 1), '12', '1.5', True, -0.0, 1e20],
    ]
    for r, row in enumerate(rows, start=1):
        for c, value in enumerate(row, start=1):
            if value is not None:
                ws.cell(row=r, column=c, value=value)
    other = wb.create_sheet('Other')
    for r, row in enumerate([[9, 'q', 1], [None, 2, 3], [5.5, True, None]], start=1):
        for c, value in enumerate(row, start=1):
            if value is not None:
                other.cell(row=r, column=c, value=value)
    formulas = wb.create_sheet('F')
    listing = []
    texts = [
        '=COUNT(Data!A1:F1)', '=COUNT(Data!A1:A6)', '=COUNT(Data!A1:F6)', '=COUNT(Data!B2:E4)',
        '=COUNT(Data!C3:C3)', '=COUNT(Data!A:A)', '=COUNT(Data!A:C)', '=COUNT(Data!D:F)', '=COUNT(Other!A1:C3)',
        '=COUNT(Other!A:C)', '=COUNT(Data!A1:B2,Data!E4:F5)', '=COUNT(Data!A1:F1,Data!A1:F1)',
        '=COUNT(Data!A1:C2,Data!D1:F2)', '=COUNT(Data!A1:F2)', '=COUNT(Data!A1:A6,Other!A1:A3,3)',
        '=COUNT(1,2,3)', '=COUNT(1,"2","a",TRUE,FALSE)', '=COUNT("12","1.5","x","")', '=COUNT(Data!A1)',
        '=COUNT(Data!A1,Data!C1,Data!D1,Data!E1,Data!F5)', '=COUNT(Data!A1:F6,Data!A1,5,"7",TRUE,Data!F5)',
        '=COUNT(Data!A6:F6)', '=COUNT(Data!F1:F6)', '=COUNT(Data!H1:J3)', '=COUNT(Data!A1:F6,Other!A1:C3)',
        '=COUNT(Data!A1:C2,Data!D1:F2)-COUNT(Data!A1:F2)', '=COUNT(Data!A1:A6)+COUNT(Data!B1:B6)-COUNT(Data!A1:B6)',
        '=COUNT(Data!A1:F6)-COUNT(Data!A:F)', '=SUM(Data!A1:F6)', '=AVERAGE(Data!A1:F4)', '=MIN(Data!A1:F4)',
        '=MAX(Data!A1:F4)', '=COUNTBLANK(Data!A1:F6)', '=SUM(Data!A1:F4)/COUNT(Data!A1:F4)-AVERAGE(Data!A1:F4)',
        '=COUNT(Data!E1,Data!E3)', '=COUNT(Data!F5:F5,Data!A6)', '=COUNT(TRUE)', '=COUNT("3")', '=COUNT(0)',
    ]
    for row, formula in enumerate(texts, start=1):
        formulas.cell(row=row, column=1, value=formula)
        listing.append((row, formula))
    wb.save(path)
    return listing


def show(value):
    if isinstance(value, float):
        return 'float:' + repr(round(value, 12))
    return type(value).__name__ + ':' + repr(value)


def attempt(function):
    try:
        return show(function())
    except BaseException as error:  # noqa
        return 'EXC ' + type(error).__name__ + ' ' + str(error)


def direct_cases(runtime):
    empty = runtime.EmptyCell()
    day = datetime.datetime(2024, 2, 29)
    date_only = datetime.date(2024, 2, 29)
    values = [0, 1, -2, 3.5, -0.0, float('inf'), float('nan'), True, False, None, '', 'a', '7', '007', '1.5', '-3',
              '٣', '²', ' 4', empty, day, date_only, '#N/A', [1], (2,), 10 ** 30, 1e-300]
    cases = [
        ([], [], []),
        ([[[]]], [], []),
        ([[[1, 2], [3, 4]]], [], []),
        ([[[1, 'a'], [True, None]], [[2.5], [empty]]], [], []),
        ([], [1, '2', 'x', True, False], []),
        ([], [], [1, 'a', True, day, empty]),
        ([[[day, day], [1, '1']]], [day, '5', True, 2], [day, 3, '3']),
        ([[[date_only, day]]], [date_only], [date_only]),
        ([[1, [2, [3, [4, ['x', [day]]]]]]], ['1', '²', '٣'], [0.5]),
        ([[[float('nan'), float('inf')]]], [float('nan')], [float('-inf')]),
        ([[['#N/A', '#DIV/0!']]], ['#N/A'], ['#VALUE!']),
        (values, values, values),
        ([values, [values]], list(reversed(values)), values[::2]),
        # malformed calls: the exception class and text must stay the same
        ([[1]], [1], (2,)),
        ([[1]], (1, True, '3'), [2]),
        ([[1]], 'ab1', [2]),
        ([[1]], 5, [2]),
        ([[1]], None, [2]),
        ([[1]], [1], None),
        (None, [1], [2]),
        (7, [1], [2]),
        ('ab', ['1'], [2]),
        ([[1]], [1], 'xy'),
        ([[1]], {'1': 2, True: 3}, [2]),
        (((1, 2), [3]), [1], [2]),
        ({1: 2}, [], []),
    ]
    rnd = random.Random(20260930)
    for _ in range(300):
        def pick_list(depth=0):
            out = []
            for _i in range(rnd.randint(0, 5)):
                if depth < 3 and rnd.random() < 0.25:
                    out.append(pick_list(depth + 1))
                else:
                    out.append(rnd.choice(values[:23]))
            return out
        cases.append(([pick_list() for _i in range(rnd.randint(0, 3))],
                      [v for v in pick_list(3)], [v for v in pick_list(3)]))
    return cases


def run_direct(label, runtime):
    total = 0
    for number, (matrices, args, args_cells) in enumerate(direct_cases(runtime)):
        result = attempt(lambda: runtime._count(matrices, args, args_cells))
        if number < 26:
            print(label, 'case', number, result)
        else:
            # pseudo-random cases: print compactly, ten per line
            total += 1
            print(label, 'rnd', number, result)
    print(label, 'random cases', total)


def main():
    tmp = tempfile.mkdtemp(prefix='r2demo')
    try:
        xlsx = os.path.join(tmp, 'book.xlsx')
        out_py = os.path.join(tmp, 'book_translation.py')
        listing = build_workbook(xlsx)
        Parser().set_excel_file_path(xlsx).write_translation(out_py)
        executor = Executor().set_executed_class(class_file=out_py)
        for row, formula in listing:
            print(formula, '->', attempt(lambda: executor.get_cell(Cell('F', 0, row - 1)).value))
        executor.set_cells([Cell('Data', 'A', '3', value=1000), Cell('Data', 'C', '1', value=0.5),
                            Cell('Data', 'D', '1', value='text'), Cell('Data', 'F', '5', value=None),
                            Cell('Other', 'A', '2', value=datetime.datetime(2020, 1, 1)),
                            Cell('Data', 'A', '9', value=3)])
        for row, formula in listing:
            print('override', formula, '->', attempt(lambda: executor.get_cell(Cell('F', 0, row - 1)).value))
        run_direct('generated', executor.get_executed_class())
        run_direct('class', Runtime())
    finally:
        shutil.rmtree(tmp, ignore_errors=True)


if __name__ == '__main__':
    main()
