"""
Equivalence demo for r3 (CellTranslator: constant / formula code generation split into helpers, early return).

Translates hand-made and workbook cells holding hostile text, numbers, dates and formulas; prints the generated code
of every cell, the evaluated values (which must be the original strings) and a canary proving nothing got executed.
"""
import builtins
import datetime
import hashlib
import os
import re
import sys
import tempfile
import warnings

warnings.simplefilter('ignore')

from openpyxl import Workbook

from excel2pycl import Parser, Executor, Cell
from excel2pycl.src.context import Context
from excel2pycl.src.excel import Excel
from excel2pycl.src.translators import CellTranslator

LINES = []


def out(*parts):
    LINES.append(' '.join(str(p) for p in parts))


def show(value):
    return f'{type(value).__name__}:{value!r}'


def attempt(label, func):
    try:
        out(label, '->', func())
    except Exception as exc:  # noqa
        out(label, '!!', type(exc).__name__, str(exc)[:300])


HOSTILE = [
    'plain', '', ' ', "it's", 'say "hi"', "both ' and \"", 'back\\slash', 'trailing\\', 'new\nline', 'tab\there',
    'cr\rlf\n', "'''", '"""', "''' + __import__('os').system('echo pwned') + '''", '__import__("os").getcwd()',
    "setattr(__import__('builtins'), 'E2P_CANARY', 1)", "'); setattr(__import__('builtins'), 'E2P_CANARY', 1); ('",
    '{titles}', '{functions}', '{{}}', '{0}', '%s %d', '\\x41\\u0041\\N{BULLET}', 'юникод ✓ 💥', '\x00\x01\x7f',
    ' =A1', 'A1=', 'x=1', '==', "'=A1", '1+1', 'eval(1)', 'SUM(A1)', 'self._arguments.clear()', 'lambda: 0', '#REF!',
    'a' * 3000, "\\'", '\\"', "\\\\'", '\n', "')\n    def _0_0_0(self):\n        return 42\n#",
]
FORMULA_LIKE = ['=A1', '=1+1', '="x"', '=', '==1', '=1+', '=SUM(', '=(', '=A1:', '=@', "='", '="', '="a" & "b"', '=TRUE',
                '=FALSE()', '=1e3', '=1.5', '=-3', '=B1', '= 2 * 3', '=\n4', "=\"it's\"", '="a\\"', '="{titles}"',
                '="\'\'\'"', '="x"&A1', '=__import__("os")', '=eval("1")', '=sum(1)', '=SUM(1;2)']
OTHER_VALUES = [None, 0, 1, -1, 10 ** 30, 1.5, -0.0, 1e308, float('inf'), float('nan'), True, False,
                datetime.datetime(2024, 2, 29, 13, 5, 7), datetime.date(1999, 12, 31), datetime.time(23, 59),
                datetime.timedelta(days=1, seconds=5), b'bytes', (1, 2), [1, '=x'], {'a': 1}]

# ---------------------------------------------------------------- part A: hand-made Excel objects, code of every cell
rows = [[value] for value in HOSTILE + FORMULA_LIKE + OTHER_VALUES]
for row in rows:
    row.extend([5, 'five'])
excel = Excel({'data': [rows, [[1, '=A1'], ['=B2', '=A2']]], 'titles': ['S', "T'\"\\"], 'suspicious_cells': {},
               'sheets_size': [{'last_column': 3, 'last_row': len(rows)}, {'last_column': 2, 'last_row': 2}]})
for index, row in enumerate(rows):
    def run(index=index):
        context = Context()
        context._titles = excel.get_titles()
        context._sheets_size = excel.get_sheets_size()
        cell = Cell(0, 0, index)
        reference = CellTranslator.translate(cell, excel, context)
        again = CellTranslator.translate(Cell('S', 'A', str(index + 1)), excel, context)
        return (f'ref={reference} again={again} value={cell.value!r} handled={cell.has_handled_identifiers()} '
                f'cells={context._cell_translations!r} subs={context._sub_cell_translations!r} '
                f'in_progress={context._cells_in_progress!r}')
    attempt(f'A row {index} {rows[index][0]!r:.80}', run)

for title, column, row in ((1, 0, 0), (1, 1, 0), (1, 0, 1), (1, 1, 1), ("T'\"\\", 'B', '1'), (1, 5, 5), (2, 0, 0),
                           ('Nope', 'A', '1'), (0, 0, None), (0, 'A', '')):
    def run(title=title, column=column, row=row):
        context = Context()
        reference = CellTranslator.translate(Cell(title, column, row), excel, context)
        return f'ref={reference} cells={context._cell_translations!r} in_progress={context._cells_in_progress!r}'
    attempt(f'A cell ({title!r},{column!r},{row!r})', run)


def whole(excel_object):
    context = Context()
    context._titles = excel_object.get_titles()
    context._sheets_size = excel_object.get_sheets_size()
    CellTranslator.translate_file(excel_object, context)
    return f'cells={context._cell_translations!r} subs={context._sub_cell_translations!r}'


attempt('A translate_file circular', lambda: whole(excel))
small = Excel({'data': [[[None, '=A1', 'q"\''], [], ['=C1&B1']]], 'titles': ['x'], 'suspicious_cells': {},
               'sheets_size': [{'last_column': 3, 'last_row': 3}]})
attempt('A translate_file small', lambda: whole(small))

# a context that already knows the cell must not translate it again
context = Context()
cell = Cell(0, 0, 0)
context.set_cell(excel.fill_cell(cell), "'preset'")
attempt('A preset', lambda: f'{CellTranslator.translate(Cell(0, 0, 0), excel, context)} {context._cell_translations!r}')

# ---------------------------------------------------------------- part B: end to end through Parser / Executor
CANARY_FILE = os.path.join(tempfile.gettempdir(), 'e2p_r3_canary_should_never_exist')
HOSTILE_E2E = [v for v in HOSTILE if '\x00' not in v and '\x01' not in v and not v.startswith('=') and '\r' not in v] + [
    f"open({CANARY_FILE!r}, 'w').close()", f"'+str(open({CANARY_FILE!r}, 'w'))+'"]
TITLES = ['Main', "quo\"te", "O'Brien", "__import__('os')", 'new\nline', '{titles}', "a'); import os; ('"]

with tempfile.TemporaryDirectory() as tmp:
    xlsx = os.path.join(tmp, 'book.xlsx')
    generated = os.path.join(tmp, 'generated.py')

    wb = Workbook()
    main = wb.active
    main.title = TITLES[0]
    for index, text in enumerate(HOSTILE_E2E, start=1):
        main.cell(index, 1).value = text
        main.cell(index, 1).data_type = 's'
        main.cell(index, 2, f'=A{index}')
        main.cell(index, 3, f'=A{index}&""')
        main.cell(index, 4, f'=LEFT(A{index};2)')
    main['F1'] = 3
    main['F2'] = 2.5
    main['F3'] = True
    main['F4'] = datetime.datetime(2024, 2, 29, 13, 5, 7)
    main['F5'] = '=F1+F2'
    main['F6'] = '=IF(F3;"y\'es";"n\\o")'
    main['F7'] = '=YEAR(F4)'
    main['F8'] = '="lit "&"{titles}"&" \'\'\' "&"\\"'
    for number, title in enumerate(TITLES[1:], start=1):
        sheet = wb.create_sheet(title)
        sheet['A1'] = f'text on {title}'
        sheet['B1'] = '=A1'
        main.cell(number, 8, f"='{title}'!A1" if "'" not in title and '\n' not in title else f'=F{number}')
    wb.save(xlsx)
    wb.close()

    for safety in (True, False):
        parser = Parser().set_excel_file_path(xlsx)
        parser = parser.enable_safety_check() if safety else parser.disable_safety_check()
        try:
            text = parser.write_translation(generated).get_translation()
        except Exception as exc:  # noqa
            out('B safety', safety, '!!', type(exc).__name__, str(exc)[:2000])
            continue
        out('B safety', safety, 'text', hashlib.sha256(text.encode()).hexdigest(), len(text))
        lines = text.split('\n')
        for number, line in enumerate(lines):
            if re.fullmatch(r'    def _\d+_\d+_\d+(_\d+)?\(self\):', line):
                out('B code', line.strip(), lines[number + 1].strip()[:400])
            elif 'self._titles: ' in line or 'self._sheets_size: ' in line:
                out('B code', line.strip()[:400])
        executor = Executor().set_executed_class(class_file=generated)
        out('B titles', executor.get_executed_class().get_titles())
        for index, original in enumerate(HOSTILE_E2E):
            values = [executor.get_cell(Cell('Main', column, index)).value for column in range(4)]
            out('B row', index, 'const==orig', values[0] == original or (original == '' and values[0] == ''),
                'ref==orig', values[1] == original, [show(v) for v in values][:4] if len(original) < 100 else 'long')
        for row in range(8):
            attempt(f'B F{row + 1}', lambda: show(executor.get_cell(Cell(0, 5, row)).value))
            attempt(f'B H{row + 1}', lambda: show(executor.get_cell(Cell(0, 7, row)).value))
        for title in TITLES[1:]:
            attempt(f'B sheet {title!r}', lambda: [show(executor.get_cell(Cell(title, c, 0)).value) for c in (0, 1)])

    # one formula / constant at a time (entry point translation), errors included
    for number, content in enumerate(FORMULA_LIKE + [' =A1', "'=A1", 'x=1']):
        wb = Workbook()
        sheet = wb.active
        sheet.title = 'S'
        sheet['A1'] = 'a"\'\\1'
        sheet['B1'] = 4
        sheet['C3'].value = content
        sheet['C3'].data_type = 'f' if content.startswith('=') else 's'
        sheet['D3'] = '=C3'
        wb.save(xlsx)
        wb.close()
        for entry in (Cell('S', 'C', '3'), Cell(0, 3, 2), None):
            def run(entry=entry):
                parser = Parser().set_excel_file_path(xlsx).disable_safety_check()
                if entry is not None:
                    parser.set_entrypoint_cell(entry)
                text = parser.get_translation()
                with open(generated, 'w', encoding='utf-8') as f:
                    f.write(text)
                executor = Executor().set_executed_class(class_file=generated)
                return (f'{show(executor.get_cell(Cell(0, 2, 2)).value)} {show(executor.get_cell(Cell(0, 3, 2)).value)} '
                        f'text {hashlib.sha256(text.encode()).hexdigest()[:16]}')
            attempt(f'B single {content!r} entry {entry!r}', run)

    # circular references are rejected
    wb = Workbook()
    sheet = wb.active
    sheet['A1'] = '=B1'
    sheet['B1'] = '=C1+1'
    sheet['C1'] = '=A1'
    sheet['D1'] = '=D1'
    wb.save(xlsx)
    wb.close()
    for entry in (Cell(0, 0, 0), Cell(0, 3, 0), None):
        def run(entry=entry):
            parser = Parser().set_excel_file_path(xlsx)
            if entry is not None:
                parser.set_entrypoint_cell(entry)
            return hashlib.sha256(parser.get_translation().encode()).hexdigest()[:16]
        attempt(f'B circular entry {entry!r}', run)
    out('temp files before cleanup', sorted(os.listdir(tmp)))

out('canary attribute set', hasattr(builtins, 'E2P_CANARY'), 'canary file exists', os.path.exists(CANARY_FILE))
out('temp dir removed', not os.path.exists(tmp))
print('\n'.join(LINES))
print('DIGEST', hashlib.sha256('\n'.join(LINES).encode()).hexdigest(), 'lines', len(LINES))
sys.exit(0)
