"""Equivalence demo for r4: the NETWORKDAYS runtime helper (_network_days), both copies, and the whole pipeline.

Run as: PYTHONPATH=<tree> /venv/bin/python demo.py
"""
import datetime
import hashlib
import os
import random
import tempfile
import warnings

warnings.simplefilter('ignore')

from openpyxl import Workbook  # noqa: E402

from excel2pycl import Parser, Executor, Cell  # noqa: E402
from excel2pycl.src.utilities.abstract_excel_in_python_class import AbstractExcelInPython  # noqa: E402

DT = datetime.datetime


class Direct(AbstractExcelInPython):
    pass


class Truthless(list):
    """A holiday list whose truth value is asked for (and logged)."""
    log = []

    def __bool__(self):
        Truthless.log.append('bool')
        return True

    def __iter__(self):
        Truthless.log.append('iter')
        return super().__iter__()


def show(value):
    return f'{type(value).__name__}:{value!r}'


def call(func, *args):
    try:
        return show(func(*args))
    except BaseException as error:  # noqa - the class of whatever is raised is part of the behaviour
        return f'raises:{type(error).__name__}'


def build_workbook(path):
    wb = Workbook()
    ws = wb.active
    rows = [
        (DT(2023, 4, 1), DT(2023, 5, 31), DT(2023, 5, 1), DT(2023, 5, 8)),
        (DT(2023, 5, 31), DT(2023, 4, 1), DT(2023, 5, 9), 'text'),
        (DT(2024, 2, 26), DT(2024, 3, 3), DT(2024, 2, 29), None),
        (DT(2024, 3, 2), DT(2024, 3, 3), DT(2024, 3, 2), DT(2024, 3, 3)),
        (DT(2024, 12, 23), DT(2025, 1, 10), DT(2024, 12, 25), DT(2025, 1, 1)),
        (DT(2025, 1, 10), DT(2024, 12, 23), DT(2024, 12, 25), DT(2024, 12, 25)),
        (DT(2024, 7, 1, 23, 59), DT(2024, 7, 1, 0, 1), DT(2024, 7, 1, 12, 0), 17),
        (40, 'ewewwewe', None, None),
        (None, None, None, None),
    ]
    for row, (a, b, c, d) in enumerate(rows, start=1):
        ws.cell(row=row, column=1, value=a)
        ws.cell(row=row, column=2, value=b)
        ws.cell(row=row, column=3, value=c)
        ws.cell(row=row, column=4, value=d)
        ws.cell(row=row, column=5, value=f'=NETWORKDAYS(A{row},B{row})')
        ws.cell(row=row, column=6, value=f'=NETWORKDAYS(A{row},B{row},C{row}:D{row})')
        ws.cell(row=row, column=7, value=f'=NETWORKDAYS(A{row},B{row},C1:D{len(rows)})')
        ws.cell(row=row, column=8, value=f'=NETWORKDAYS(B{row},A{row},C1:C{len(rows)})')
        ws.cell(row=row, column=9, value=f'=NETWORKDAYS(DATE(2024,1,1),B{row},C{row}:D{row})')
    wb.save(path)
    return len(rows)


def reference(start, end, holidays):
    """The statement of the property, computed independently."""
    a, b = start.date(), end.date()
    sign = 1
    if a > b:
        a, b, sign = b, a, -1
    off = {h.date() for row in holidays or [] if row is not None for h in row if isinstance(h, DT)}
    count = 0
    for offset in range((b - a).days + 1):
        day = a + datetime.timedelta(days=offset)
        if day.isoweekday() <= 5 and day not in off:
            count += 1
    return count * sign


def main():
    lines = []
    with tempfile.TemporaryDirectory() as tmp:
        xlsx = os.path.join(tmp, 'networkdays.xlsx')
        out_py = os.path.join(tmp, 'networkdays_translation.py')
        count = build_workbook(xlsx)
        Parser().set_excel_file_path(xlsx).write_translation(out_py)
        executor = Executor().set_executed_class(class_file=out_py)

        for row in range(count):
            for column in range(4, 9):
                try:
                    outcome = show(executor.get_cell(Cell(0, column, row)).value)
                except BaseException as error:  # noqa
                    outcome = f'raises:{type(error).__name__}'
                lines.append(f'cell[{row},{column}]={outcome}')

        overrides = [
            (DT(2024, 1, 1), DT(2024, 12, 31), DT(2024, 5, 1), DT(2024, 5, 9)),
            (DT(2024, 12, 31), DT(2024, 1, 1), DT(2024, 5, 4), DT(2024, 5, 5)),
            (DT(2024, 5, 1), DT(2024, 5, 1), DT(2024, 5, 1), DT(2024, 5, 1)),
            (DT(2024, 5, 4), DT(2024, 5, 5), None, None),
            (DT(1900, 1, 1), DT(1900, 3, 1), '', 0),
            ('2024-01-01', DT(2024, 1, 31), None, None),
            (DT(2024, 1, 1), 45000, None, None),
            (datetime.date(2024, 1, 1), DT(2024, 1, 31), None, None),
            (DT(9999, 12, 1), DT(9999, 12, 30), DT(9999, 12, 24), None),
            (DT(9999, 12, 1), DT(9999, 12, 31), None, None),
            (DT(9999, 12, 31), DT(9999, 12, 1), None, None),
            (DT(1, 1, 1), DT(1, 1, 31), DT(1, 1, 1), None),
        ]
        for override in overrides:
            executor.set_cells([Cell(0, i, 0, value=v) for i, v in enumerate(override)])
            for column in range(4, 9):
                try:
                    outcome = show(executor.get_cell(Cell(0, column, 0)).value)
                except BaseException as error:  # noqa
                    outcome = f'raises:{type(error).__name__}'
                lines.append(f'override{override!r}[{column}]={outcome}')

        generated = executor.get_executed_class()
        direct = Direct()
        targets = ((direct, 'class'), (generated, 'template'))

        # hand-picked holiday arguments of every shape
        some = [DT(2024, 5, 1), DT(2024, 5, 9, 13, 30), DT(2024, 5, 4), DT(2024, 5, 1), DT(2030, 1, 1)]
        holiday_shapes = [
            ('none', lambda: None), ('empty', lambda: []), ('empty-row', lambda: [[]]), ('none-row', lambda: [None]),
            ('none-cell', lambda: [[None]]), ('one-row', lambda: [list(some)]),
            ('column', lambda: [[h] for h in some]), ('mixed', lambda: [[some[0], 'x', 5, None], None, [some[1]]]),
            ('tuple', lambda: ((some[0],), (some[1], some[2]))), ('dates-not-datetimes', lambda: [[h.date() for h in some]]),
            ('empty-cells', lambda: [[direct.EmptyCell(), some[0]], [generated.EmptyCell()]]),
            ('generator', lambda: (row for row in [[some[0]], [some[1]]])),
            ('row-generators', lambda: [(h for h in some)]), ('string', lambda: 'abc'), ('strings', lambda: ['ab', 'c']),
            ('int', lambda: 5), ('zero', lambda: 0), ('int-row', lambda: [5]), ('flat', lambda: list(some)),
            ('dict', lambda: {'a': [some[0]]}), ('dict-rows', lambda: [{some[0]: 1}]), ('empty-tuple', lambda: ()),
            ('empty-string', lambda: ''), ('nested', lambda: [[[some[0]]]]), ('false', lambda: False),
            ('true', lambda: True), ('set-row', lambda: [frozenset([some[0]])]),
        ]
        intervals = [
            (DT(2024, 4, 29), DT(2024, 5, 12)), (DT(2024, 5, 12), DT(2024, 4, 29)), (DT(2024, 5, 1), DT(2024, 5, 1)),
            (DT(2024, 5, 4), DT(2024, 5, 4)), (DT(2024, 5, 4), DT(2024, 5, 5)), (DT(2024, 5, 5), DT(2024, 5, 4)),
            (DT(2024, 5, 1, 23, 0), DT(2024, 5, 1, 1, 0)), (DT(2024, 5, 2, 0, 0), DT(2024, 5, 1, 23, 59)),
            (DT(2024, 5, 3, 18), DT(2024, 5, 6, 6)), (DT(2023, 12, 25), DT(2031, 1, 7)),
            (DT(9999, 12, 20), DT(9999, 12, 30)), (DT(9999, 12, 20), DT(9999, 12, 31)), (DT(9999, 12, 31), DT(9999, 12, 31)),
            (DT(9999, 12, 31), DT(9999, 12, 20)), (DT(1, 1, 1), DT(1, 1, 1)), (DT(1, 1, 10), DT(1, 1, 1)),
            ('2024-05-01', DT(2024, 5, 2)), (DT(2024, 5, 1), None), (datetime.date(2024, 5, 1), DT(2024, 5, 2)),
            (45000, 45010), (direct.EmptyCell(), DT(2024, 5, 2)),
            (DT(2024, 5, 1, tzinfo=datetime.timezone.utc), DT(2024, 5, 10)),
        ]
        for name, make in holiday_shapes:
            for start, end in intervals:
                results = [call(target._network_days, start, end, make()) for target, _ in targets]
                lines.append(f'shape {name} {start!r}..{end!r}: class={results[0]} template={results[1]}')
        for target, label in targets:
            lines.append(f'two arguments {label}: {call(target._network_days, DT(2024, 4, 29), DT(2024, 5, 12))}')
            Truthless.log = []
            outcome = call(target._network_days, DT(2024, 4, 29), DT(2024, 5, 12), Truthless([[some[0]], None, [some[1]]]))
            lines.append(f'truth value {label}: {outcome} log={Truthless.log}')

        # random sweep, compared with the statement of the property as well
        rng = random.Random(8_2026)
        base = DT(2019, 1, 1)
        digest = hashlib.sha256()
        total = mismatch = wrong = 0
        sample = []
        for _ in range(4000):
            start = base + datetime.timedelta(days=rng.randint(0, 3000), minutes=rng.randint(0, 1439))
            span = rng.choice([0, 0, 1, 2, 5, 6, 7, rng.randint(0, 40), rng.randint(0, 800)])
            end = start + datetime.timedelta(days=rng.choice([-1, 1]) * span, minutes=rng.randint(-1439, 1439))
            low = min(start, end)
            rows = []
            for _row in range(rng.randint(0, 4)):
                row = []
                for _cell in range(rng.randint(0, 5)):
                    kind = rng.random()
                    if kind < 0.7:
                        row.append(low + datetime.timedelta(days=rng.randint(-3, span + 3), hours=rng.randint(0, 23)))
                    elif kind < 0.8:
                        row.append(None)
                    elif kind < 0.9:
                        row.append(rng.choice(['', 'holiday', 45000, 1.5, True]))
                    else:
                        row.append(row[-1] if row else None)
                rows.append(rng.choice([row, row, row, None]))
            holidays = rng.choice([rows, rows, rows, None, []])
            a = call(direct._network_days, start, end, holidays)
            b = call(generated._network_days, start, end, holidays)
            total += 1
            mismatch += a != b
            wrong += a != show(reference(start, end, holidays))
            record = f'{start.isoformat()} {end.isoformat()} {holidays!r} class={a} template={b}'
            digest.update(record.encode() + b'\n')
            if total % 160 == 0:
                sample.append(record)
        lines.append(f'random calls: {total}, class/template disagreements: {mismatch}, '
                     f'differing from the independent count: {wrong}')
        lines.append(f'random digest: {digest.hexdigest()}')
        lines.extend(sample)

    text = '\n'.join(lines)
    print(text)
    print('TOTAL-DIGEST', hashlib.sha256(text.encode()).hexdigest())


if __name__ == '__main__':
    main()
