"""Equivalence demo for r2: ExpressionTokenTranslator operator handling (percent, &, comparisons, arithmetic).

Every formula below is put alone into its own small workbook (so that a formula the parser rejects
does not hide the others), translated, and the generated class text, the value of the formula cell
for the stored data and for several override sets are recorded (or the exception class name).
"""
import hashlib
import math
import os
import shutil
import sys
import tempfile

import openpyxl

from excel2pycl import Parser, Executor, Cell

FORMULAS = [
    # plain percent literals and cells
    '=5%', '=50%', '=100%', '=0%', '=1.1%', '=0.07%', '=33.3333333333333%', '=123456789012345%', '=0.1%',
    '=7%', '=29%', '=57%', '=58%', '=1.15%', '=2.675%', '=1e3%', '=-5%', '=+5%', '=A1%', '=B1%', '=C1%', '=A2%',
    '=A3%', '=D9%', '=A1%%', '=5%%', '=5%%%', '=A1%%%',
    # percent followed by an operator (the "follows a percent" normalisation)
    '=A1%*2', '=A1%+B1', '=A1%-B1%', '=A1%/B1%', '=5%*A1', '=A1*5%', '=A1+5%', '=A1-5%', '=A1/5%', '=10%+20%',
    '=10%+20%+30%', '=10%*20%*30%', '=7%*100', '=29%*100', '=57%*100', '=0.07%*100', '=1.1%*3', '=A1%*B1%*C1%',
    '=A1%+B1%+C1%', '=A1%^2', '=2^A1%', '=A1%%*2', '=5%%+1', '=1-A1%', '=1+A1%', '=(1+A1%)', '=(1+A1%)*B1',
    '=(A1%)', '=(A1%)*2', '=(A1+B1)%', '=(A1+B1)%*2', '=(5%)', '=(5%+1)*(2-10%)', '=((A1%))', '=B1*(1-A1%)',
    '=B1*(1-A1%)*(1+C1%)', '=A1%*(B1+C1)', '=(A1%+B1%)/2', '=A1% * 2', '=A1 %', '= 5 % ',
    # percent and comparison
    '=A1%>B1', '=A1%>=B1%', '=A1%<B1', '=A1%<=5%', '=A1%=5%', '=A1%<>5%', '=5%=0.05', '=5%<>0.05', '=10%+20%=30%',
    '=0.1+0.2=0.3', '=7%*100=7', '=A1%=A2', '=A1>B1%', '=A1=B1', '=A1<>B1', '=A1>B1', '=A1>=B1', '=A1<B1',
    '=A1<=B1', '=(A1>B1)', '=(A1%>B1)+1', '=A1+B1>C1', '=A1>B1+C1', '="a"="A"', '="a"<"b"', '=A3="x"', '=A3<>"x"',
    '=D9=0', '=D9=""', '=A1%=D9',
    # percent and ampersand
    '=5%&"x"', '="x"&5%', '=A1%&B1%', '=A1&B1', '=A1&"%"', '=A1%&""', '=""&A1%', '=A3&A1%', '="p: "&A1%*100&"%"',
    '=A1&B1&C1', '=D9&"e"', '=A1%&D9', '=(A1&B1)&C1', '=A1&(B1&C1)', '="a"&"b"="ab"', '=A1&B1=C1',
    # percent inside functions
    '=ROUND(12.5%,2)', '=ROUND(A1%,3)', '=ROUND(A1%*B1,1)', '=ROUNDUP(A1%,1)', '=ROUNDDOWN(A1%,1)', '=SUM(A1:C1)%',
    '=SUM(A1:C1)%*2', '=SUM(A1%,B1%)', '=SUM(5%,A1:C1)', '=IF(A1%>0.1,"big","small")', '=IF(A1%=12.5%,1,0)',
    '=IF(A1>B1,A1%,B1%)', '=MAX(A1%,B1%)', '=MIN(A1%,5%)', '=AVERAGE(A1:C1)%', '=IF(5%,1,2)', '=AND(A1%>0,B1%<1)',
    '=OR(A1%>1,B1%>1)', '=IFERROR(A1%/0,"err")', '=IFERROR(A1%/B1%,"err")',
    # no percent at all: the other operator paths
    '=A1+B1', '=A1-B1', '=A1*B1', '=A1/B1', '=A1^2', '=-A1', '=+A1', '=-A1+B1', '=A1+-B1', '=A1*-B1', '=(A1+B1)*C1',
    '=A1+(B1*C1)', '=(A1)', '=((A1+B1))', '=(A1+B1)*(C1-A2)', '=A1+B1+C1+A2', '=A1-B1-C1', '=A1/B1/C1', '=1+2*3',
    '=(1+2)*3', '=2^3^2', '=1/3', '=0.1+0.2', '=1e2+1', '="abc"', '=TRUE', '=FALSE', '=A1', '=D9', '=A1+D9',
    '=A3+1', '=A1/0', '=A1/D9', '=1=1', '=1<>1', '=TRUE=1', '=A1:C1', '=SUM(A1:C1)+A2',
    # rejected inputs
    '=%', '=%5', '=5%5', '=A1%B1', '=A1%%B1', '=*A1', '=A1*', '=A1+', '=()', '=(A1', '=A1)', '=A1%(B1)', '=5 5',
    '=A1><B1', '=A1==B1', '=A1&&B1', '=&A1', '=A1&',
]

OVERRIDES = [
    [],
    [('A', '1', 7), ('B', '1', 0.29), ('C', '1', 57)],
    [('A', '1', 0.07), ('B', '1', 1.1), ('C', '1', 33.3333333333333)],
    [('A', '1', -2.675), ('B', '1', 0), ('C', '1', 1e15), ('A', '2', 0.125)],
    [('A', '1', '12'), ('B', '1', None), ('C', '1', True)],
    [('A', '1', 12.5), ('B', '1', 8), ('C', '1', 3), ('A', '2', 0.125), ('A', '3', 'x'), ('D', '9', 4)],
]


def show(value):
    if isinstance(value, float):
        return f'float:{value!r}:{value.hex() if math.isfinite(value) else "-"}'
    if isinstance(value, list):
        return 'list:[' + ', '.join(show(item) for item in value) + ']'
    return f'{type(value).__name__}:{value!r}'


def main():
    lines = []
    tmp = tempfile.mkdtemp(prefix='t44_r2_')
    try:
        for index, formula in enumerate(FORMULAS):
            xlsx = os.path.join(tmp, f'f{index}.xlsx')
            out_py = os.path.join(tmp, f'f{index}_generated.py')
            workbook = openpyxl.Workbook()
            sheet = workbook.active
            sheet.title = 'P'
            sheet['A1'], sheet['B1'], sheet['C1'] = 12.5, 8, 3
            sheet['A2'], sheet['A3'] = 0.125, 'x'
            sheet['E1'] = formula
            workbook.save(xlsx)
            try:
                text = Parser().set_excel_file_path(xlsx).write_translation(out_py).get_translation()
            except BaseException as error:  # noqa
                lines.append(f'{formula!r} translation raised:{type(error).__name__}')
                continue
            lines.append(f'{formula!r} class text sha256:{hashlib.sha256(text.encode("utf-8")).hexdigest()}')
            body = [line.strip() for line in text.split('\n')]
            position = body.index('def _0_4_0(self):')
            lines.append(f'{formula!r} code: {body[position + 1]}')
            try:
                executor = Executor().set_executed_class(class_file=out_py)
            except BaseException as error:  # noqa
                lines.append(f'{formula!r} loading raised:{type(error).__name__}')
                continue
            for number, overrides in enumerate(OVERRIDES):
                if overrides:
                    executor.set_cells([Cell('P', column, row, value=value) for column, row, value in overrides])
                try:
                    result = show(executor.get_cell(Cell('P', 'E', '1')).value)
                except BaseException as error:  # noqa
                    result = f'raised:{type(error).__name__}'
                lines.append(f'{formula!r} overrides#{number} -> {result}')
    finally:
        shutil.rmtree(tmp, ignore_errors=True)

    print(f'results: {len(lines)}')
    print(f'sha256: {hashlib.sha256(chr(10).join(lines).encode("utf-8")).hexdigest()}')
    for line in lines:
        print(line)
    return 0


if __name__ == '__main__':
    sys.exit(main())
