"""Equivalence demonstration for the entry-point translation / cycle rejection code (property C03).

Builds its own workbooks in a temporary directory, translates them as a whole and from every
possible entry cell, executes the generated classes and prints a deterministic digest of
everything observable: generated text (hash + the per-cell functions), values, exception
class names and messages.  Also drives CellTranslator / Context directly.

Run:  PYTHONPATH=<tree> /venv/bin/python demo.py
"""
import datetime
import hashlib
import os
import sys
import tempfile

from openpyxl import Workbook

from excel2pycl import Parser, Executor, Cell, Context, Excel, CellTranslator
from excel2pycl.src.handle_cell import handle_cell

OUT = []


def emit(*parts):
    OUT.append(' '.join(str(p) for p in parts))


def sha(text):
    return hashlib.sha256(text.encode('utf-8')).hexdigest()[:16]


def show(value):
    """Deterministic rendering of a computed value (type name + repr)."""
    if isinstance(value, list):
        return '[' + ', '.join(show(v) for v in value) + ']'
    return f'{type(value).__name__}:{value!r}'


def functions_part(text):
    """The per-cell functions of a generated class (everything after the runtime helpers)."""
    marker = "        return '#VALUE!'\n\n"
    return text[text.rindex(marker) + len(marker):]


def build(path, sheets):
    wb = Workbook()
    wb.remove(wb.active)
    for title, rows in sheets:
        ws = wb.create_sheet(title)
        for r, row in enumerate(rows, start=1):
            for c, value in enumerate(row, start=1):
                if value is not None:
                    ws.cell(row=r, column=c, value=value)
    wb.save(path)
    wb.close()


def attempt(label, fn):
    try:
        result = fn()
    except RecursionError:
        emit(label, '-> RecursionError')
        return None
    except Exception as e:  # noqa
        emit(label, '->', type(e).__name__, '|', str(e)[:300])
        return None
    return result


def run_values(py_path, cells):
    ex = Executor().set_executed_class(class_file=py_path)
    res = {}
    for (t, c, r) in cells:
        try:
            res[(t, c, r)] = show(ex.get_cell(Cell(t, c, r)).value)
        except RecursionError:
            res[(t, c, r)] = 'EXC RecursionError'
        except Exception as e:  # noqa
            res[(t, c, r)] = f'EXC {type(e).__name__}: {str(e)[:120]}'
    return res


def defined_cells(text):
    """(sheet, column, row) of every `def _s_c_r(self)` in the generated text."""
    found = []
    for line in functions_part(text).splitlines():
        line = line.strip()
        if line.startswith('def _') and line.endswith('(self):'):
            name = line[4:-7]
            parts = name.split('_')[1:]
            if len(parts) == 3 and all(p.isdigit() for p in parts):
                found.append(tuple(int(p) for p in parts))
    return found


# --------------------------------------------------------------------------------------------
MAIN_SHEETS = [
    ('Data', [
        [1, 2, 3, 4, 5],
        [10, 'apple', 1.5, None, True],
        [20, 'pear', 2.5, None, False],
        [30, 'plum', 3.5, None, None],
        [40, 'fig', 4.5, datetime.datetime(2024, 2, 29), None],
        ['=A1+B1', '=SUM(A2:A5)', '=SUM(A1:E1)', '=A6*2', '=$A$6+$B6+C$6'],
    ]),
    ('Calc', [
        ['=Data!A1', "='My Sheet'!B2", '=Data!A6+Data!B6', '=SUM(Data!A2:A5)', '=VLOOKUP(30, Data!A2:C5, 2, FALSE())'],
        ['=A1+B1', '=IF(A2>5, C1, D1)', '=B2&"x"', '=Data!D3', '=Data!Z99'],
        ['=SUM(Data!C:C)', '=B2', '=COLUMN(C4:E4)', '=COLUMN(B3)', '=COLUMN()'],
        ['=B1+B1+B1', '=IFERROR(A1/Data!D2, 7)', '=MAX(Data!A1:E1)', '=MIN(Data!A2:A5)', '=AVERAGE(Data!C2:C5)'],
        ['=YEAR(Data!D5)', '=SUMIF(Data!A2:A5, ">15")', '=COUNT(Data!A1:E1)', '=ROUND(Data!C2, 0)', '=A5+B5'],
        ['=INDEX(Data!A1:C3;2;2)', '=MATCH(30;Data!A2:A5;0)', '=LEFT(Data!B2,2)', '=E5*2', "='My Sheet'!A1+'My Sheet'!A2"],
    ]),
    ('My Sheet', [
        [100, '=A1+1'],
        ['=A1*2', '=A2+B1+Calc!A1'],
        [None, '=A3'],
    ]),
]

CYCLIC = {
    'self': [('S', [['=A1']])],
    'self_plus': [('S', [['=A1+1', 5]])],
    'two': [('S', [['=B1', '=A1']])],
    'three': [('S', [['=B1', '=C1', '=A1+1']])],
    'via_range': [('S', [['=SUM(A1:A3)'], [1], [2]])],
    'via_range_tail': [('S', [[1], [2], ['=SUM(A1:A3)']])],
    'via_hrange': [('S', [['=SUM(B1:D1)', 1, '=A1', 3]])],
    'via_column': [('S', [['=SUM(A:A)'], [1]])],
    'via_matrix': [('S', [['=VLOOKUP(1, A1:B2, 2, FALSE())', 2], [1, 3]])],
    'via_matrix_far': [('S', [[1, '=D4', 9], [2, 5, 9], [3, 6, 9], [0, 0, 0, '=VLOOKUP(2, A1:B3, 2, FALSE())']])],
    'cross_sheet': [('S', [['=T!A1']]), ('T', [['=S!A1']])],
    'cross_sheet_quoted': [('S 1', [["='T 2'!B2"]]), ('T 2', [[None, None], [None, "='S 1'!A1"]])],
    'cross_sheet_three': [('S', [['=T!A1']]), ('T', [['=U!A1']]), ('U', [['=S!A1+1']])],
    'unreachable_cycle': [('S', [[1, '=A1+1', '=B1+1'], ['=B2', '=A2', 7], ['=C2', None, None]])],
    'diamond': [('S', [['=B1+C1', '=D1', '=D1', 4]])],
    'deep_chain': [('S', [['=B1'] + [f'={chr(ord("A") + i + 2)}1' for i in range(20)] + [3]])],
    'if_branch_cycle': [('S', [['=IF(B1>0, 1, A1)', 5]])],
    'iferror_cycle': [('S', [['=IFERROR(A1, 0)']])],
    'cycle_behind_chain': [('S', [['=B1', '=C1', '=D1', '=C1']])],
    'long_cycle': [('S', [[f'={chr(ord("A") + i + 1)}1' for i in range(12)] + ['=A1']])],
    'dollar_cycle': [('S', [['=$B$1', '=$A1']])],
    'column_in_cell': [('S', [['=COLUMN(C1:E1)', '=A1', '=COLUMN(A1:A3)']])],
    'bad_formula': [('S', [['=', '=A1+', '=))', 1]])],
    'not_formula': [('S', [[' =A1', 'x=A1', "'=A1", 0, False, '']])],
}


def section_main(tmp):
    emit('== main workbook ==')
    xlsx = os.path.join(tmp, 'main.xlsx')
    build(xlsx, MAIN_SHEETS)
    whole_py = os.path.join(tmp, 'whole.py')
    parser = Parser().set_excel_file_path(xlsx)
    whole_text = parser.get_translation()
    parser.write_translation(whole_py)
    emit('whole sha', sha(whole_text), 'len', len(whole_text))
    emit('whole functions:')
    emit(functions_part(whole_text))
    all_cells = [(t, c, r) for t in range(3) for r in range(8) for c in range(7)]
    whole_values = run_values(whole_py, all_cells)
    for key in all_cells:
        emit('whole', key, whole_values[key])

    # entry-point translation from every cell (also blank ones and ones beyond the used range)
    for (t, c, r) in all_cells:
        label = f'entry {t},{c},{r}'
        p = Parser().set_excel_file_path(xlsx).set_entrypoint_cell(Cell(t, c, r))
        text = attempt(label, p.get_translation)
        if text is None:
            continue
        py = os.path.join(tmp, f'entry_{t}_{c}_{r}.py')
        p.write_translation(py)
        cells = defined_cells(text)
        vals = run_values(py, cells)
        mismatches = [k for k in cells if k in whole_values and vals[k] != whole_values[k]]
        emit(label, 'sha', sha(text), 'cells', sorted(cells), 'mismatch-with-whole', mismatches)
        emit(label, 'entry value', vals.get((t, c, r)), 'whole value', whole_values.get((t, c, r)))
        emit(functions_part(text))

    # string-addressed entry points and parser re-use
    p = Parser().set_excel_file_path(xlsx)
    for cell in [Cell('Calc', 'B', '2'), Cell('My Sheet', 'B', '2'), Cell('Data', 'E', '6'), Cell(1, 1, 1),
                 Cell('Nope', 'A', '1'), Cell('Calc', 'B'), Cell('Calc', 'B', ''), Cell(0, 'A', 1), Cell(5, 0, 0),
                 Cell(-1, 0, 0), Cell(0, -1, 0), Cell(0, 0, -1)]:
        label = f'entry-str {cell}'
        text = attempt(label, lambda: p.set_entrypoint_cell(cell).get_translation())
        if text is not None:
            emit(label, 'sha', sha(text), 'cells', sorted(defined_cells(text)))


def section_cyclic(tmp):
    emit('== cyclic / edge workbooks ==')
    for name, sheets in CYCLIC.items():
        xlsx = os.path.join(tmp, f'{name}.xlsx')
        build(xlsx, sheets)
        label = f'{name} whole'
        text = attempt(label, Parser().set_excel_file_path(xlsx).get_translation)
        if text is not None:
            py = os.path.join(tmp, f'{name}_whole.py')
            with open(py, 'w', encoding='utf-8') as f:
                f.write(text)
            cells = defined_cells(text)
            emit(label, 'sha', sha(text), 'values', sorted(run_values(py, cells).items()))
            emit(functions_part(text))
        for t, (title, rows) in enumerate(sheets):
            for r in range(len(rows) + 1):
                width = max(len(row) for row in rows) + 1
                for c in range(width):
                    label = f'{name} entry {t},{c},{r}'
                    p = Parser().set_excel_file_path(xlsx).set_entrypoint_cell(Cell(t, c, r))
                    text = attempt(label, p.get_translation)
                    if text is None:
                        continue
                    py = os.path.join(tmp, f'{name}_{t}_{c}_{r}.py')
                    with open(py, 'w', encoding='utf-8') as f:
                        f.write(text)
                    cells = defined_cells(text)
                    emit(label, 'sha', sha(text), 'values', sorted(run_values(py, cells).items()))


def section_direct(tmp):
    emit('== direct CellTranslator / Context calls ==')
    xlsx = os.path.join(tmp, 'main.xlsx')
    excel = Excel.parse(xlsx)
    context = Context()
    context._titles = excel.get_titles()
    context._sheets_size = excel.get_sheets_size()

    # get_cell / set_cell / start / finish protocol
    a = Cell(0, 0, 0)
    b = Cell(0, 1, 0)
    emit('get before set', context.get_cell(a))
    emit('set returns', context.set_cell(a, '1'))
    emit('get after set', context.get_cell(a), context.get_cell(Cell(0, 0, 0)), context.get_cell(b))
    emit('set again returns', context.set_cell(a, '2'))
    emit('start b', context.start_cell_translation(b))
    attempt('start b again', lambda: context.start_cell_translation(b))
    attempt('start equal cell', lambda: context.start_cell_translation(Cell(0, 1, 0, value='x')))
    emit('start a (already translated)', context.start_cell_translation(a))
    emit('finish b', context.finish_cell_translation('_0_1_0'))
    emit('finish b twice', context.finish_cell_translation('_0_1_0'))
    emit('finish unknown', context.finish_cell_translation('_9_9_9'))
    emit('start b after finish', context.start_cell_translation(b))
    attempt('start a again', lambda: context.start_cell_translation(a))
    emit('finish a', context.finish_cell_translation(context._get_cell_function_name(a)))
    emit('start a after finish', context.start_cell_translation(a))
    attempt('get_cell unhandled str cell', lambda: context.get_cell(Cell('Data', 'A', '1')))
    attempt('set_cell unhandled str cell', lambda: context.set_cell(Cell('Data', 'A', '1'), '3'))
    attempt('start unhandled str cell', lambda: context.start_cell_translation(Cell('Data', 'A', '1')))
    attempt('row None unhandled: get', lambda: context.get_cell(Cell(0, 2, None)))
    any_row = Cell(0, 2, None)
    handle_cell(any_row, excel.get_titles())
    emit('row None: get', context.get_cell(any_row), 'set', context.set_cell(any_row, '4'), 'get', context.get_cell(any_row))
    emit('row None: start', context.start_cell_translation(any_row))
    attempt('row None: start again', lambda: context.start_cell_translation(any_row))
    attempt('row None: start unhandled', lambda: context.start_cell_translation(Cell(0, 2)))
    emit('sub', context.set_sub_cell(a, 'x'), context.set_sub_cell(a, 'y'), context.set_sub_cell(a, 'x'))
    emit('class sha of hand-driven context', sha(context.build_class()))
    emit(functions_part(context.build_class()))

    # CellTranslator.translate with all the address forms, re-translation, row None
    context = Context()
    context._titles = excel.get_titles()
    context._sheets_size = excel.get_sheets_size()
    for cell in [Cell('Calc', 'B', '2'), Cell('Calc', 'B', '2'), Cell(1, 1, 1), Cell(1, 2, 2), Cell(1, 3, 2),
                 Cell(1, 4, 2), Cell(2, 0, 2), Cell(2, 1, 2), Cell(0, 30, 30), Cell(7, 0, 0), Cell('Calc', 'B'),
                 Cell('Nope', 'A', '1'), Cell(0, 'A', 0), Cell('Data', 'D', '5'), Cell('Data', 'E', '2'),
                 Cell('Data', 'B', '2'), Cell(0, 2, 1)]:
        label = f'translate {cell}'
        code = attempt(label, lambda: CellTranslator.translate(cell, excel, context))
        if code is not None:
            emit(label, '->', code, '| value', show(cell.value), '| handled', cell.has_handled_identifiers())
    text = context.build_class()
    emit('incremental context sha', sha(text), 'cells', sorted(defined_cells(text)))
    emit(functions_part(text))

    # a context that survived a cycle error keeps rejecting the cells that were in progress
    cyc = os.path.join(tmp, 'three.xlsx')
    excel = Excel.parse(cyc)
    context = Context()
    attempt('cycle first', lambda: CellTranslator.translate(Cell(0, 0, 0), excel, context))
    attempt('cycle second (same context)', lambda: CellTranslator.translate(Cell(0, 0, 0), excel, context))
    attempt('cycle other entry (same context)', lambda: CellTranslator.translate(Cell(0, 2, 0), excel, context))
    attempt('cycle whole (same context)', lambda: CellTranslator.translate_file(excel, context))
    emit('after cycle', sorted(defined_cells(context.build_class())))
    part = os.path.join(tmp, 'unreachable_cycle.xlsx')
    excel = Excel.parse(part)
    context = Context()
    emit('good part', CellTranslator.translate(Cell(0, 2, 0), excel, context))
    attempt('bad part', lambda: CellTranslator.translate(Cell(0, 0, 2), excel, context))
    emit('good part again', CellTranslator.translate(Cell(0, 1, 0), excel, context))
    attempt('bad part again', lambda: CellTranslator.translate(Cell(0, 1, 1), excel, context))
    emit('after partial', sorted(defined_cells(context.build_class())))
    emit(functions_part(context.build_class()))


def section_depth(tmp):
    """Longest acyclic chain A1=B1, B1=C1, ... that still translates under a fixed recursion limit:
    a refactoring that adds a call level on the recursive path would move this boundary."""
    emit('== recursion depth boundary ==')
    from openpyxl.utils import get_column_letter

    def translates(n, entry):
        xlsx = os.path.join(tmp, f'chain_{n}.xlsx')
        if not os.path.exists(xlsx):
            build(xlsx, [('S', [[f'={get_column_letter(i + 2)}1' for i in range(n)] + [7]])])
        p = Parser().set_excel_file_path(xlsx)
        if entry:
            p.set_entrypoint_cell(Cell(0, 0, 0))
        old = sys.getrecursionlimit()
        sys.setrecursionlimit(400)
        try:
            p.get_translation()
            return 'ok'
        except RecursionError:
            return 'RecursionError'
        except Exception as e:  # noqa
            return type(e).__name__
        finally:
            sys.setrecursionlimit(old)

    for entry in (False, True):
        results = [(n, translates(n, entry)) for n in range(1, 100)]
        first_bad = next((n for n, r in results if r != 'ok'), None)
        emit('entry' if entry else 'whole', 'first failing chain length', first_bad,
             'outcomes', sorted(set(r for _, r in results)))
        emit('entry' if entry else 'whole', 'per length', results)


def main():
    sys.setrecursionlimit(3000)
    with tempfile.TemporaryDirectory() as tmp:
        section_main(tmp)
        section_cyclic(tmp)
        section_direct(tmp)
        section_depth(tmp)
    text = '\n'.join(OUT) + '\n'
    sys.stdout.write(text)
    sys.stdout.write('DIGEST ' + hashlib.sha256(text.encode('utf-8')).hexdigest() + '\n')


if __name__ == '__main__':
    main()
