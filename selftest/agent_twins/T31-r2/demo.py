"""Equivalence demo for r2 (runtime helper _compare, both copies).

Calls _compare directly on the library class and on a class generated from a workbook, for every pair of
a large set of operands and every operator (known and unknown), and evaluates comparison formulas through
Parser/Executor with and without overrides. Prints values, exception class names and messages.
"""
import datetime
import decimal
import fractions
import hashlib
import itertools
import os
import re
import shutil
import sys
import tempfile

from openpyxl import Workbook

from excel2pycl import Parser, Executor, Cell
from excel2pycl.src.object_loader import load_module
from excel2pycl.src.utilities.abstract_excel_in_python_class import AbstractExcelInPython


class Library(AbstractExcelInPython):
    pass


class Weird:
    """An operand that is neither a number nor a text: only its text can be compared."""

    def __init__(self, text):
        self.text = text

    def __str__(self):
        return self.text

    def __repr__(self):
        return f'Weird({self.text!r})'


class Intish:
    def __int__(self):
        return 4

    def __repr__(self):
        return 'Intish()'


class Floatish:
    def __float__(self):
        return 2.5

    def __repr__(self):
        return 'Floatish()'


class Day(datetime.date):
    pass


def operands(cls):
    return [
        0, 1, -1, 7, 10 ** 30, 10 ** 400, True, False, None,
        0.0, -0.0, 0.5, 3.5, 7.0, 1e308, float('inf'), float('-inf'), float('nan'), 4.9e-324,
        '', ' ', '0', '7', ' 7 ', '7.0', '7,5', '1e3', '-3', '+4', '0x10', '1_000', 'abc', 'ABC', 'Abd', 'text', 'True',
        '2020-01-15', 'nan', 'inf', '٣', '9' * 5000,
        cls.EmptyCell(), cls.EmptyCell(5),
        datetime.date(2020, 1, 15), datetime.date(2020, 1, 16), Day(2020, 1, 15),
        datetime.datetime(2020, 1, 15), datetime.datetime(2020, 1, 15, 12, 30), datetime.datetime(1899, 12, 30),
        datetime.time(1, 2), datetime.timedelta(days=1),
        [], [1], [1, 2], (1,), {}, b'7', bytearray(b'8'),
        decimal.Decimal('7'), decimal.Decimal('7.5'), decimal.Decimal('NaN'), decimal.Decimal('Infinity'),
        fractions.Fraction(7, 2), 1 + 2j, Weird('7'), Weird('abc'), Intish(), Floatish(),
    ]


OPERATORS = ['>=', '>', '<=', '<', '==', '!=']
BAD_OPERATORS = ['=', '<>', '', ' ==', 'eq', None, 5, 2.5, [], ('==',), b'==']

DATA = {
    'A1': 10, 'A2': 3.5, 'A3': 'text', 'A4': True, 'A5': None, 'A6': '7',
    'B1': 0, 'B2': -2, 'B3': '', 'B4': datetime.datetime(2020, 1, 15), 'B5': 0.1, 'B6': datetime.date(2020, 1, 15),
    'C1': 'abc', 'C2': 'ABC', 'C3': False, 'C4': 12.5, 'C5': '0', 'C6': '2020-01-15',
}
CELLS = ['A1', 'A2', 'A3', 'A4', 'A5', 'A6', 'B1', 'B3', 'B4', 'B6', 'C1', 'C2', 'C3', 'C5', 'C6', 'D9']
EXCEL_OPERATORS = ['=', '<>', '<', '<=', '>', '>=']
EXTRA = ['=1<2', '=A1+1>A2*2', '=1+2=3', '=(1=1)=TRUE', '="a"&"b"="ab"', '=0.1+0.2=0.3', '=50%=0.5', '=1<2<3',
         '=A1=10=TRUE', '=IF(A1>5;"big";"small")', '=IF(A5=0;1;2)', '=IF(A5="";1;2)', '=IF(B4>B6;1;2)',
         '=IF(B4>=B6;1;2)', '=SUM(A1:A2)>13', '=A1&A2="103.5"', '=TODAY()>B4', '=DATE(2020;1;15)=B4',
         '=DATE(2020;1;15)=B6', '=A3<"u"', '=-A1<0', '=A1%<1', '=1<"1"', '="1"<1', '=TRUE>FALSE', '=A4=1']
OVERRIDES = [
    [],
    [('A', '1', '5'), ('A', '5', 2)],
    [('A', '1', None), ('A', '2', 0), ('A', '3', 4)],
    [('A', '1', datetime.date(2020, 1, 15)), ('A', '5', ''), ('B', '1', 'abc'), ('C', '1', 'ABC')],
    [('A', '1', True), ('A', '2', datetime.datetime(2021, 2, 3)), ('A', '5', 'z'), ('B', '4', datetime.date(2020, 1, 15))],
    [('A', '1', float('nan')), ('A', '2', float('inf')), ('A', '6', ' 7 '), ('D', '9', [1])],
]

out = []


def emit(*parts):
    out.append(' | '.join(str(p) for p in parts))


def show(value):
    return f'{type(value).__name__}:{value!r}'[:120]


def attempt(function):
    try:
        return 'ok', function()
    except BaseException as e:  # noqa
        if isinstance(e, (KeyboardInterrupt, SystemExit)):
            raise
        return 'exc', f'{type(e).__qualname__}: {str(e)[:200]}'


def members(text):
    return re.findall(r'    def (_\w+)\(self\):\n        return (.*)', text)


def matrix(label, instance):
    values = operands(type(instance))
    for (i, left), (j, right) in itertools.product(enumerate(values), repeat=2):
        results = []
        for operator in OPERATORS:
            before = (repr(left)[:60], repr(right)[:60])
            status, result = attempt(lambda: instance._compare(operator, left, right))
            results.append(show(result) if status == 'ok' else result)
            if (repr(left)[:60], repr(right)[:60]) != before:
                results.append('MUTATED')
        emit(label, i, j, *results)
    for operator in BAD_OPERATORS:
        for left, right in [(1, 2), ('a', 'b'), (1, 'b'), (datetime.date(2020, 1, 1), 'b'), (None, []),
                            (type(instance).EmptyCell(), 0)]:
            emit(label, 'BAD', repr(operator), repr(left), repr(right),
                 *attempt(lambda: show(instance._compare(operator, left, right))))
        emit(label, 'BAD-BY', repr(operator), *attempt(lambda: show(instance._by_operator(operator, 1, 2))))
    # the date operand stays promoted when the comparison falls back to texts
    for left, right in [(datetime.date(2020, 1, 15), '2020-01-15'), (datetime.date(2020, 1, 15), '2020-01-15 00:00:00'),
                        ('2020-01-15 00:00:00', datetime.date(2020, 1, 15)), (Day(2020, 1, 15), 'x'),
                        (datetime.date(2020, 1, 15), Weird('2020-01-15 00:00:00'))]:
        for operator in OPERATORS:
            emit(label, 'DATE-TEXT', operator, repr(left), repr(right),
                 *attempt(lambda: show(instance._compare(operator, left, right))))


def main():
    tmp = tempfile.mkdtemp(prefix='t31r2_')
    try:
        formulas = [f'={a}{op}{b}' for a in CELLS for b in CELLS for op in EXCEL_OPERATORS] + EXTRA
        xlsx = os.path.join(tmp, 'book.xlsx')
        wb = Workbook()
        ws = wb.active
        ws.title = 'S'
        for address, value in DATA.items():
            ws[address] = value
        for i, formula in enumerate(formulas):
            ws.cell(row=i + 1, column=6).value = formula
        wb.save(xlsx)

        py = os.path.join(tmp, 'book.py')
        parser = Parser().set_excel_file_path(xlsx).disable_safety_check()
        parser.write_translation(py)
        text = parser.get_translation()
        compile(text, 'translation', 'exec')
        for name, code in members(text):
            emit('MEMBER', name, code)

        generated = load_module(py).ExcelInPython()
        matrix('LIBRARY', Library())
        matrix('GENERATED', generated)

        namespace = {}
        exec(compile(text, 'translation', 'exec'), namespace)
        for n, override in enumerate(OVERRIDES):
            for source in ('file', 'object'):
                if source == 'file':
                    executor = Executor().set_executed_class(class_file=py)
                else:
                    executor = Executor().set_executed_class(class_object=namespace['ExcelInPython'])
                if override:
                    executor.set_cells([Cell('S', c, r, value=v) for c, r, v in override])
                for i, formula in enumerate(formulas):
                    if source == 'object' and i % 7:
                        continue
                    emit('EXEC', source, n, formula.replace('\n', ' '),
                         *attempt(lambda: show(executor.get_cell(Cell(0, 5, i)).value)))

        # chains of comparisons: row n compares row n-1; the deepest row that still evaluates
        assert sys.getrecursionlimit() == 1000
        length = 700
        links = {'A': '=A{n}>0', 'B': '=IF(B{n}>=1;1;2)', 'C': '=C{n}<>"x"', 'D': '=(D{n}=1)&""', 'E': '=1<E{n}'}
        chain = os.path.join(tmp, 'chain.xlsx')
        wb = Workbook()
        ws = wb.active
        for column, link in links.items():
            ws[f'{column}1'] = 1
            for n in range(2, length + 1):
                ws[f'{column}{n}'] = link.format(n=n - 1)
        wb.save(chain)
        chain_py = os.path.join(tmp, 'chain.py')
        Parser().set_excel_file_path(chain).disable_safety_check().write_translation(chain_py)
        bases = [('as written', None), ('blank', [None]), ('text', ['x']), ('date', [datetime.date(2020, 1, 15)]),
                 ('float', [0.5]), ('list', [[1]])]
        for base_label, base in bases:
            executor = Executor().set_executed_class(class_file=chain_py)
            if base is not None:
                executor.set_cells([Cell(0, c, 0, value=base[0]) for c in range(len(links))])
            for c, column in enumerate(links):
                def evaluates(row):
                    return attempt(lambda: show(executor.get_cell(Cell(0, c, row)).value))
                for row in (0, 1, 2, 3, 50):
                    emit('CHAIN', base_label, column, row, *evaluates(row))
                low, high = 0, length - 1
                emit('CHAIN', base_label, column, high, *evaluates(high))
                while high - low > 1:
                    middle = (low + high) // 2
                    if evaluates(middle)[1].startswith('RecursionError'):
                        high = middle
                    else:
                        low = middle
                emit('CHAIN', base_label, column, 'deepest', low, *evaluates(low), 'next', *evaluates(high))
    finally:
        shutil.rmtree(tmp, ignore_errors=True)

    body = '\n'.join(out)
    print(body)
    print('LINES', len(out))
    print('DIGEST', hashlib.sha256(body.encode('utf-8')).hexdigest())


if __name__ == '__main__':
    main()
    sys.exit(0)
