"""Equivalence demo for the Excel reader clean-up (C03: the dependency closure reaches cells through
single references, ranges, matrices and whole columns, across sheets; cycles are rejected).

Calls Excel.fill_cell / get_range / get_matrix / get_cells / get_similar_second directly on many (also
malformed) coordinates, and translates workbooks whole and from entry cells; prints a deterministic digest.
"""
import warnings
warnings.simplefilter("ignore")

import hashlib
import itertools
import os
import re
import shutil
import tempfile

from openpyxl import Workbook

from excel2pycl import Parser, Executor, Cell
from excel2pycl.src.excel import Excel

TMP = tempfile.mkdtemp(prefix='t33r2_')


def h(text):
    return hashlib.sha256(text.encode('utf-8')).hexdigest()[:16]


def show(value):
    return f'{type(value).__name__}:{value!r}'


def cells_repr(obj):
    if isinstance(obj, list):
        return '[' + ', '.join(cells_repr(i) for i in obj) + ']'
    if isinstance(obj, Cell):
        return f'({obj.title},{obj.column},{obj.row},{obj.value!r},{obj._handled_identifiers})'
    return repr(obj)


def build(name, sheets):
    wb = Workbook()
    for index, (title, rows) in enumerate(sheets):
        ws = wb.active if index == 0 else wb.create_sheet(title)
        ws.title = title
        for row in rows:
            ws.append(row)
    path = os.path.join(TMP, name)
    wb.save(path)
    wb.close()
    return path


def run(label, fn):
    try:
        print(label, 'OK', fn())
    except BaseException as e:  # noqa
        print(label, 'EXC', type(e).__name__, str(e)[:200])


def functions_of(text):
    return dict(re.findall(r'^    def (_\d+_\d+_\d+(?:_\d+)?)\(self\):\n        return (.*)$', text, re.M))


MAIN = [
    [1, '=A1+1', '=SUM(A1:A4)', '=SUM(A1:B3)', "='Other sheet'!A1*2", '=SUM(A:A)'],
    [2, '=B1*A2', '=SUM(A1:D1)', '=VLOOKUP(3, A1:B4, 2, FALSE())', '=aux!B2+E1', '=SUM(A:B)'],
    [3, '=IF(A3>2, B2, A1)', '=SUMIF(A1:A4, ">1")', '=MAX(A:A)', '=SUM(aux!A1:A3)', "=SUM('Other sheet'!A:A)"],
    [4, 'text', '=COUNT(A1:B4)', '=AVERAGE(A1:A4)', "=SUM('Other sheet'!A1:B2)", '=INDEX(A1:B4, 2, 2)'],
    [None, '=A5', '=Z99', '=MIN(B1:B3)+C1', '=E1+E2+E3+E4', '=SUM(A4:A9)+SUM(A5:E5)'],
    ['=1+2', '="a"&"b"', '=TRUE()', '=ROUND(D4/3, 2)', '=IFERROR(A1/0, 7)', '=COUNTIFS(A1:A4, ">1", B1:B4, ">2")'],
]
OTHER = [[10, '=A1+main!A1'], ['=B1+1', '=SUM(main!A1:A4)+A2'], [None, None, 5]]
AUX = [[5, 6], [7, "=A1+A2+'Other sheet'!B2"], ['=main!E1', 9]]
good = build('good.xlsx', [('main', MAIN), ('Other sheet', OTHER), ('aux', AUX), ('empty', [])])

excel = Excel.parse(good)
print('titles', excel.get_titles(), 'sizes', excel.get_sheets_size())
print('data', h(repr(excel._data)))
run('get_cells', lambda: h(cells_repr(excel.get_cells())) + ' ' + str(len(excel.get_cells())))
print('get_cells order', [(c.title, c.column, c.row) for c in excel.get_cells()][:12])

# ---------------------------------------------------------------- fill_cell on a grid of coordinates incl. outside
coords = [-2, -1, 0, 1, 2, 3, 5, 6, 7, 50]
for t, c, r in itertools.product([-1, 0, 1, 2, 3, 4], coords, coords):
    cell = Cell(t, c, r, value='untouched')
    try:
        excel.fill_cell(cell)
        out = cells_repr(cell)
    except BaseException as e:  # noqa
        out = f'EXC {type(e).__name__} {e} / {cells_repr(cell)}'
    print('fill', t, c, r, out)
for cell in [Cell('main', 'A', '1'), Cell('Other sheet', 'C', '3'), Cell('aux', 'B', ''), Cell('aux', 'B', None),
             Cell(0, 'A', 1), Cell(0, 0, '1'), Cell('zzz', 'A', '1'), Cell('main', 'XFD', '1048576'),
             Cell(0, 0, None), Cell('main', 0, 0), Cell(0.0, 0, 0), Cell(0, 1.0, 1), Cell(None, 0, 0)]:
    cell.value = 'untouched'
    run(f'fill* {cell}', lambda: cells_repr(excel.fill_cell(cell)))
    print('   after', cells_repr(cell))
    run(f'_fill* {cell}', lambda: cells_repr(excel._fill_cell(cell)))
    print('   after', cells_repr(cell))

# ---------------------------------------------------------------- get_range / get_matrix
pairs = []
for a, b in itertools.product([('A', '1'), ('A', '4'), ('B', '2'), ('D', '1'), ('H', '9'), ('A', None), ('C', None),
                               ('A', ''), ('B', '1')], repeat=2):
    pairs.append((a, b))
for (ca, ra), (cb, rb) in pairs:
    for ta, tb in [('main', 'main'), ('Other sheet', 'Other sheet'), ('main', 'aux'), ('empty', 'empty')]:
        run(f'range {ta}!{ca}{ra}:{tb}!{cb}{rb}',
            lambda: cells_repr(excel.get_range(Cell(ta, ca, ra), Cell(tb, cb, rb))))
        run(f'matrix {ta}!{ca}{ra}:{tb}!{cb}{rb}',
            lambda: cells_repr(excel.get_matrix(Cell(ta, ca, ra), Cell(tb, cb, rb))))
for first, second in [(Cell(0, 0, 0), Cell(0, 0, 3)), (Cell(0, 0, 3), Cell(0, 0, 0)), (Cell(0, 3, 1), Cell(0, 0, 1)),
                      (Cell(0, 0, -2), Cell(0, 1, 1)), (Cell(0, -2, 0), Cell(0, 1, 0)), (Cell(9, 0, 0), Cell(9, 0, 2)),
                      (Cell(9, 0, 0), Cell(9, 2, 0)), (Cell(9, 0, 0), Cell(9, 2, 2)), (Cell(0, 0, 2), Cell(0, 0, None)),
                      (Cell(0, 0, None), Cell(0, 0, 2)), (Cell(0, 0, 2), Cell(0, 3, None)),
                      (Cell(0, 0, 'x'), Cell(0, 0, '2')), (Cell(0, 0, 1), Cell(0, 'B', 1))]:
    for c in (first, second):
        if type(c.column) is int and (c.row is None or type(c.row) is int):
            c._handled_identifiers = True
    for name in ('get_range', 'get_matrix', '_get_vertical_range', '_get_horizontal_range', '_get_matrix'):
        run(f'{name} {first} {second}', lambda: cells_repr(getattr(excel, name)(first, second)))
run('similar', lambda: cells_repr(excel.get_similar_second(Cell('main', 'A', '1'), Cell('aux', 'A', '1'), Cell('aux', 'B', '3'))))
run('similar col', lambda: cells_repr(excel.get_similar_second(Cell('main', 'A', ''), Cell('aux', 'A', ''), Cell('aux', 'B', ''))))

# ---------------------------------------------------------------- translation: whole file versus entry cells
whole_text = Parser().set_excel_file_path(good).get_translation()
print('whole', h(whole_text), len(functions_of(whole_text)))
whole_py = os.path.join(TMP, 'whole.py')
Parser().set_excel_file_path(good).write_translation(whole_py)
whole = Executor().set_executed_class(class_file=whole_py)
values = {}
for sheet, rows in enumerate((MAIN, OTHER, AUX)):
    for r in range(len(rows) + 2):
        for c in range(8):
            try:
                values[(sheet, c, r)] = show(whole.get_cell(Cell(sheet, c, r)).value)
            except BaseException as e:  # noqa
                values[(sheet, c, r)] = 'EXC ' + type(e).__name__
            print('value', sheet, c, r, values[(sheet, c, r)])
for sheet, rows in enumerate((MAIN, OTHER, AUX)):
    for r in range(len(rows)):
        for c in range(len(MAIN[0]) if sheet == 0 else 3):
            try:
                text = Parser().set_excel_file_path(good).set_entrypoint_cell(Cell(sheet, c, r)).get_translation()
            except BaseException as e:  # noqa
                print('entry', sheet, c, r, 'EXC', type(e).__name__, e)
                continue
            out = os.path.join(TMP, 'entry.py')
            with open(out, 'w', encoding='utf-8') as f:
                f.write(text)
            ex = Executor().set_executed_class(class_file=out)
            fns = functions_of(text)
            agree = []
            for name in sorted(fns):
                parts = name.split('_')[1:]
                if len(parts) == 3:
                    key = tuple(map(int, parts))
                    try:
                        v = show(ex.get_cell(Cell(*key)).value)
                    except BaseException as e:  # noqa
                        v = 'EXC ' + type(e).__name__
                    if key not in values:
                        values[key] = show(whole.get_cell(Cell(*key)).value)
                    agree.append(v == values[key])
            print('entry', sheet, c, r, h(text), len(fns), all(agree), h(repr(sorted(fns.items()))))
            os.remove(out)

# ---------------------------------------------------------------- cyclic and malformed workbooks
BAD = {
    'self_range': [('s', [['=SUM(A1:A3)'], [1], [2]])],
    'self_matrix': [('s', [[1, 2], [3, '=SUM(A1:B2)']])],
    'self_column': [('s', [[1, '=SUM(B:B)']])],
    'column_far': [('s', [[1, '=SUM(A:A)'], ['=B1', 2]])],
    'two_sheets': [('s', [['=SUM(t!A1:B1)']]), ('t', [[1, '=s!A1']])],
    'diagonal': [('s', [[1, 2, '=SUM(A1:B2)'], [3, 4, '=VLOOKUP(1, A1:B2, 2, FALSE())']])],
    'cross_range': [('s', [['=SUM(A1:t!A2)']]), ('t', [[1], [2]])],
    'outside': [('s', [['=SUM(C5:D9)', '=SUM(A7:A9)', '=SUM(H1:K1)']])],
    'ragged': [('s', [[1], [1, 2, 3], [None, None, None, '=SUM(A1:D2)', '=SUM(A:D)']])],
}
for name, sheets in BAD.items():
    path = build(f'bad_{name}.xlsx', sheets)
    run(f'bad {name} data', lambda: h(repr(Excel.parse(path)._data)) + ' ' + repr(Excel.parse(path).get_sheets_size()))
    run(f'bad {name} whole', lambda: h(Parser().set_excel_file_path(path).get_translation()))
    for sheet_index, (title, rows) in enumerate(sheets):
        for r, row in enumerate(rows):
            for c in range(len(row)):
                run(f'bad {name} entry {sheet_index},{c},{r}', lambda: h(
                    Parser().set_excel_file_path(path).set_entrypoint_cell(Cell(sheet_index, c, r)).get_translation()))

shutil.rmtree(TMP)
print('tmp removed', not os.path.exists(TMP))
