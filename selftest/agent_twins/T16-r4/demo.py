"""Equivalence demo for r4 (runtime _sumifs/_countifs/_averageifs: bool-cast lambda extracted into a
method, masking loops iterate with enumerate).

Calls the three conditional aggregates directly on both copies of the runtime class (the generated
ExcelInPython class and AbstractExcelInPython) with hand-made and pseudo-random ranges / criteria
(including criteria that raise, mismatched sizes, dangling ranges, bools, blanks, texts), records
the order in which criteria are invoked, and evaluates a workbook of SUMIFS / COUNTIFS /
AVERAGEIFS / SUMIF formulas through the generated class.
"""
import datetime
import os
import random
import re
import shutil
import tempfile

from openpyxl import Workbook

from excel2pycl import Parser, Executor, Cell
from excel2pycl.src.utilities.abstract_excel_in_python_class import AbstractExcelInPython


class Runtime(AbstractExcelInPython):
    pass


def show(value):
    if isinstance(value, float):
        return 'float:' + repr(round(value, 12))
    return type(value).__name__ + ':' + repr(value)


def attempt(function):
    try:
        return show(function())
    except BaseException as error:  # noqa
        return 'EXC ' + type(error).__name__ + ' ' + str(error)


def build_workbook(path):
    wb = Workbook()
    ws = wb.active
    ws.title = 'S'
    rows = [
        [1, 'apple', 10, 5, True],
        [5, 'Apple', 20, '5', False],
        [7, 'banana', 30, None, True],
        [2.5, 'a*c', 40, True, None],
        [10, 'abc', 50, 'x', 1],
        [None, 'a?c', 60, 0, 0],
        [5, '', 70, 5.0, 'TRUE'],
        [100, 'x', 80, -1, True],
        [0.001, 'APPLE pie', True, 1e3, False],
        [250, 'b', 100, 0.025, 2],
    ]
    for r, row in enumerate(rows, start=1):
        for c, value in enumerate(row, start=1):
            if value is not None:
                ws.cell(row=r, column=c, value=value)
    formulas = [
        '=SUMIFS(S!C1:C10,S!A1:A10,">1")', '=SUMIFS(S!C1:C10,S!A1:A10,">1",S!A1:A10,"<100")',
        '=SUMIFS(S!C1:C10,S!B1:B10,"apple")', '=SUMIFS(S!C1:C10,S!B1:B10,"a*")', '=SUMIFS(S!C1:C10,S!B1:B10,"a~*c")',
        '=SUMIFS(S!C1:C10,S!B1:B10,"a?c",S!A1:A10,"<>10")', '=SUMIFS(S!C1:C10,S!E1:E10,TRUE)',
        '=SUMIFS(S!C1:C10,S!E1:E10,1)', '=SUMIFS(S!C1:C10,S!E1:E10,0)', '=SUMIFS(S!C1:C10,S!A1:A10,0)',
        '=SUMIFS(S!C1:C10,S!A1:A10,5)', '=SUMIFS(S!C1:C10,S!A1:A10,"<>5")', '=SUMIFS(S!C1:C10,S!A1:A10,"=5")',
        '=SUMIFS(S!E1:E10,S!A1:A10,">0")', '=SUMIFS(S!A1:A10,S!E1:E10,TRUE)', '=SUMIFS(S!C1:C10,S!A1:A9,">1")',
        '=SUMIFS(S!C1:C10,S!A1:A10,">1",S!B1:B9,"x")', '=SUMIFS(S!C1:D10,S!A1:B10,">1")',
        '=SUMIFS(S!C1:D5,S!A1:B5,"apple")', '=SUMIFS(S!A1:A10,S!A1:A10,">"&S!A2)', '=SUMIFS(S!C1:C10,S!D1:D10,5)',
        '=SUMIFS(S!C1:C10,S!D1:D10,">0")', '=SUMIFS(S!C1:C10,S!C1:C10,">25",S!C1:C10,"<75")',
        '=COUNTIFS(S!A1:A10,">1")', '=COUNTIFS(S!A1:A10,">1",S!B1:B10,"<>x")', '=COUNTIFS(S!B1:B10,"apple")',
        '=COUNTIFS(S!B1:B10,"a*")', '=COUNTIFS(S!B1:B10,"?")', '=COUNTIFS(S!B1:B10,"")', '=COUNTIFS(S!A1:A10,0)',
        '=COUNTIFS(S!A1:A10,"<>0")', '=COUNTIFS(S!E1:E10,TRUE)', '=COUNTIFS(S!E1:E10,1)', '=COUNTIFS(S!E1:E10,0)',
        '=COUNTIFS(S!A1:A10,">1",S!B1:B9,"x")', '=COUNTIFS(S!A1:B10,">5")', '=COUNTIFS(S!A1:B5,"apple",S!C1:D5,">5")',
        '=COUNTIFS(S!D1:D10,5)', '=COUNTIFS(S!D1:D10,"5")', '=COUNTIFS(S!A1:A10,">"&S!A1,S!A1:A10,"<"&S!A8)',
        '=AVERAGEIFS(S!C1:C8,S!A1:A8,">1")', '=AVERAGEIFS(S!C1:C8,S!A1:A8,">1",S!B1:B8,"<>x")',
        '=AVERAGEIFS(S!C1:C10,S!A1:A10,">1")', '=AVERAGEIFS(S!C1:C8,S!B1:B8,"apple")',
        '=AVERAGEIFS(S!C1:C8,S!B1:B8,"zzz")', '=AVERAGEIFS(S!C1:C8,S!E1:E8,TRUE)', '=AVERAGEIFS(S!C1:C8,S!E1:E8,1)',
        '=AVERAGEIFS(S!C1:C8,S!E1:E8,0)', '=AVERAGEIFS(S!E1:E3,S!A1:A3,">0")', '=AVERAGEIFS(S!A1:A8,S!C1:C8,">0")',
        '=AVERAGEIFS(S!A1:A5,S!C1:C5,">0")', '=AVERAGEIFS(S!B1:B8,S!A1:A8,">1")', '=AVERAGEIFS(S!C1:C8,S!A1:A7,">1")',
        '=AVERAGEIFS(S!C1:D4,S!A1:B4,">1")', '=AVERAGEIFS(S!C1:C8,S!A1:A8,0)', '=AVERAGEIFS(S!G1:G3,S!A1:A3,">0")',
        '=SUMIF(S!A1:A10,">1",S!C1:C10)', '=SUMIF(S!B1:B10,"apple",S!C1:C10)', '=SUMIF(S!A1:A10,">1")',
        '=SUMIF(S!E1:E10,TRUE,S!C1:C10)',
        '=SUMIFS(S!C1:C10,S!A1:A10,">1")-SUMIF(S!A1:A10,">1",S!C1:C10)',
        '=SUMIFS(S!C1:C8,S!A1:A8,">1")/COUNTIFS(S!A1:A8,">1")-AVERAGEIFS(S!C1:C8,S!A1:A8,">1")',
    ]
    fs = wb.create_sheet('F')
    for row, formula in enumerate(formulas, start=1):
        fs.cell(row=row, column=1, value=formula)
    wb.save(path)
    return formulas


def make_criteria(runtime, log):
    def logged(name, function):
        def wrapper(x):
            log.append(name + '(' + show(x) + ')')
            return function(x)
        return wrapper

    def bad(x):
        raise KeyError('criterion failed')

    return {
        'gt1': logged('gt1', lambda x: x > 1),
        'lt100': logged('lt100', lambda x: x < 100),
        'eq0': logged('eq0', lambda x: x == 0),
        'ne5': logged('ne5', lambda x: x != 5),
        'eq1': logged('eq1', lambda x: x == 1),
        'true': logged('true', lambda x: True),
        'false': logged('false', lambda x: False),
        'none': logged('none', lambda x: None),
        'isint': logged('isint', lambda x: type(x) is int),
        'isbool': logged('isbool', lambda x: isinstance(x, bool)),
        'isempty': logged('isempty', lambda x: isinstance(x, runtime.EmptyCell)),
        'apple': logged('apple', lambda x: str(x).lower() == 'apple'),
        'wild': logged('wild', lambda x: re.fullmatch(runtime._regexp('a*'), str(x), re.I | re.S)),
        'bad': logged('bad', bad),
    }


def direct_cases(runtime):
    empty = runtime.EmptyCell()
    day = datetime.datetime(2024, 2, 29)
    nums = [[1], [5], [7], [2.5], [10], [empty], [5], [100]]
    target = [[10], [20], [30], [40], [50], [60], [70], [80]]
    mixed = [[True], [False], [empty], ['apple'], ['Apple'], [0], [1], [None]]
    texts = [['apple'], ['Apple'], ['banana'], ['a*c'], ['abc'], [''], [empty], ['x']]
    booltarget = [[True], [2], [False], [4], [True], [6], [empty], [8]]
    texttarget = [[1], ['a'], [3], [4], [5], [6], [7], [8]]
    nonetarget = [[1], [None], [3], [None], [5], [6], [True], [8]]
    cases = [
        (target, [nums, 'gt1']), (target, [nums, 'gt1', nums, 'lt100']), (target, [nums, 'eq0']),
        (target, [mixed, 'eq1']), (target, [mixed, 'eq0']), (target, [mixed, 'isint']), (target, [mixed, 'isbool']),
        (target, [mixed, 'isempty']), (target, [texts, 'apple']), (target, [texts, 'wild']),
        (target, [texts, 'gt1']), (target, [nums, 'gt1', texts, 'gt1']), (target, [nums, 'false', texts, 'gt1']),
        (target, [nums, 'bad']), (target, [nums, 'true', nums, 'bad']), (target, [nums, 'none']),
        (booltarget, [nums, 'gt1']), (booltarget, [nums, 'true']), (booltarget, [nums, 'false']),
        (texttarget, [nums, 'true']), (texttarget, [nums, 'gt1']), (nonetarget, [nums, 'true']),
        (nonetarget, [nums, 'gt1']), (nums, [nums, 'true']), (nums, [nums, 'ne5']), (mixed, [mixed, 'true']),
        (texts, [texts, 'true']), ([[day], [1]], [[[1], [2]], 'true']),
        (target, []), ([], []), ([[]], [[[]], 'true']), ([], [[], 'true']),
        (target, [nums]), (target, [nums, 'gt1', nums]), (target, [nums[:7], 'gt1']),
        (target, [nums, 'gt1', nums[:3], 'gt1']), (target[:3], [nums, 'gt1']), (target, [[], 'gt1']),
        ([[10, 20], [30, 40]], [[[1, 2], [3, 4]], 'gt1']), ([[10, 20], [30, 40]], [[1, 2, 3, 4], 'gt1']),
        ([10, 20, 30, 40], [[[1, True], [empty, 4]], 'eq1']), ([[10, 20], [30, 40]], [[[1, 2, 3]], 'gt1']),
        ('abc', ['xyz', 'true']), ('', ['', 'true']), (empty, [empty, 'true']), (None, [nums, 'true']),
        (5, [nums, 'true']), (target, [None, 'true']), (target, [nums, None]), (target, [nums, 5]),
        (target, ['gt1', nums]), ((1, 2), [(1, 2), 'true']), ([1, 2], [(3, 4), 'gt1']),
        ([[1.5], [2.5], [3.5]], [[[1], [2], [3]], 'gt1']), ([[True], [True]], [[[True], [False]], 'eq1']),
        ([[empty], [1]], [[[1], [1]], 'true']), ([[empty], [1]], [[[0], [1]], 'eq1']),
        ([['1'], ['2']], [[[1], [2]], 'true']), ([['1'], ['x']], [[[1], [2]], 'true']),
        ([[float('nan')], [1]], [[[1], [2]], 'true']), ([[float('inf')], [1]], [[[1], [2]], 'true']),
    ]
    rnd = random.Random(1612)
    pool = [0, 1, 2, 5, -3, 2.5, 100, True, False, empty, '', 'apple', 'Apple', 'abc', 'x', '5', None, day]
    names = ['gt1', 'lt100', 'eq0', 'ne5', 'eq1', 'true', 'false', 'isint', 'isbool', 'isempty', 'apple', 'wild']
    for _ in range(250):
        size = rnd.randint(0, 6)
        def column(n):
            return [[rnd.choice(pool)] for _i in range(n)]
        rng = column(size)
        args = []
        for _j in range(rnd.randint(0, 3)):
            args.append(column(size if rnd.random() < 0.9 else size + 1))
            args.append(rnd.choice(names))
        if rnd.random() < 0.05:
            args.append(column(size))
        cases.append((rng, args))
    return cases


def run_direct(label, runtime):
    log = []
    criteria = make_criteria(runtime, log)
    for number, (rng, args) in enumerate(direct_cases(runtime)):
        resolved = [criteria[a] if isinstance(a, str) and a in criteria else a for a in args]
        import copy
        for name, call in [
            ('sumifs', lambda: runtime._sumifs(copy.deepcopy(rng), *resolved)),
            ('countifs_all', lambda: runtime._countifs(copy.deepcopy(rng), lambda x: True, *resolved)),
            ('countifs_num', lambda: runtime._countifs(copy.deepcopy(rng), criteria['isint'], *resolved)),
            ('averageifs', lambda: runtime._averageifs(copy.deepcopy(rng), *resolved)),
        ]:
            del log[:]
            result = attempt(call)
            print(label, number, name, result, '| calls', len(log), ' '.join(log)[:400])


def main():
    tmp = tempfile.mkdtemp(prefix='r4demo')
    try:
        xlsx = os.path.join(tmp, 'book.xlsx')
        out_py = os.path.join(tmp, 'book_translation.py')
        formulas = build_workbook(xlsx)
        Parser().set_excel_file_path(xlsx).write_translation(out_py)
        executor = Executor().set_executed_class(class_file=out_py)
        for row, formula in enumerate(formulas, start=1):
            print(formula, '->', attempt(lambda: executor.get_cell(Cell('F', 'A', str(row))).value))
        executor.set_cells([Cell('S', 'A', '6', value=6), Cell('S', 'E', '4', value=True),
                            Cell('S', 'C', '9', value=90), Cell('S', 'B', '7', value='apple'),
                            Cell('S', 'C', '2', value=False), Cell('S', 'A', '1', value=True)])
        for row, formula in enumerate(formulas, start=1):
            print('override', formula, '->', attempt(lambda: executor.get_cell(Cell('F', 'A', str(row))).value))
        generated = executor.get_executed_class()
        for label, runtime in (('generated', generated), ('class', Runtime())):
            print(label, 'bool cast', attempt(lambda: runtime._when_cell_is_empty_cast_to_zero(
                [runtime.EmptyCell(), True, 0, 'a'])))
            run_direct(label, runtime)
    finally:
        shutil.rmtree(tmp, ignore_errors=True)


if __name__ == '__main__':
    main()
