"""Equivalence demo for r1: LEFT / RIGHT (shared helper extraction), both runtime copies.

Run as: PYTHONPATH=<tree> /venv/bin/python demo.py
Prints a deterministic digest; must be identical on the unchanged and the refactored tree.
"""
import datetime
import hashlib
import os
import re
import tempfile
import warnings

warnings.simplefilter('ignore')

from openpyxl import Workbook

from excel2pycl import Parser, Executor, Cell
from excel2pycl.src.utilities.abstract_excel_in_python_class import AbstractExcelInPython


class Direct(AbstractExcelInPython):
    pass


def show(value):
    return f'{type(value).__name__}:{value!r}'


def call(func, *args):
    try:
        return show(func(*args))
    except BaseException as exc:  # noqa - the class name is the observable
        return f'raises {type(exc).__name__}'


lines = []


def emit(line):
    lines.append(line)
    print(line)


# ---------------------------------------------------------------- workbook
TEXTS = ['', 'a', 'ab', 'Hello World', 'привет мир', '  spaced  ', 'x' * 40, '12345', 'a~b*c?d']
COUNTS = [-3, -1, 0, 1, 2, 3, 5, 10, 11, 12, 39, 40, 41, 200]

wb = Workbook()
ws = wb.active
ws.title = 'Texts'
# column A: texts; B..: LEFT, then RIGHT, for every count; then one-arg forms
for r, text in enumerate(TEXTS, start=1):
    ws.cell(row=r, column=1, value=text if text != '' else None)
    col = 2
    for n in COUNTS:
        ws.cell(row=r, column=col, value=f'=LEFT(A{r},{n})')
        ws.cell(row=r, column=col + 1, value=f'=RIGHT(A{r},{n})')
        col += 2
    ws.cell(row=r, column=col, value=f'=LEFT(A{r})')
    ws.cell(row=r, column=col + 1, value=f'=RIGHT(A{r})')
    # substring algebra: LEFT(t,n) & MID(t,n+1,len) rebuilds t ; nested forms
    ws.cell(row=r, column=col + 2, value=f'=LEFT(A{r},2)&MID(A{r},3,100)')
    ws.cell(row=r, column=col + 3, value=f'=RIGHT(LEFT(A{r},5),2)')
    ws.cell(row=r, column=col + 4, value=f'=LEFT(RIGHT(A{r},4),3)&"|"&RIGHT(A{r},1)')
    ws.cell(row=r, column=col + 5, value=f'=CONCATENATE(LEFT(A{r},1),"-",RIGHT(A{r},1))')
    ws.cell(row=r, column=col + 6, value=f'=LEFT(A{r},5/2)')
    ws.cell(row=r, column=col + 7, value=f'=RIGHT(A{r},1000/3)')
    ws.cell(row=r, column=col + 8, value=f'=IFERROR(LEFT(A{r},1.5),"err")')
    ws.cell(row=r, column=col + 9, value=f'=IFERROR(RIGHT(A{r},1.5),"err")')
LAST_COL = 1 + 2 * len(COUNTS) + 10

ws2 = wb.create_sheet('Mixed')
ws2['A1'] = 12345
ws2['A2'] = 3.25
ws2['A3'] = True
ws2['A4'] = datetime.datetime(2024, 2, 29, 10, 30)
ws2['A5'] = None
ws2['A6'] = 'text'
for r in range(1, 7):
    ws2.cell(row=r, column=2, value=f'=LEFT(A{r},2)')
    ws2.cell(row=r, column=3, value=f'=RIGHT(A{r},2)')
    ws2.cell(row=r, column=4, value=f'=LEFT(A{r})')
    ws2.cell(row=r, column=5, value=f'=RIGHT(A{r})')
    ws2.cell(row=r, column=6, value=f'=LEFT("const",A{r})')
    ws2.cell(row=r, column=7, value=f'=RIGHT("const",A{r})')
    ws2.cell(row=r, column=8, value=f'=LEFT(A{r},-1)')
    ws2.cell(row=r, column=9, value=f'=RIGHT(A{r},0)')

tmp = tempfile.mkdtemp(prefix='t09r1_')
xlsx = os.path.join(tmp, 'book.xlsx')
out_py = os.path.join(tmp, 'book_translated.py')
wb.save(xlsx)

parser = Parser().set_excel_file_path(xlsx)
parser.write_translation(out_py)
translation = parser.get_translation()

# the per-cell functions must be textually identical (only the runtime helper body may differ)
cell_functions = re.findall(r'^    def (_\d+_\d+_\d+(?:_\d+)?)\(self\):\n        return (.*)$', translation, flags=re.M)
emit(f'cell functions: {len(cell_functions)}')
emit('cell functions sha256: ' + hashlib.sha256(repr(cell_functions).encode()).hexdigest())

executor = Executor().set_executed_class(class_file=out_py)
emit(f'titles: {executor.get_executed_class().get_titles()}')
emit(f'sizes: {executor.get_executed_class().get_sheets_size()}')


def cell_value(sheet, column, row):
    try:
        return show(executor.get_cell(Cell(sheet, column, row)).value)
    except BaseException as exc:  # noqa
        return f'raises {type(exc).__name__}'


emit('== workbook, sheet Texts')
for r in range(len(TEXTS)):
    for c in range(LAST_COL):
        emit(f'Texts[{c},{r}] = {cell_value(0, c, r)}')
emit('== workbook, sheet Mixed')
for r in range(6):
    for c in range(9):
        emit(f'Mixed[{c},{r}] = {cell_value(1, c, r)}')

emit('== overrides via set_cells')
executor.set_cells([Cell('Texts', 'A', '1', value='overridden text'), Cell('Mixed', 'A', '5', value='now text')])
for c in range(LAST_COL):
    emit(f'Texts[{c},0] = {cell_value(0, c, 0)}')
for c in range(9):
    emit(f'Mixed[{c},4] = {cell_value(1, c, 4)}')

# ---------------------------------------------------------------- direct calls on both copies
generated = executor.get_executed_class()
direct = Direct()
empty_g = generated.EmptyCell()
empty_d = direct.EmptyCell()

TEXT_ARGS = ['', 'a', 'ab', 'abc', 'Hello World', 'привет', 'x' * 17, None, 0, 7, 12.5, True, False,
             [], [1, 2, 3], ['a'], (1, 2), b'bytes', 'EMPTY']
COUNT_ARGS = [None, -10, -1, 0, 1, 2, 3, 4, 10, 11, 16, 17, 18, 10 ** 6, -0.5, 0.0, 0.5, 1.0, 2.5, 100.5,
              float('inf'), float('-inf'), float('nan'), True, False, '2', '', [], 'EMPTY']

for name, obj, empty in (('generated', generated, empty_g), ('class', direct, empty_d)):
    emit(f'== direct calls on the {name} copy')
    for t in TEXT_ARGS:
        for n in COUNT_ARGS:
            tv = empty if t == 'EMPTY' else t
            nv = empty if n == 'EMPTY' else n
            emit(f'{name} LEFT({t!r},{n!r}) -> {call(obj._left, tv, nv)} ; RIGHT -> {call(obj._right, tv, nv)}')

emit('== substring algebra on both copies')
for name, obj in (('generated', generated), ('class', direct)):
    bad = 0
    for t in ['a', 'ab', 'Hello World', 'привет мир', 'x' * 33]:
        for n in range(0, len(t)):
            rebuilt = obj._excel_value_to_string(obj._left(t, n)) + obj._excel_value_to_string(obj._mid(t, n + 1, len(t)))
            if rebuilt != t:
                bad += 1
            tail = obj._excel_value_to_string(obj._right(t, len(t) - n))
            if obj._excel_value_to_string(obj._left(t, n)) + tail != t:
                bad += 1
    emit(f'{name}: algebra violations = {bad}')

emit('DIGEST ' + hashlib.sha256('\n'.join(lines).encode()).hexdigest())
